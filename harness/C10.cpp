// C10 harness (runtime part of the property): real pthreads run generated allocation scripts through the overloaded
// new / new[] / malloc / realloc / free while the thread-safe overloads are on, with pre-emption points injected around
// the detector's lock through the PlatformSpecificMutexLock/Unlock seams.  Thread 0 is the thread that runs the tests
// (a real TestRegistry / TestResult / UtestShell::runOneTest, the real MemoryLeakWarningReporter); its script is cut into
// tests at ":t" and may misuse the allocator (overrun, mismatched family, pointer never allocated); the other threads run
// their scripts concurrently.  After join the detector's table is compared with what the threads still hold.
// Every scenario runs in a forked child with a deadline, so a lock left held is observed as ":hang" instead of wedging
// the harness; a sanitizer report in the child kills the harness with the child's exit code (the runner then records
// "!CRASH <summary>").  All bookkeeping uses libc malloc and pthreads directly: nothing the harness does between the two
// snapshots goes through the tracked operators.
//
//
// Two further things a script can ask for (round 3):
//  * ":s <ms>" -- the thread's next operation RESTS <ms> milliseconds inside the locked region: the underlying allocator
//    (PlatformSpecificMalloc / Realloc / Free, wrapped here) sleeps when it is reached with the lock held; an operation that
//    never reaches the allocator rests just before the lock is given back.  Meanwhile the other threads ask for the lock (a
//    thread without a directive of its own holds its last operation back until some rest has begun).  The wrappers around
//    PlatformSpecificMutexLock/Unlock count the threads between the return of Lock and the call of Unlock; the largest count
//    seen, minus the one the lock admits, is the <overlap> field of the observation.
//  * ":x <slot> <how>" -- realloc(slot, n) for an n that is turned down (n in the top of size_t: refused by the detector's
//    overflow guard; n = SIZE_MAX/2 or the largest n the guard admits: the underlying realloc fails; an ordinary n with the
//    PlatformSpecificRealloc seam made to return NULL).  The thread keeps its block.
// Scenarios with a rest take seconds by design: their children are started at once and waited for in order when the next
// scenario without a rest (or the end of input) arrives, so a batch of them costs the longest, not the sum.
//
// Round 4: the history of the overload switches.  ":e <n> sw*n" cuts every script into EPOCHS (every thread has the same number of
// them; only thread 0 may name switches: 0 turnOff, 1 turnOnDefaultNotThreadSafe, 2 turnOnThreadSafe, 3 saveAndDisable,
// 4 restore).  All threads finish epoch i; then the test thread, alone, performs the switches in front of epoch i+1 and a fixed
// PROBE (every entry point once or twice: 15 calls, nothing left outstanding); then all threads run their part of epoch i+1
// (thread 0 as consecutive tests again).  Every call of an entry point -- script operation, probe, the output's new[]/delete[]
// -- is bracketed by a per-thread counter of the acquisitions seen at the PlatformSpecificMutexLock seam: per epoch the harness
// reports how many calls it made and how many of them took the lock exactly once.
//
// scenario:  <seed> <outalloc 0|1> <nthreads> { <nitems> item*nitems }*nthreads           (see ocaml/c10_driver.ml)
// observation:  :ok <ntests> verdict* <wfail> <adv> <distinct> <foreign> <rest> <overlap> <n> (<thread> <slot> <size>)*n
//                   <nepochs> (<calls> <locked>)*nepochs                                                              |  :hang
#include "hlib.h"
#include <new>
#include <pthread.h>
#include <sched.h>
#include <unistd.h>
#include <sys/wait.h>
#include <signal.h>
#include <fcntl.h>
#include <dirent.h>
#include <sys/prctl.h>
#include <time.h>
#include <errno.h>
#define private public
#define protected public
#include "CppUTest/TestHarness.h"
#include "CppUTest/TestHarness_c.h"
#include "CppUTest/TestRegistry.h"
#include "CppUTest/TestOutput.h"
#include "CppUTest/TestResult.h"
#include "CppUTest/MemoryLeakDetector.h"
#include "CppUTest/MemoryLeakWarningPlugin.h"
#include "CppUTest/PlatformSpecificFunctions.h"
#undef private
#undef protected
#undef new
#undef malloc
#undef free
#undef calloc
#undef realloc
#undef strdup
#undef strndup
using namespace hl;

// The C wrapper cpputest_malloc_location counts calls in a file-static int outside the detector's lock; that counter is
// not detector state and not part of the property (DESIGN C10).  Only those two globals are excluded from TSan's reports.
// frames printed as "#0 0x... in function file:line" so that the runner's crash summary names the racing functions
extern "C" const char* __tsan_default_options() { return "stack_trace_format='    #%n %p %F %L'"; }
extern "C" const char* __tsan_default_suppressions() { return "race:^malloc_count$\nrace:^malloc_out_of_memory_counter$\nrace:^countdown$\n"; }

// ---------------------------------------------------------------- pre-emption injected around lock / unlock
static void (*origLock)(PlatformSpecificMutex);
static void (*origUnlock)(PlatformSpecificMutex);
static __thread unsigned long long injState;
static int injMode;
static inline void perturb()
{
    if (!injMode) return;
    injState ^= injState << 13; injState ^= injState >> 7; injState ^= injState << 17;
    unsigned r = (unsigned) (injState & 31);
    if (r < 6) sched_yield();
    else if (r == 6 && injMode > 1) usleep((unsigned) ((injState >> 8) & 63));
}
// ---------------------------------------------------------------- who is inside the locked region; rests; the allocator seam
static int insideNow, insidePeak;                 // threads between the return of Lock() and the call of Unlock()
static __thread int tlsInRegion;
static __thread unsigned tlsRestMs;               // pending ":s": the next operation of this thread rests inside the region
static __thread int tlsFailRealloc;               // pending ":x <slot> 2": the underlying realloc of the next operation fails
static int restsBegun;                            // rests that have started in this scenario
static int scenarioHasRest;
static void sleepMs(unsigned ms)
{
    struct timespec ts; ts.tv_sec = ms / 1000; ts.tv_nsec = (long) (ms % 1000) * 1000000L;
    while (nanosleep(&ts, &ts) != 0 && errno == EINTR) {}
}
static inline void restIfAsked()
{
    if (!tlsRestMs || !tlsInRegion) return;
    unsigned ms = tlsRestMs; tlsRestMs = 0;
    __atomic_add_fetch(&restsBegun, 1, __ATOMIC_RELAXED);
    sleepMs(ms);
}
// ---------------------------------------------------------------- did this call of an entry point take the lock?
static __thread unsigned long tlsLocks;           // acquisitions by this thread, counted where Lock() returns
static __thread unsigned long tlsCalls, tlsLockedOnce;
static __thread int tlsOpen;
static __thread unsigned long tlsOpenAt;
// a call that leaves by longjmp / exception (a misuse report on the test thread) is closed by whoever comes next: the output
// that prints the failure, the test's teardown, the next call
static inline void callEnd()
{
    if (!tlsOpen) return;
    tlsOpen = 0; tlsCalls++;
    if (tlsLocks - tlsOpenAt == 1) tlsLockedOnce++;
}
static inline void callBegin() { callEnd(); tlsOpen = 1; tlsOpenAt = tlsLocks; }

static void injLock(PlatformSpecificMutex m)
{
    perturb(); origLock(m);
    tlsLocks++;
    // relaxed: the counters must not order the threads' accesses for ThreadSanitizer
    int v = __atomic_add_fetch(&insideNow, 1, __ATOMIC_RELAXED);
    int pk = __atomic_load_n(&insidePeak, __ATOMIC_RELAXED);
    while (v > pk && !__atomic_compare_exchange_n(&insidePeak, &pk, v, true, __ATOMIC_RELAXED, __ATOMIC_RELAXED)) {}
    tlsInRegion = 1;
    perturb();
}
static void injUnlock(PlatformSpecificMutex m)
{
    perturb();
    restIfAsked();                                // an operation that did not reach the allocator rests here
    tlsInRegion = 0;
    __atomic_sub_fetch(&insideNow, 1, __ATOMIC_RELAXED);
    origUnlock(m); perturb();
}
static void* (*origMalloc)(size_t);
static void* (*origRealloc)(void*, size_t);
static void (*origFree)(void*);
static void* seamMalloc(size_t n) { restIfAsked(); return origMalloc(n); }
static void seamFree(void* p) { restIfAsked(); origFree(p); }
static void* seamRealloc(void* p, size_t n)
{
    restIfAsked();
    if (tlsFailRealloc && tlsInRegion) { tlsFailRealloc = 0; return nullptr; }
#if defined(__SANITIZE_ADDRESS__) || defined(__SANITIZE_THREAD__)
    if (n > (size_t) PTRDIFF_MAX) return nullptr;     // libc's answer; the sanitizers' allocators would print a warning or stop
#endif
    return origRealloc(p, n);
}

// ---------------------------------------------------------------- scripts
struct Op { char kind; unsigned k; size_t sz; int e; unsigned nsw; unsigned char* sw; };
struct Blk { void* p; size_t sz; int fam; int bad; char saved; };       // fam: 0 new, 1 new[], 2 malloc; bad: overrun by the script
struct Thr { unsigned tid; Op* ops; size_t nops; Blk* tbl; size_t ntbl; unsigned long long seed; pthread_t th; size_t pc;
             size_t lastOp; int hasRest;       // lastOp: index of the last operation that enters the detector (nops if none)
             unsigned long* calls; unsigned long* locked; };     // per epoch: calls of entry points made, calls that took the lock once
static unsigned nEpochs = 1;
static unsigned epochGo;                      // epochs the test thread has opened (switches and probe done)
static unsigned epochDone;                    // worker-epochs finished
// the gate between epochs: blocking waits (a thread that spins would hide a deadlocked child from the no-progress detector)
static pthread_mutex_t gateMx = PTHREAD_MUTEX_INITIALIZER;
static pthread_cond_t gateCv = PTHREAD_COND_INITIALIZER;
static void gateOpen(unsigned e) { pthread_mutex_lock(&gateMx); epochGo = e; pthread_cond_broadcast(&gateCv); pthread_mutex_unlock(&gateMx); }
static void gateWaitOpen(unsigned e) { pthread_mutex_lock(&gateMx); while (epochGo <= e) pthread_cond_wait(&gateCv, &gateMx); pthread_mutex_unlock(&gateMx); }
static void gateDone() { pthread_mutex_lock(&gateMx); epochDone++; pthread_cond_broadcast(&gateCv); pthread_mutex_unlock(&gateMx); }
static void gateWaitDone(unsigned n) { pthread_mutex_lock(&gateMx); while (epochDone < n) pthread_cond_wait(&gateCv, &gateMx); pthread_mutex_unlock(&gateMx); }
static const char* FILE_ = "c10_script.cpp";
static char neverAllocated[64];
static volatile int startFlag;

static void* allocEntry(int e, size_t sz)
{
    switch (e) {
    case 0: return ::operator new(sz);
    case 1: return ::operator new(sz, std::nothrow);
    case 2: return ::operator new(sz, FILE_, (size_t) 7);
    case 3: return ::operator new[](sz);
    case 4: return ::operator new[](sz, std::nothrow);
    case 5: return ::operator new[](sz, FILE_, (size_t) 8);
    default: return cpputest_malloc_location(sz, FILE_, 9);
    }
}
static int famOfAllocEntry(int e) { return e <= 2 ? 0 : e <= 5 ? 1 : 2; }
static void releaseEntry(int e, void* p)
{
    if (e == 0) ::operator delete(p);
    else if (e == 1) ::operator delete[](p);
    else if (e == 2) cpputest_free_location(p, FILE_, 10);
    else (void) cpputest_realloc_location(p, 8, FILE_, 12);
}
// sizes that realloc is refused: see the head of the file
static size_t refusedSize(int how)
{
    const size_t accounting = (size_t) MemoryLeakDetector::memory_corruption_buffer_size + sizeof(void*) + sizeof(MemoryLeakDetectorNode);
    switch (how) {
    case 0: return SIZE_MAX - 16;
    case 1: return SIZE_MAX / 2;
    case 2: return 0x40;                          // with the seam made to fail
    case 3: return SIZE_MAX - accounting;         // the largest size the overflow guard admits
    default: return SIZE_MAX - accounting + 1;    // the smallest size it refuses
    }
}
// runs the thread's operations from t->pc up to (not including) the next ":t"; a misuse on the test thread leaves by
// longjmp from inside the call, so every slot is updated BEFORE the call that may not return
static void runOps(Thr* t)
{
    while (t->pc < t->nops) {
        Op& o = t->ops[t->pc];
        if (o.kind == 't' || o.kind == 'e') return;
        if (o.kind == 's') { t->pc++; tlsRestMs = (unsigned) o.sz; continue; }
        if (scenarioHasRest && !t->hasRest && t->pc == t->lastOp)       // be there to ask for the lock while its holder rests
            for (int w = 0; w < 2500 && !__atomic_load_n(&restsBegun, __ATOMIC_RELAXED); w++) usleep(200);
        t->pc++;
        Blk& b = t->tbl[o.k];
        if (o.kind == 'a') { callBegin(); b.p = allocEntry(o.e, o.sz); callEnd(); b.sz = o.sz; b.fam = famOfAllocEntry(o.e); b.bad = 0; if (b.p) memset(b.p, 0x5a, o.sz); }
        else if (o.kind == 'f') { void* p = b.p; b.p = nullptr; callBegin(); releaseEntry(o.e, p); callEnd(); }
        else if (o.kind == 'r') { void* p = b.p; b.p = nullptr; callBegin(); void* q = cpputest_realloc_location(p, o.sz, FILE_, 11); callEnd(); b.p = q; b.sz = o.sz; b.fam = 2; b.bad = 0; }
        else if (o.kind == 'o') { if (b.p && !b.bad) { b.saved = ((char*) b.p)[b.sz]; ((char*) b.p)[b.sz] = 'x'; b.bad = 1; } }
        else if (o.kind == 'w') { callBegin(); releaseEntry(o.e, neverAllocated + 16); callEnd(); }
        else if (o.kind == 'x') {
            size_t n = refusedSize(o.e);
            tlsFailRealloc = o.e == 2;
            callBegin();
            void* q = cpputest_realloc_location(b.p, n, FILE_, 13);
            callEnd();
            tlsFailRealloc = 0;
            if (q) { b.p = q; b.sz = n; b.fam = 2; b.bad = 0; }      // not expected: the request cannot be met
        }
    }
}
// every entry point, alone on the calling thread, nothing left outstanding: new / new nothrow / new debug, the three of new[],
// each given back through delete / delete[]; malloc, realloc, free
static void probe()
{
    for (int e = 0; e < 6; e++) {
        callBegin(); void* p = allocEntry(e, 8); callEnd();
        callBegin(); releaseEntry(famOfAllocEntry(e), p); callEnd();
    }
    callBegin(); void* p = allocEntry(6, 8); callEnd();
    callBegin(); p = cpputest_realloc_location(p, 16, FILE_, 14); callEnd();
    callBegin(); releaseEntry(2, p); callEnd();
}
static void doSwitch(int k)
{
    switch (k) {
    case 0: MemoryLeakWarningPlugin::turnOffNewDeleteOverloads(); break;
    case 1: MemoryLeakWarningPlugin::turnOnDefaultNotThreadSafeNewDeleteOverloads(); break;
    case 2: MemoryLeakWarningPlugin::turnOnThreadSafeNewDeleteOverloads(); break;
    case 3: MemoryLeakWarningPlugin::saveAndDisableNewDeleteOverloads(); break;
    default: MemoryLeakWarningPlugin::restoreNewDeleteOverloads(); break;
    }
}
static void epochCounters(Thr* t, unsigned e)
{
    callEnd();
    t->calls[e] = tlsCalls; t->locked[e] = tlsLockedOnce;
    tlsCalls = 0; tlsLockedOnce = 0;
}
static void* threadMain(void* a)
{
    Thr* t = (Thr*) a;
    injState = t->seed | 1; tlsRestMs = 0;
    while (!__atomic_load_n(&startFlag, __ATOMIC_ACQUIRE)) sched_yield();
    for (unsigned e = 0; e < nEpochs; e++) {
        // the switches in front of this epoch happen before the first call made in it, the last call of the epoch happens
        // before the next switches
        gateWaitOpen(e);
        runOps(t);
        if (t->pc < t->nops) t->pc++;              // the ":e" the thread stopped at
        epochCounters(t, e);
        gateDone();
    }
    return nullptr;
}

// ---------------------------------------------------------------- the test thread: real registry, shells, result, reporter
static Thr* thr0;
static bool dryRun;
static int outAlloc;                 // the output allocates while printing a failure (as JUnitTestOutput does)
static unsigned long outAllocs;
static pthread_t mainThread;
static volatile int inTest;
static unsigned long strayFails;     // reports raised where no test can be failed: worker threads, cleanup

class ScriptTest : public Utest
{
public:
    size_t start_;                   // first operation of this test's segment of thread 0's script
    virtual void testBody() { if (!dryRun) { thr0->pc = start_; runOps(thr0); } }
    virtual void teardown() { callEnd(); }
};
class ScriptShell : public UtestShell
{
public:
    ScriptTest test_;
    ScriptShell(size_t start) : UtestShell("C10", "script", "c10_script.cpp", 1) { test_.start_ = start; }
    virtual Utest* createTest() { return &test_; }          // no allocation by the framework itself during the run
    virtual void destroyTest(Utest*) {}
};
class QuietOutput : public TestOutput
{
public:
    virtual void printBuffer(const char*) {}
    virtual void flush() {}
    virtual void printFailure(const TestFailure&)
    {
        callEnd();                       // the call that was reported: the reporter has given its lock back by now
        if (outAlloc && !dryRun) {       // calls, not a new-expression the compiler may elide
            callBegin(); void* p = ::operator new[](24); callEnd(); memset(p, 1, 24);
            callBegin(); ::operator delete[](p); callEnd(); outAllocs++;
        }
    }
};
// reports raised on the thread that runs the tests go to the real reporter (it fails the running test and leaves it);
// a report anywhere else is a block that was released without being outstanding: counted, the detector carries on
class RoutingReporter : public MemoryLeakFailure
{
public:
    MemoryLeakFailure* real_;
    virtual void fail(char* s)
    {
        if (inTest && pthread_equal(pthread_self(), mainThread)) real_->fail(s);
        else __atomic_add_fetch(&strayFails, 1, __ATOMIC_RELAXED);
    }
};

struct Ent { void* p; unsigned tid; unsigned k; size_t sz; unsigned number; };
static int cmpPtr(const void* a, const void* b) { const Ent* x = (const Ent*) a; const Ent* y = (const Ent*) b; return x->p < y->p ? -1 : x->p > y->p ? 1 : 0; }
static int cmpOut(const void* a, const void* b)
{
    const Ent* x = (const Ent*) a; const Ent* y = (const Ent*) b;
    if (x->tid != y->tid) return x->tid < y->tid ? -1 : 1;
    return x->k < y->k ? -1 : x->k > y->k ? 1 : 0;
}

static void scenarioChild(Toks& t, int wfd)
{
    dup2(2, 1);                      // whatever the library prints (a failure outside any test, ...) must not reach the stream of observations
    unsigned long long seed = t.u();
    outAlloc = t.n();
    unsigned n = (unsigned) t.u();
    if (n == 0 || n > 64) _exit(3);
    Thr* thr = (Thr*) calloc(n, sizeof(Thr));
    size_t live = 0;
    for (unsigned i = 0; i < n; i++) {
        thr[i].tid = i; thr[i].nops = (size_t) t.u(); thr[i].ops = (Op*) calloc(thr[i].nops + 1, sizeof(Op));
        thr[i].seed = seed * 0x9e3779b97f4a7c15ULL + i * 0xbf58476d1ce4e5b9ULL + 1;
        unsigned maxk = 0, epochs = 1;
        for (size_t j = 0; j < thr[i].nops; j++) {
            Op& o = thr[i].ops[j];
            std::string k = t.next();
            if (k == ":a") { o.kind = 'a'; o.k = (unsigned) t.u(); o.sz = (size_t) t.u(); o.e = t.n(); }
            else if (k == ":f") { o.kind = 'f'; o.k = (unsigned) t.u(); o.e = t.n(); }
            else if (k == ":r") { o.kind = 'r'; o.k = (unsigned) t.u(); o.sz = (size_t) t.u(); }
            else if (k == ":o") { o.kind = 'o'; o.k = (unsigned) t.u(); }
            else if (k == ":w") { o.kind = 'w'; o.e = t.n(); }
            else if (k == ":t") { o.kind = 't'; }
            else if (k == ":x") { o.kind = 'x'; o.k = (unsigned) t.u(); o.e = t.n(); }
            else if (k == ":s") { o.kind = 's'; o.sz = (size_t) t.u(); if (o.sz > 5000) o.sz = 5000; thr[i].hasRest = 1; scenarioHasRest = 1; }
            else if (k == ":e") {
                o.kind = 'e'; o.nsw = (unsigned) t.u(); o.sw = (unsigned char*) calloc(o.nsw + 1, 1); epochs++;
                for (unsigned q = 0; q < o.nsw; q++) o.sw[q] = (unsigned char) t.n();
                if (i != 0 && o.nsw) { fprintf(stderr, "switches on a worker thread\n"); _exit(3); }
            }
            else { fprintf(stderr, "bad op %s\n", k.c_str()); _exit(3); }
            if (o.k > maxk) maxk = o.k;
        }
        if (i == 0) nEpochs = epochs;
        else if (epochs != nEpochs) { fprintf(stderr, "threads disagree on the number of epochs\n"); _exit(3); }
        thr[i].lastOp = thr[i].nops;
        for (size_t j = 0; j < thr[i].nops; j++) if (strchr("afrwx", thr[i].ops[j].kind)) thr[i].lastOp = j;
        thr[i].ntbl = maxk + 1; thr[i].tbl = (Blk*) calloc(thr[i].ntbl, sizeof(Blk));
        thr[i].calls = (unsigned long*) calloc(nEpochs + 1, sizeof(unsigned long));
        thr[i].locked = (unsigned long*) calloc(nEpochs + 1, sizeof(unsigned long));
        live += thr[i].ntbl;
    }
    thr0 = &thr[0];
    injMode = seed == 0 ? 0 : (seed & 1) ? 2 : 1;
    injState = thr[0].seed | 1;
    mainThread = pthread_self();

    MemoryLeakDetector* d = MemoryLeakWarningPlugin::getGlobalDetector();
    RoutingReporter* rr = new RoutingReporter; rr->real_ = d->reporter_; d->reporter_ = rr;
    QuietOutput* out = new QuietOutput;
    TestResult* result = new TestResult(*out);
    // thread 0's part of every epoch: [first, last) of its items, one registered test per stretch between ":t"s; an epoch in
    // which the test thread has nothing to do has one test that is not run
    struct Ep { size_t first, last; TestRegistry* reg; size_t shell0, nshells; Op* sw; };
    Ep* eps = (Ep*) calloc(nEpochs, sizeof(Ep));
    size_t ntests = 0;
    {
        size_t e = 0; eps[0].first = 0; eps[0].sw = nullptr;
        for (size_t j = 0; j < thr[0].nops; j++) if (thr[0].ops[j].kind == 'e') { eps[e].last = j; e++; eps[e].first = j + 1; eps[e].sw = &thr[0].ops[j]; }
        eps[e].last = thr[0].nops;
        for (e = 0; e < nEpochs; e++) {
            eps[e].shell0 = ntests; eps[e].nshells = 1;
            for (size_t j = eps[e].first; j < eps[e].last; j++) if (thr[0].ops[j].kind == 't') eps[e].nshells++;
            ntests += eps[e].nshells;
        }
    }
    ScriptShell** shells = (ScriptShell**) calloc(ntests, sizeof(ScriptShell*));
    for (size_t e = 0; e < nEpochs; e++) {
        size_t q = eps[e].shell0; shells[q] = new ScriptShell(eps[e].first);
        for (size_t j = eps[e].first; j < eps[e].last; j++) if (thr[0].ops[j].kind == 't') shells[++q] = new ScriptShell(j + 1);
        eps[e].reg = nullptr;
        if (eps[e].last > eps[e].first) {
            eps[e].reg = new TestRegistry;
            for (size_t i = eps[e].nshells; i-- > 0;) eps[e].reg->addTest(shells[eps[e].shell0 + i]);      // addTest prepends: add the last test first
        }
    }

    MemoryLeakWarningPlugin::turnOnThreadSafeNewDeleteOverloads();
    // what the framework itself allocates for a run of that many empty tests (subtracted below)
    unsigned s0 = d->getCurrentAllocationNumber(); size_t l0 = d->totalMemoryLeaks(mem_leak_period_all);
    dryRun = true; for (size_t e = 0; e < nEpochs; e++) if (eps[e].reg) eps[e].reg->runAllTests(*result); dryRun = false;
    unsigned dryAdv = d->getCurrentAllocationNumber() - s0; size_t dryLeaks = d->totalMemoryLeaks(mem_leak_period_all) - l0;

    size_t n0 = d->totalMemoryLeaks(mem_leak_period_all);
    unsigned seq0 = d->getCurrentAllocationNumber();
    unsigned probeAdv = 0;
    inTest = 1;
    __atomic_store_n(&insideNow, 0, __ATOMIC_RELAXED); __atomic_store_n(&insidePeak, 0, __ATOMIC_RELAXED);
    tlsCalls = 0; tlsLockedOnce = 0; tlsOpen = 0;
    for (unsigned i = 1; i < n; i++) pthread_create(&thr[i].th, nullptr, threadMain, &thr[i]);
    __atomic_store_n(&startFlag, 1, __ATOMIC_RELEASE);
    for (unsigned e = 0; e < nEpochs; e++) {
        // every thread is between epochs: the test thread, alone, flips the switches and probes every entry point
        if (eps[e].sw) for (unsigned q = 0; q < eps[e].sw->nsw; q++) doSwitch(eps[e].sw->sw[q]);
        unsigned a0 = d->getCurrentAllocationNumber();
        probe();
        probeAdv += d->getCurrentAllocationNumber() - a0;
        gateOpen(e + 1);
        if (eps[e].reg) eps[e].reg->runAllTests(*result);          // thread 0: one registered test per stretch of its script
        epochCounters(&thr[0], e);
        gateWaitDone((n - 1) * (e + 1));
    }
    for (unsigned i = 1; i < n; i++) pthread_join(thr[i].th, nullptr);
    inTest = 0;
    // whatever the switches were left at: the accounting below and the cleanup go through the detector
    MemoryLeakWarningPlugin::turnOnThreadSafeNewDeleteOverloads();
    size_t n1 = d->totalMemoryLeaks(mem_leak_period_all);
    unsigned seq1 = d->getCurrentAllocationNumber();
    int peak = __atomic_load_n(&insidePeak, __ATOMIC_RELAXED);

    // what the threads still hold, by address
    Ent* held = (Ent*) calloc(live + 1, sizeof(Ent)); size_t nheld = 0;
    for (unsigned i = 0; i < n; i++) for (size_t k = 0; k < thr[i].ntbl; k++) if (thr[i].tbl[k].p) { Ent e = { thr[i].tbl[k].p, i, (unsigned) k, thr[i].tbl[k].sz, 0 }; held[nheld++] = e; }
    qsort(held, nheld, sizeof(Ent), cmpPtr);
    // the detector's entries
    Ent* ents = (Ent*) calloc(n1 + 1, sizeof(Ent)); size_t nents = 0, foreign = 0;
    for (MemoryLeakDetectorNode* nd = d->memoryTable_.getFirstLeak(mem_leak_period_all); nd; nd = d->memoryTable_.getNextLeak(nd, mem_leak_period_all)) {
        Ent key = { nd->memory_, 0, 0, 0, 0 };
        Ent* h = (Ent*) bsearch(&key, held, nheld, sizeof(Ent), cmpPtr);
        if (!h) { foreign++; continue; }
        if (nents <= n1) { Ent e = { nd->memory_, h->tid, h->k, nd->size_, nd->number_ }; ents[nents++] = e; }
    }
    qsort(ents, nents, sizeof(Ent), cmpOut);
    int distinct = 1;
    for (size_t i = 0; i < nents; i++) {
        if (ents[i].number < seq0 || ents[i].number >= seq1) distinct = 0;
        for (size_t j = i + 1; j < nents; j++) if (ents[i].number == ents[j].number) distinct = 0;
    }
    // release everything that is still held (through the matching entry point), then back to the default overloads
    for (unsigned i = 0; i < n; i++) for (size_t k = 0; k < thr[i].ntbl; k++) if (thr[i].tbl[k].p) {
        Blk& b = thr[i].tbl[k]; void* p = b.p; b.p = nullptr;
        if (b.bad) ((char*) p)[b.sz] = b.saved;      // a block the script overran and still holds: not the cleanup's business
        releaseEntry(b.fam, p);
    }
    size_t n2 = d->totalMemoryLeaks(mem_leak_period_all);
    MemoryLeakWarningPlugin::turnOnDefaultNotThreadSafeNewDeleteOverloads();

    std::string o = ":ok " + hx(ntests);
    for (size_t i = 0; i < ntests; i++) o += shells[i]->hasFailed() ? " 1" : " 0";
    o += " " + hx(strayFails);
    o += " " + hx((unsigned long long) (seq1 - seq0) - dryAdv - outAllocs - probeAdv);
    o += " " + hx((unsigned long long) distinct);
    o += " " + hx((unsigned long long) (foreign - n0 - dryLeaks));
    o += " " + hx((unsigned long long) (n2 - n0 - dryLeaks));
    o += " " + hx((unsigned long long) (peak > 1 ? peak - 1 : 0));
    o += " " + hx(nents);
    for (size_t i = 0; i < nents; i++) o += " " + hx(ents[i].tid) + " " + hx(ents[i].k) + " " + hx(ents[i].sz);
    o += " " + hx(nEpochs);
    for (unsigned e = 0; e < nEpochs; e++) {
        unsigned long c = 0, l = 0;
        for (unsigned i = 0; i < n; i++) { c += thr[i].calls[e]; l += thr[i].locked[e]; }
        o += " " + hx(c) + " " + hx(l);
    }
    o += "\n";
    size_t off = 0;
    while (off < o.size()) { ssize_t w = write(wfd, o.data() + off, o.size() - off); if (w <= 0) _exit(4); off += (size_t) w; }
    _exit(0);
}

// A deadlocked child burns no CPU and all its threads sleep.  Waiting for the full deadline on every such scenario would
// make a run on a broken tree take hours, so the child is also declared hung when for `quiet` seconds its CPU time has not
// moved and no thread was seen runnable (sampled every 20 ms); the window halves after every hang found (never below 0.1 s).
static double quietWindow = 0.6;
static bool childProgress(pid_t pid, unsigned long long& ticks)
{
    char path[64], buf[1024]; bool running = false; unsigned long long total = 0;
    snprintf(path, sizeof path, "/proc/%d/task", (int) pid);
    DIR* dir = opendir(path);
    if (!dir) return true;
    while (struct dirent* de = readdir(dir)) {
        if (de->d_name[0] == '.') continue;
        char sp[160]; snprintf(sp, sizeof sp, "/proc/%d/task/%s/stat", (int) pid, de->d_name);
        int fd = open(sp, O_RDONLY); if (fd < 0) continue;
        ssize_t len = read(fd, buf, sizeof buf - 1); close(fd); if (len <= 0) continue; buf[len] = 0;
        char* rp = strrchr(buf, ')'); if (!rp) continue;
        char state = 0; unsigned long long ut = 0, stt = 0;
        // after ") ": state ppid pgrp session tty tpgid flags minflt cminflt majflt cmajflt utime stime
        if (sscanf(rp + 2, "%c %*d %*d %*d %*d %*d %*u %*u %*u %*u %*u %llu %llu", &state, &ut, &stt) == 3) {
            total += ut + stt;
            if (state == 'R' || state == 'D') running = true;
        }
    }
    closedir(dir);
    bool moved = running || total != ticks;
    ticks = total;
    return moved;
}

static double nowSec() { struct timespec ts; clock_gettime(CLOCK_MONOTONIC, &ts); return (double) ts.tv_sec + (double) ts.tv_nsec * 1e-9; }
// rests asked for by a scenario, in seconds: they are spent inside the lock one after another, and while one lasts nothing in
// the child moves -- the deadline and the no-progress window have to allow for them
struct Rests { double sum, longest; };
static Rests restsOf(const Toks& t)
{
    Rests r = { 0, 0 };
    for (size_t i = 0; i + 1 < t.t.size(); i++) if (t.t[i] == ":s") {
        double ms = (double) strtoull(t.t[i + 1].c_str(), nullptr, 16); if (ms > 5000) ms = 5000;
        r.sum += ms / 1000; if (ms / 1000 > r.longest) r.longest = ms / 1000;
    }
    return r;
}
struct Child { pid_t pid; int fd; double t0; Rests rests; };
static Child startScenario(Toks& t)
{
    int fd[2]; if (pipe(fd) != 0) { perror("pipe"); exit(3); }
    fflush(stdout); fflush(stderr);
    Child c; c.rests = restsOf(t); c.t0 = nowSec();
    c.pid = fork();
    if (c.pid < 0) { perror("fork"); exit(3); }
    if (c.pid == 0) { prctl(PR_SET_PDEATHSIG, SIGKILL); close(fd[0]); scenarioChild(t, fd[1]); }   // never outlive the harness
    close(fd[1]); c.fd = fd[0];
    fcntl(c.fd, F_SETFL, O_NONBLOCK);
    return c;
}
static void finishScenario(Child& c, double deadline)
{
    // read until EOF (the observation can be longer than a pipe buffer) while watching the deadline
    std::string got; char buf[4096];
    int status = 0; bool done = false;
    unsigned long long ticks = 0; double quiet = 0;
    const double limit = deadline + c.rests.sum;
    const double window = c.rests.longest > 0 ? c.rests.longest + 1.0 + quietWindow : quietWindow;
    for (int i = 0; nowSec() - c.t0 < limit; i++) {
        for (;;) { ssize_t len = read(c.fd, buf, sizeof buf); if (len > 0) got.append(buf, (size_t) len); else break; }
        if (waitpid(c.pid, &status, WNOHANG) == c.pid) { done = true; break; }
        usleep(5000);
        if (i % 4 == 3) { if (childProgress(c.pid, ticks)) quiet = 0; else quiet += 0.02; if (quiet >= window) break; }
    }
    if (!done) {
        kill(c.pid, SIGKILL); waitpid(c.pid, &status, 0); close(c.fd);
        quietWindow = quietWindow / 2 < 0.1 ? 0.1 : quietWindow / 2;
        printf(":hang\n"); fflush(stdout); return;
    }
    for (;;) { ssize_t len = read(c.fd, buf, sizeof buf); if (len > 0) got.append(buf, (size_t) len); else break; }
    close(c.fd);
    if (WIFEXITED(status) && WEXITSTATUS(status) == 0 && !got.empty() && got[got.size() - 1] == '\n') { fputs(got.c_str(), stdout); fflush(stdout); return; }
    // the child died (sanitizer report, signal): die the same way, the child's report is already on stderr
    fprintf(stderr, "C10 harness: scenario child %s %d\n", WIFSIGNALED(status) ? "killed by signal" : "exited with", WIFSIGNALED(status) ? WTERMSIG(status) : WEXITSTATUS(status));
    if (WIFSIGNALED(status)) { signal(WTERMSIG(status), SIG_DFL); raise(WTERMSIG(status)); }
    _exit(WEXITSTATUS(status) ? WEXITSTATUS(status) : 5);
}

int main(int argc, char** argv)
{
    setvbuf(stdout, NULL, _IOLBF, 0);
    double deadline = argc > 1 ? atof(argv[1]) : 10.0;
    MemoryLeakWarningPlugin::getGlobalDetector();            // created before any thread exists
    origLock = PlatformSpecificMutexLock; origUnlock = PlatformSpecificMutexUnlock;
    PlatformSpecificMutexLock = injLock; PlatformSpecificMutexUnlock = injUnlock;
    origMalloc = PlatformSpecificMalloc; origRealloc = PlatformSpecificRealloc; origFree = PlatformSpecificFree;
    PlatformSpecificMalloc = seamMalloc; PlatformSpecificRealloc = seamRealloc; PlatformSpecificFree = seamFree;
    Toks t;
    // scenarios with a rest are started as they arrive and collected, in order, before the next scenario without one
    std::vector<Child> resting;
    while (readline(t)) {
        bool rest = restsOf(t).sum > 0;
        if (rest && resting.size() < 8) { resting.push_back(startScenario(t)); continue; }
        for (size_t i = 0; i < resting.size(); i++) finishScenario(resting[i], deadline);
        resting.clear();
        Child c = startScenario(t);
        finishScenario(c, deadline);
    }
    for (size_t i = 0; i < resting.size(); i++) finishScenario(resting[i], deadline);
    return 0;
}
