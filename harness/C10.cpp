// C10 harness (runtime part of the property): real pthreads run generated allocation scripts through the overloaded
// new / new[] / malloc / realloc / free while the thread-safe overloads are on, with pre-emption points injected around
// the detector's lock through the PlatformSpecificMutexLock/Unlock seams; after join the detector's table is compared
// with what the threads still hold.  Misuse scenarios run in a forked child so that a lock left held is observed as
// ":hang" instead of wedging the harness.  All bookkeeping uses libc malloc and pthreads directly, so nothing the
// harness does between the two snapshots goes through the tracked operators.
#include "hlib.h"
#include <new>
#include <pthread.h>
#include <sched.h>
#include <unistd.h>
#include <sys/wait.h>
#include <signal.h>
#define private public
#define protected public
#include "CppUTest/TestHarness.h"
#include "CppUTest/TestHarness_c.h"
#include "CppUTest/MemoryLeakDetector.h"
#include "CppUTest/MemoryLeakWarningPlugin.h"
#include "CppUTest/TestTestingFixture.h"
#include "CppUTest/PlatformSpecificFunctions.h"
#undef private
#undef protected
#undef new
#undef malloc
#undef free
#undef calloc
#undef realloc
#undef strdup
#undef strndup
using namespace hl;

// The C wrapper cpputest_malloc_location counts calls in a file-static int outside the detector's lock; that counter is
// not detector state and not part of the property (DESIGN C10).  Only that global is excluded from TSan's reports.
extern "C" const char* __tsan_default_suppressions() { return "race:malloc_count\nrace:malloc_out_of_memory_counter\n"; }

// ---------------------------------------------------------------- pre-emption injected around lock / unlock
static void (*origLock)(PlatformSpecificMutex);
static void (*origUnlock)(PlatformSpecificMutex);
static __thread unsigned long long injState;
static int injMode;
static inline void perturb()
{
    if (!injMode) return;
    injState ^= injState << 13; injState ^= injState >> 7; injState ^= injState << 17;
    unsigned r = (unsigned) (injState & 31);
    if (r < 6) sched_yield();
    else if (r == 6 && injMode > 1) usleep((unsigned) ((injState >> 8) & 63));
}
static void injLock(PlatformSpecificMutex m) { perturb(); origLock(m); perturb(); }
static void injUnlock(PlatformSpecificMutex m) { perturb(); origUnlock(m); perturb(); }

// ---------------------------------------------------------------- scripts
struct Op { char kind; unsigned k; size_t sz; int fam; };
struct Blk { void* p; size_t sz; int fam; };
struct Thr { unsigned tid; Op* ops; size_t nops; Blk* tbl; size_t ntbl; unsigned long long seed; pthread_t th; };
static const char* FILE_ = "c10_script.cpp";

static void* allocFam(int fam, size_t sz)
{
    switch (fam) {
    case 0: return ::operator new(sz);
    case 1: return ::operator new(sz, std::nothrow);
    case 2: return ::operator new(sz, FILE_, (size_t) 7);
    case 3: return ::operator new[](sz);
    case 4: return ::operator new[](sz, std::nothrow);
    case 5: return ::operator new[](sz, FILE_, (size_t) 8);
    default: return cpputest_malloc_location(sz, FILE_, 9);
    }
}
static void freeFam(int fam, void* p)
{
    if (fam <= 2) ::operator delete(p);
    else if (fam <= 5) ::operator delete[](p);
    else cpputest_free_location(p, FILE_, 10);
}
static void* threadMain(void* a)
{
    Thr* t = (Thr*) a;
    injState = t->seed | 1;
    for (size_t i = 0; i < t->nops; i++) {
        Op& o = t->ops[i];
        Blk& b = t->tbl[o.k];
        if (o.kind == 'a') { b.p = allocFam(o.fam, o.sz); b.sz = o.sz; b.fam = o.fam; if (b.p) memset(b.p, 0x5a, o.sz); }
        else if (o.kind == 'f') { freeFam(b.fam, b.p); b.p = nullptr; }
        else { b.p = cpputest_realloc_location(b.p, o.sz, FILE_, 11); b.sz = o.sz; }
    }
    return nullptr;
}

struct Ent { void* p; unsigned tid; unsigned k; size_t sz; unsigned number; };
static int cmpPtr(const void* a, const void* b) { const Ent* x = (const Ent*) a; const Ent* y = (const Ent*) b; return x->p < y->p ? -1 : x->p > y->p ? 1 : 0; }
static int cmpOut(const void* a, const void* b)
{
    const Ent* x = (const Ent*) a; const Ent* y = (const Ent*) b;
    if (x->tid != y->tid) return x->tid < y->tid ? -1 : 1;
    return x->number < y->number ? -1 : x->number > y->number ? 1 : 0;
}

static void threadScenario(Toks& t)
{
    unsigned long long inj = t.u();
    unsigned n = (unsigned) t.u();
    Thr* thr = (Thr*) calloc(n, sizeof(Thr));
    size_t live = 0;
    for (unsigned i = 0; i < n; i++) {
        thr[i].tid = i; thr[i].nops = (size_t) t.u(); thr[i].ops = (Op*) calloc(thr[i].nops + 1, sizeof(Op));
        thr[i].seed = inj * 0x9e3779b97f4a7c15ULL + i * 0xbf58476d1ce4e5b9ULL + 1;
        unsigned maxk = 0;
        for (size_t j = 0; j < thr[i].nops; j++) {
            Op& o = thr[i].ops[j];
            std::string k = t.next();
            if (k == ":a") { o.kind = 'a'; o.k = (unsigned) t.u(); o.sz = (size_t) t.u(); o.fam = t.n(); }
            else if (k == ":f") { o.kind = 'f'; o.k = (unsigned) t.u(); }
            else if (k == ":r") { o.kind = 'r'; o.k = (unsigned) t.u(); o.sz = (size_t) t.u(); }
            else { fprintf(stderr, "bad op %s\n", k.c_str()); exit(3); }
            if (o.k > maxk) maxk = o.k;
        }
        thr[i].ntbl = maxk + 1; thr[i].tbl = (Blk*) calloc(thr[i].ntbl, sizeof(Blk));
        live += thr[i].ntbl;
    }
    injMode = inj == 0 ? 0 : (inj & 1) ? 2 : 1;
    MemoryLeakDetector* d = MemoryLeakWarningPlugin::getGlobalDetector();
    MemoryLeakWarningPlugin::turnOnThreadSafeNewDeleteOverloads();
    size_t n0 = d->totalMemoryLeaks(mem_leak_period_all);
    for (unsigned i = 0; i < n; i++) pthread_create(&thr[i].th, nullptr, threadMain, &thr[i]);
    for (unsigned i = 0; i < n; i++) pthread_join(thr[i].th, nullptr);
    size_t n1 = d->totalMemoryLeaks(mem_leak_period_all);
    // what the threads still hold, by address
    Ent* held = (Ent*) calloc(live + 1, sizeof(Ent)); size_t nheld = 0;
    for (unsigned i = 0; i < n; i++) for (size_t k = 0; k < thr[i].ntbl; k++) if (thr[i].tbl[k].p) { Ent e = { thr[i].tbl[k].p, i, (unsigned) k, thr[i].tbl[k].sz, 0 }; held[nheld++] = e; }
    qsort(held, nheld, sizeof(Ent), cmpPtr);
    // the detector's entries
    Ent* out = (Ent*) calloc(n1 + 1, sizeof(Ent)); size_t nout = 0, unknown = 0;
    for (MemoryLeakDetectorNode* nd = d->memoryTable_.getFirstLeak(mem_leak_period_all); nd; nd = d->memoryTable_.getNextLeak(nd, mem_leak_period_all)) {
        Ent key = { nd->memory_, 0, 0, 0, 0 };
        Ent* h = (Ent*) bsearch(&key, held, nheld, sizeof(Ent), cmpPtr);
        if (!h) { unknown++; continue; }
        if (nout <= n1) { Ent e = { nd->memory_, h->tid, h->k, nd->size_, nd->number_ }; out[nout++] = e; }
    }
    qsort(out, nout, sizeof(Ent), cmpOut);
    int uniq = 1;
    for (size_t i = 0; i + 1 < nout; i++) for (size_t j = i + 1; j < nout; j++) if (out[i].number == out[j].number) uniq = 0;
    // release everything that is still held (through the matching entry point), then back to the default overloads
    for (unsigned i = 0; i < n; i++) for (size_t k = 0; k < thr[i].ntbl; k++) if (thr[i].tbl[k].p) freeFam(thr[i].tbl[k].fam, thr[i].tbl[k].p);
    size_t n2 = d->totalMemoryLeaks(mem_leak_period_all);
    MemoryLeakWarningPlugin::turnOnDefaultNotThreadSafeNewDeleteOverloads();
    // observation: outstanding delta, foreign entries, distinct sequence numbers, everything released again, entries
    printf("%llx %llx %x %llx %llx", (unsigned long long) (n1 - n0), (unsigned long long) (unknown - n0), uniq, (unsigned long long) (n2 - n0), (unsigned long long) nout);
    for (size_t i = 0; i < nout; i++) printf(" %x %x %llx", out[i].tid, out[i].k, (unsigned long long) out[i].sz);
    printf("\n"); fflush(stdout);
    for (unsigned i = 0; i < n; i++) { free(thr[i].ops); free(thr[i].tbl); }
    free(thr); free(held); free(out);
}

// ---------------------------------------------------------------- misuse on the test's thread
static int gEntry, gKind; static volatile int gReached;
static char notAllocated[32];
static void misuseBody()
{
    // entry: 0 delete, 1 delete[], 2 free, 3 realloc; kind: 0 overrun, 1 never allocated, 2 allocated by another family
    int fam = gEntry == 0 ? 0 : gEntry == 1 ? 3 : 6;
    if (gKind == 2) fam = gEntry == 0 ? 3 : gEntry == 1 ? 0 : gEntry == 2 ? 0 : 3;
    char* p = notAllocated + 8;
    if (gKind != 1) { p = (char*) allocFam(fam, 4); if (gKind == 0) p[4] = 'x'; }
    if (gEntry == 0) ::operator delete(p);
    else if (gEntry == 1) ::operator delete[](p);
    else if (gEntry == 2) cpputest_free_location(p, FILE_, 20);
    else cpputest_realloc_location(p, 8, FILE_, 21);
    gReached = 1;
}
static void* afterThread(void*) { char* q = (char*) allocFam(3, 4); freeFam(3, q); void* m = allocFam(6, 4); freeFam(6, m); return nullptr; }

static void misuseChild(int wfd)
{
    MemoryLeakWarningPlugin::getGlobalDetector();
    MemoryLeakWarningPlugin::turnOnThreadSafeNewDeleteOverloads();
    size_t fails;
    {
        TestTestingFixture fx;
        fx.setTestFunction(misuseBody);
        fx.runAllTests();
        fails = fx.getFailureCount();
    }
    // the run continues: the next allocations on this thread and on another one complete
    char* q = (char*) allocFam(3, 4); freeFam(3, q);
    pthread_t th; pthread_create(&th, nullptr, afterThread, nullptr); pthread_join(th, nullptr);
    MemoryLeakWarningPlugin::turnOnDefaultNotThreadSafeNewDeleteOverloads();
    char buf[64]; int len = snprintf(buf, sizeof buf, "%llx %x :ok\n", (unsigned long long) fails, (unsigned) gReached);
    if (write(wfd, buf, (size_t) len) < 0) _exit(4);
    _exit(0);
}
static void misuseScenario(Toks& t)
{
    gEntry = t.n(); gKind = t.n(); gReached = 0;
    double deadline = t.end() ? 10.0 : (double) t.u();
    int fd[2]; if (pipe(fd) != 0) { perror("pipe"); exit(3); }
    fflush(stdout); fflush(stderr);
    pid_t pid = fork();
    if (pid == 0) { close(fd[0]); injMode = 1; injState = 12345; misuseChild(fd[1]); }
    close(fd[1]);
    int status = 0; bool done = false;
    for (int i = 0; i < (int) (deadline * 100); i++) {
        if (waitpid(pid, &status, WNOHANG) == pid) { done = true; break; }
        usleep(10000);
    }
    if (!done) { kill(pid, SIGKILL); waitpid(pid, &status, 0); close(fd[0]); printf(":hang\n"); fflush(stdout); return; }
    char buf[64]; ssize_t len = read(fd[0], buf, sizeof buf - 1); close(fd[0]);
    if (len > 0 && WIFEXITED(status) && WEXITSTATUS(status) == 0) { buf[len] = 0; fputs(buf, stdout); }
    else if (WIFSIGNALED(status)) printf(":died sig %x\n", WTERMSIG(status));
    else printf(":died exit %x\n", WEXITSTATUS(status));
    fflush(stdout);
}

int main()
{
    setvbuf(stdout, NULL, _IOLBF, 0);
    MemoryLeakWarningPlugin::getGlobalDetector();            // created before any thread exists
    origLock = PlatformSpecificMutexLock; origUnlock = PlatformSpecificMutexUnlock;
    PlatformSpecificMutexLock = injLock; PlatformSpecificMutexUnlock = injUnlock;
    Toks t;
    while (readline(t)) {
        std::string kind = t.next();
        if (kind == ":T") threadScenario(t);
        else if (kind == ":M") misuseScenario(t);
        else { fprintf(stderr, "bad scenario kind %s\n", kind.c_str()); exit(3); }
    }
    return 0;
}
