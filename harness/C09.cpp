// C09 harness: builds two MockNamedValue objects from a scenario line, prints equals both ways and every integer getter
// on the first value ("~" = the getter failed the test).  Runs inside a fixture test so failing getters are contained.
#include "CppUTest/TestHarness.h"
#include "CppUTest/TestTestingFixture.h"
#include "CppUTestExt/MockNamedValue.h"
#include "hlib.h"
using namespace hl;

static std::vector<std::string> keep;   // string/memory storage outliving the values
static void build(Toks& t, MockNamedValue& v)
{
    std::string tag = t.next();
    if (tag == ":b") v.setValue(t.u() != 0);
    else if (tag == ":i") {
        int ty = t.n(); long long z = t.z();
        switch (ty) {
        case 0: v.setValue((int)z); break;
        case 1: v.setValue((unsigned int)z); break;
        case 2: v.setValue((long int)z); break;
        case 3: v.setValue((unsigned long int)z); break;
        case 4: v.setValue((long long)z); break;
        default: v.setValue((unsigned long long)z); break;
        }
    }
    else if (tag == ":d") { unsigned long long a = t.u(), b = t.u(); double d, tol; memcpy(&d, &a, 8); memcpy(&tol, &b, 8); v.setValue(d, tol); }
    else if (tag == ":s") { std::string s; if (t.bytes(s)) { keep.push_back(s); v.setValue(keep.back().c_str()); } else v.setValue((const char*)0); }
    else if (tag == ":p") v.setValue((void*)(uintptr_t)t.u());
    else if (tag == ":cp") v.setValue((const void*)(uintptr_t)t.u());
    else if (tag == ":f") v.setValue((void (*)())(uintptr_t)t.u());
    else if (tag == ":m") { std::string s; t.bytes(s); keep.push_back(s); v.setMemoryBuffer((const unsigned char*)keep.back().data(), keep.back().size()); }
    else { fprintf(stderr, "bad tag %s\n", tag.c_str()); exit(3); }
}

static MockNamedValue* gA; static int gWhich; static std::string gRes;
static void getterBody()
{
    switch (gWhich) {
    case 0: gRes = hz(gA->getIntValue()); break;
    case 1: gRes = hx(gA->getUnsignedIntValue()); break;
    case 2: gRes = hz(gA->getLongIntValue()); break;
    case 3: gRes = hx(gA->getUnsignedLongIntValue()); break;
    case 4: gRes = hz(gA->getLongLongIntValue()); break;
    default: gRes = hx(gA->getUnsignedLongLongIntValue()); break;
    }
}

int main()
{
    Toks t; Out o;
    while (readline(t)) {
        keep.clear(); keep.reserve(4);
        MockNamedValue a("a"), b("b");
        build(t, a); build(t, b);
        o << (a.equals(b) ? "1" : "0") << (b.equals(a) ? "1" : "0");
        for (int g = 0; g < 6; g++) {
            TestTestingFixture fx;
            gA = &a; gWhich = g; gRes = "~";
            fx.setTestFunction(getterBody);
            fx.runAllTests();
            o << (fx.getFailureCount() ? std::string("~") : gRes);
        }
        o.flush();
    }
    return 0;
}
