// C09 harness: builds two MockNamedValue objects from a scenario line, prints equals both ways and every integer getter
// on the first value ("~" = the getter failed the test).  Runs inside a fixture test so failing getters are contained.
// Placement of pointer-like payloads: "<value> <value>" gives every string / memory buffer an allocation of its own;
// ":am <arena> oa la ob lb" and ":as <arena> oa ob" put BOTH payloads into ONE exactly-sized heap block (so that ASan sees
// any read past it): memory buffers [arena+oa, +la) and [arena+ob, +lb); C strings starting at arena+oa and arena+ob, the
// arena being followed by a single NUL.
#include "CppUTest/TestHarness.h"
#include "CppUTest/TestTestingFixture.h"
#include "CppUTestExt/MockNamedValue.h"
#include "hlib.h"
using namespace hl;

static std::vector<std::string> keep;   // string/memory storage outliving the values
static void build(Toks& t, MockNamedValue& v)
{
    std::string tag = t.next();
    if (tag == ":b") v.setValue(t.u() != 0);
    else if (tag == ":i") {
        int ty = t.n(); long long z = t.z();
        switch (ty) {
        case 0: v.setValue((int)z); break;
        case 1: v.setValue((unsigned int)z); break;
        case 2: v.setValue((long int)z); break;
        case 3: v.setValue((unsigned long int)z); break;
        case 4: v.setValue((long long)z); break;
        default: v.setValue((unsigned long long)z); break;
        }
    }
    else if (tag == ":d") { unsigned long long a = t.u(), b = t.u(); double d, tol; memcpy(&d, &a, 8); memcpy(&tol, &b, 8); v.setValue(d, tol); }
    else if (tag == ":s") { std::string s; if (t.bytes(s)) { keep.push_back(s); v.setValue(keep.back().c_str()); } else v.setValue((const char*)0); }
    else if (tag == ":p") v.setValue((void*)(uintptr_t)t.u());
    else if (tag == ":cp") v.setValue((const void*)(uintptr_t)t.u());
    else if (tag == ":f") v.setValue((void (*)())(uintptr_t)t.u());
    else if (tag == ":m") { std::string s; t.bytes(s); keep.push_back(s); v.setMemoryBuffer((const unsigned char*)keep.back().data(), keep.back().size()); }
    else { fprintf(stderr, "bad tag %s\n", tag.c_str()); exit(3); }
}

static unsigned char* arena = 0;
static bool buildAliased(Toks& t, MockNamedValue& a, MockNamedValue& b)
{
    if (t.end() || (t.t[t.i] != ":am" && t.t[t.i] != ":as")) return false;
    bool mem = t.next() == ":am";
    std::string ar; t.bytes(ar);
    size_t n = ar.size() + (mem ? 0 : 1);
    arena = (unsigned char*)malloc(n ? n : 1);
    if (ar.size()) memcpy(arena, ar.data(), ar.size());
    if (!mem) arena[ar.size()] = 0;
    if (mem) {
        size_t oa = t.u(), la = t.u(), ob = t.u(), lb = t.u();
        if (oa + la > ar.size() || ob + lb > ar.size()) { fprintf(stderr, "window outside the arena\n"); exit(3); }
        a.setMemoryBuffer(arena + oa, la); b.setMemoryBuffer(arena + ob, lb);
    } else {
        size_t oa = t.u(), ob = t.u();
        if (oa > ar.size() || ob > ar.size()) { fprintf(stderr, "pointer outside the arena\n"); exit(3); }
        a.setValue((const char*)arena + oa); b.setValue((const char*)arena + ob);
    }
    return true;
}

static MockNamedValue* gA; static int gWhich; static std::string gRes;
static void getterBody()
{
    switch (gWhich) {
    case 0: gRes = hz(gA->getIntValue()); break;
    case 1: gRes = hx(gA->getUnsignedIntValue()); break;
    case 2: gRes = hz(gA->getLongIntValue()); break;
    case 3: gRes = hx(gA->getUnsignedLongIntValue()); break;
    case 4: gRes = hz(gA->getLongLongIntValue()); break;
    default: gRes = hx(gA->getUnsignedLongLongIntValue()); break;
    }
}

int main()
{
    Toks t; Out o;
    while (readline(t)) {
        keep.clear(); keep.reserve(4);
        MockNamedValue a("a"), b("b");
        if (!buildAliased(t, a, b)) { build(t, a); build(t, b); }
        o << (a.equals(b) ? "1" : "0") << (b.equals(a) ? "1" : "0");
        for (int g = 0; g < 6; g++) {
            TestTestingFixture fx;
            gA = &a; gWhich = g; gRes = "~";
            fx.setTestFunction(getterBody);
            fx.runAllTests();
            o << (fx.getFailureCount() ? std::string("~") : gRes);
        }
        o.flush();
        free(arena); arena = 0;
    }
    return 0;
}
