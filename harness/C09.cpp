// C09 harness: builds two MockNamedValue objects from a scenario line, prints equals both ways and every integer getter
// on the first value ("~" = the getter failed the test).  Runs inside a fixture test so failing getters are contained.
// Placement of pointer-like payloads: "<value> <value>" gives every string / memory buffer an allocation of its own;
// ":am <arena> oa la ob lb" and ":as <arena> oa ob" put BOTH payloads into ONE exactly-sized heap block (so that ASan sees
// any read past it): memory buffers [arena+oa, +la) and [arena+ob, +lb); C strings starting at arena+oa and arena+ob, the
// arena being followed by a single NUL.
// ":rd <family> <store path> <accessor> <stored value | :none> <default>": ONE read of a stored value through one accessor of
// one family of read-back accessors (MockNamedValue getters; the actual call's returnXValue / returnXValueOrDefault;
// MockSupport's xReturnValue / returnXValueOrDefault; the C table's accessors on the actual call and on mock_c(); the
// MockValue_c union of ->returnValue()), the value having been stored with andReturnValue(T) (:cpp) or the C table's
// andReturnXValue (:c).  Prints what came back, canonically (":fail" = the test failed / the union's tag names another member).
// ":ru <box> <family> <nA> <stored value>*nA <nB> <stored value>*nB": RE-USED value objects.  Object A lives in the box -- :named a
// MockNamedValue (setValue / setMemoryBuffer nA times), :ret / :retc the return value of ONE expectation (andReturnValue / the C
// table's andReturnXValue nA times), :data / :datac ONE slot of mock().setData / mock_c()->setXData (nA times under one name) -- and receives the nA stores in
// order; object B is a MockNamedValue that receives the nB stores.  Printed: A.equals(B) B.equals(A) (A = the MockNamedValue itself /
// actualCall("f").returnValue() / getData("slot")), then what each of the 13 accessors of the family hands back for A (one fixture
// run per accessor; ":fail" as above).  Strings and buffers live on the heap, so the stale bytes under a later store are real
// 64-bit addresses with a non-zero upper half.
// ":st <box> <cmpmask> <copmask> <nA> <store>*nA <nB> <store>*nB": as ":ru" (boxes :named / :data / :datac, the MockNamedValue getters), but a
// store may also be ":o <type 0..2> <const 0|1> <object 0..3>" -- setObjectPointer / setConstObjectPointer (mock().setDataObject /
// setDataConstObject, the C table's) of an object of one of three custom types; bit i of cmpmask / copmask: a comparator / a copier for
// custom type i is installed (mock().installComparator / installCopier -- the global mock's repository is MockNamedValue's default one) while
// the stores happen.  The comparators answer `false` for an address that is not one of their type's objects (and never read through it).
// ":em <iface> <arena> <ref> <len> <ref> <len>" / ":es <iface> <arena> <ref> <ref>" / ":ev <iface> <value> <value>": by-content values AT THE
// EDGES OF THEIR REPRESENTATION.  <ref> is "~" (a NULL pointer) or an offset into ONE exactly-sized heap block (":es": followed by one NUL),
// so a buffer may be (NULL, 0), (non-null, 0) -- also at the one-past-the-end address --, the same object on both sides, ...; ":ev" takes any
// two values, every payload in an allocation of its own.  <iface>: ":eq" the two MockNamedValue objects compared with equals both ways;
// ":cpp" mock().expectOneCall("f").withParameter("p", first) / mock().actualCall("f").withParameter("p", second) in one fixture run, then the
// sides swapped in another; ":c" the same through mock_c().  Printed: two flags -- equal / the call was fulfilled (the test did not fail).
#include "CppUTest/TestHarness.h"
#include "CppUTest/TestTestingFixture.h"
#include "CppUTestExt/MockNamedValue.h"
#include "CppUTestExt/MockSupport.h"
#include "CppUTestExt/MockSupport_c.h"
#include "hlib.h"
using namespace hl;

static std::vector<std::string> keep;   // string/memory storage outliving the values
static void build(Toks& t, MockNamedValue& v)
{
    std::string tag = t.next();
    if (tag == ":b") v.setValue(t.u() != 0);
    else if (tag == ":i") {
        int ty = t.n(); long long z = t.z();
        switch (ty) {
        case 0: v.setValue((int)z); break;
        case 1: v.setValue((unsigned int)z); break;
        case 2: v.setValue((long int)z); break;
        case 3: v.setValue((unsigned long int)z); break;
        case 4: v.setValue((long long)z); break;
        default: v.setValue((unsigned long long)z); break;
        }
    }
    else if (tag == ":d") { unsigned long long a = t.u(), b = t.u(); double d, tol; memcpy(&d, &a, 8); memcpy(&tol, &b, 8); v.setValue(d, tol); }
    else if (tag == ":s") { std::string s; if (t.bytes(s)) { keep.push_back(s); v.setValue(keep.back().c_str()); } else v.setValue((const char*)0); }
    else if (tag == ":p") v.setValue((void*)(uintptr_t)t.u());
    else if (tag == ":cp") v.setValue((const void*)(uintptr_t)t.u());
    else if (tag == ":f") v.setValue((void (*)())(uintptr_t)t.u());
    else if (tag == ":m") { std::string s; t.bytes(s); keep.push_back(s); v.setMemoryBuffer((const unsigned char*)keep.back().data(), keep.back().size()); }
    else { fprintf(stderr, "bad tag %s\n", tag.c_str()); exit(3); }
}

static unsigned char* arena = 0;
static bool buildAliased(Toks& t, MockNamedValue& a, MockNamedValue& b)
{
    if (t.end() || (t.t[t.i] != ":am" && t.t[t.i] != ":as")) return false;
    bool mem = t.next() == ":am";
    std::string ar; t.bytes(ar);
    size_t n = ar.size() + (mem ? 0 : 1);
    arena = (unsigned char*)malloc(n ? n : 1);
    if (ar.size()) memcpy(arena, ar.data(), ar.size());
    if (!mem) arena[ar.size()] = 0;
    if (mem) {
        size_t oa = t.u(), la = t.u(), ob = t.u(), lb = t.u();
        if (oa + la > ar.size() || ob + lb > ar.size()) { fprintf(stderr, "window outside the arena\n"); exit(3); }
        a.setMemoryBuffer(arena + oa, la); b.setMemoryBuffer(arena + ob, lb);
    } else {
        size_t oa = t.u(), ob = t.u();
        if (oa > ar.size() || ob > ar.size()) { fprintf(stderr, "pointer outside the arena\n"); exit(3); }
        a.setValue((const char*)arena + oa); b.setValue((const char*)arena + ob);
    }
    return true;
}

static MockNamedValue* gA; static int gWhich; static std::string gRes;
static void getterBody()
{
    switch (gWhich) {
    case 0: gRes = hz(gA->getIntValue()); break;
    case 1: gRes = hx(gA->getUnsignedIntValue()); break;
    case 2: gRes = hz(gA->getLongIntValue()); break;
    case 3: gRes = hx(gA->getUnsignedLongIntValue()); break;
    case 4: gRes = hz(gA->getLongLongIntValue()); break;
    default: gRes = hx(gA->getUnsignedLongLongIntValue()); break;
    }
}


// ---------------------------------------------------------------------------------------------------------------------
// reads through the accessor families
struct Stored {
    bool set = false; std::string tag; int ity = 0; long long z = 0; double d = 0, tol = 0; bool isNull = false;
    const char* str = 0; uintptr_t addr = 0; bool b = false; const unsigned char* mem = 0; size_t memLen = 0;
};
struct Dflt { bool b = false; long long z = 0; double d = 0; const char* s = 0; uintptr_t a = 0; };
enum Fam { F_NV, F_AC, F_ACD, F_MS, F_MSD, F_CAC, F_CACD, F_CMS, F_CMSD, F_CACT, F_CMST };
enum Acc { A_BOOL, A_INT, A_UINT, A_LONG, A_ULONG, A_LLONG, A_ULLONG, A_DOUBLE, A_STRING, A_PTR, A_CPTR, A_FPTR, A_MEM };
static Stored gSt; static Dflt gD; static Fam gFam; static Acc gAcc; static bool gViaC; static std::string gOut;
typedef void (*fptr_t)();

static std::string pB(bool b) { return std::string(":b ") + (b ? "1" : "0"); }
static std::string pI(long long z) { return ":i " + hz(z); }
static std::string pU(unsigned long long u) { return ":i " + hx(u); }
static std::string pD(double d) { unsigned long long b; if (d != d) b = 0x7ff8000000000000ULL; else memcpy(&b, &d, 8); return ":d " + hx(b); }
static std::string pS(const char* s) { return ":s " + hstr(s); }
static std::string pA(const void* p) { return ":a " + hx((unsigned long long)(uintptr_t)p); }
static std::string pF(fptr_t p) { return ":a " + hx((unsigned long long)(uintptr_t)p); }

// custom types for the ":o" stores
struct CObj { int v; };
static CObj gObjs[3][4] = { { {0}, {0}, {1}, {1} }, { {0}, {0}, {1}, {1} }, { {0}, {0}, {1}, {1} } };
static const char* gTyName[3] = { "TyA", "TyB", "TyC" };
class CObjComparator : public MockNamedValueComparator
{
public:
    int ty;
    bool mine(const void* p) const { for (int k = 0; k < 4; k++) if (p == &gObjs[ty][k]) return true; return false; }
    virtual bool isEqual(const void* o1, const void* o2) CPPUTEST_OVERRIDE
    {
        if (!mine(o1) || !mine(o2)) return false;
        return ((const CObj*)o1)->v == ((const CObj*)o2)->v;
    }
    virtual SimpleString valueToString(const void* o) CPPUTEST_OVERRIDE { return mine(o) ? StringFrom(((const CObj*)o)->v) : SimpleString("?"); }
};
class CObjCopier : public MockNamedValueCopier
{
public:
    virtual void copy(void* out, const void* in) CPPUTEST_OVERRIDE { ((CObj*)out)->v = ((const CObj*)in)->v; }
};
static CObjComparator gCmp[3]; static CObjCopier gCop[3];

static void parseStored(Toks& t, Stored& s)
{
    s = Stored();
    if (t.peek() == ":none") { t.next(); return; }
    s.set = true; s.tag = t.next();
    if (s.tag == ":b") s.b = t.u() != 0;
    else if (s.tag == ":i") { s.ity = t.n(); s.z = t.z(); }
    else if (s.tag == ":d") { unsigned long long a = t.u(), b = t.u(); memcpy(&s.d, &a, 8); memcpy(&s.tol, &b, 8); }
    else if (s.tag == ":s") { std::string x; if (t.bytes(x)) { keep.push_back(x); s.str = keep.back().c_str(); } else s.isNull = true; }
    else if (s.tag == ":p" || s.tag == ":cp" || s.tag == ":f") s.addr = (uintptr_t)t.u();
    else if (s.tag == ":m") { std::string x; t.bytes(x); keep.push_back(x); s.mem = (const unsigned char*)keep.back().data(); s.memLen = keep.back().size(); }
    else if (s.tag == ":o") { s.ity = (int)t.u(); s.b = t.u() != 0; s.z = (long long)t.u(); if (s.ity > 2 || s.z > 3) { fprintf(stderr, "bad object\n"); exit(3); } }
    else { fprintf(stderr, "bad stored tag %s\n", s.tag.c_str()); exit(3); }
}
static void parseDefault(Toks& t, Dflt& d)
{
    d = Dflt();
    std::string tag = t.next();
    if (tag == ":b") d.b = t.u() != 0;
    else if (tag == ":i") d.z = t.z();
    else if (tag == ":d") { unsigned long long a = t.u(); memcpy(&d.d, &a, 8); }
    else if (tag == ":s") { std::string x; if (t.bytes(x)) { keep.push_back(x); d.s = keep.back().c_str(); } }
    else if (tag == ":a") d.a = (uintptr_t)t.u();
    else if (tag == ":m") { std::string x; t.bytes(x); }
    else { fprintf(stderr, "bad default tag %s\n", tag.c_str()); exit(3); }
}
static void storeNamed(MockNamedValue& v, const Stored& s)
{
    if (!s.set) return;
    if (s.tag == ":b") v.setValue(s.b);
    else if (s.tag == ":i") switch (s.ity) {
        case 0: v.setValue((int)s.z); break;
        case 1: v.setValue((unsigned int)s.z); break;
        case 2: v.setValue((long int)s.z); break;
        case 3: v.setValue((unsigned long int)s.z); break;
        case 4: v.setValue((long long)s.z); break;
        default: v.setValue((unsigned long long)s.z); break;
    }
    else if (s.tag == ":d") v.setValue(s.d, s.tol);
    else if (s.tag == ":s") v.setValue(s.str);
    else if (s.tag == ":p") v.setValue((void*)s.addr);
    else if (s.tag == ":cp") v.setValue((const void*)s.addr);
    else if (s.tag == ":f") v.setValue((fptr_t)s.addr);
    else if (s.tag == ":o") { if (s.b) v.setConstObjectPointer(gTyName[s.ity], &gObjs[s.ity][s.z]); else v.setObjectPointer(gTyName[s.ity], &gObjs[s.ity][s.z]); }
    else v.setMemoryBuffer(s.mem, s.memLen);
}
static void storeCpp(MockExpectedCall& e, const Stored& s)
{
    if (!s.set) return;
    if (s.tag == ":b") e.andReturnValue(s.b);
    else if (s.tag == ":i") switch (s.ity) {
        case 0: e.andReturnValue((int)s.z); break;
        case 1: e.andReturnValue((unsigned int)s.z); break;
        case 2: e.andReturnValue((long int)s.z); break;
        case 3: e.andReturnValue((unsigned long int)s.z); break;
        case 4: e.andReturnValue((long long)s.z); break;
        default: e.andReturnValue((unsigned long long)s.z); break;
    }
    else if (s.tag == ":d") e.andReturnValue(s.d);
    else if (s.tag == ":s") e.andReturnValue(s.str);
    else if (s.tag == ":p") e.andReturnValue((void*)s.addr);
    else if (s.tag == ":cp") e.andReturnValue((const void*)s.addr);
    else if (s.tag == ":f") e.andReturnValue((fptr_t)s.addr);
    else { fprintf(stderr, "a memory buffer cannot be a return value\n"); exit(3); }
}
static void storeC(MockExpectedCall_c* e, const Stored& s)
{
    if (!s.set) return;
    if (s.tag == ":b") e->andReturnBoolValue(s.b ? 1 : 0);
    else if (s.tag == ":i") switch (s.ity) {
        case 0: e->andReturnIntValue((int)s.z); break;
        case 1: e->andReturnUnsignedIntValue((unsigned int)s.z); break;
        case 2: e->andReturnLongIntValue((long int)s.z); break;
        case 3: e->andReturnUnsignedLongIntValue((unsigned long int)s.z); break;
        case 4: e->andReturnLongLongIntValue((long long)s.z); break;
        default: e->andReturnUnsignedLongLongIntValue((unsigned long long)s.z); break;
    }
    else if (s.tag == ":d") e->andReturnDoubleValue(s.d);
    else if (s.tag == ":s") e->andReturnStringValue(s.str);
    else if (s.tag == ":p") e->andReturnPointerValue((void*)s.addr);
    else if (s.tag == ":cp") e->andReturnConstPointerValue((const void*)s.addr);
    else if (s.tag == ":f") e->andReturnFunctionPointerValue((fptr_t)s.addr);
    else { fprintf(stderr, "a memory buffer cannot be a return value\n"); exit(3); }
}

// one row per accessor kind: index, printer, the stem of the C++ name, the stem of the C / MockSupport name, the default handed in
#define ACCESSORS(X) \
    X(A_BOOL,   pB, Bool,                bool,                gD.b) \
    X(A_INT,    pI, Int,                 int,                 (int)gD.z) \
    X(A_UINT,   pU, UnsignedInt,         unsignedInt,         (unsigned int)gD.z) \
    X(A_LONG,   pI, LongInt,             longInt,             (long int)gD.z) \
    X(A_ULONG,  pU, UnsignedLongInt,     unsignedLongInt,     (unsigned long int)gD.z) \
    X(A_LLONG,  pI, LongLongInt,         longLongInt,         (long long)gD.z) \
    X(A_ULLONG, pU, UnsignedLongLongInt, unsignedLongLongInt, (unsigned long long)gD.z) \
    X(A_DOUBLE, pD, Double,              double,              gD.d) \
    X(A_STRING, pS, String,              string,              gD.s) \
    X(A_PTR,    pA, Pointer,             pointer,             (void*)gD.a) \
    X(A_CPTR,   pA, ConstPointer,        constPointer,        (const void*)gD.a) \
    X(A_FPTR,   pF, FunctionPointer,     functionPointer,     (fptr_t)gD.a)

static std::string readNamed(const MockNamedValue& v)
{
    switch (gAcc) {
#define X(I, P, S, s, D) case I: return P(v.get##S##Value());
    ACCESSORS(X)
#undef X
    case A_MEM: { const unsigned char* p = v.getMemoryBuffer(); return ":m " + hbytes(p, v.getSize()); }
    }
    return "?";
}
static std::string readActual(MockActualCall& a, bool dflt)
{
    switch (gAcc) {
#define X(I, P, S, s, D) case I: return dflt ? P(a.return##S##ValueOrDefault(D)) : P(a.return##S##Value());
    ACCESSORS(X)
#undef X
    default: break;
    }
    return "?";
}
static std::string readSupport(MockSupport& m, bool dflt)
{
    switch (gAcc) {
#define X(I, P, S, s, D) case I: return dflt ? P(m.return##S##ValueOrDefault(D)) : P(m.s##ReturnValue());
    ACCESSORS(X)
#undef X
    default: break;
    }
    return "?";
}
template <class Table> static std::string readCTable(Table* c, bool dflt)
{
    switch (gAcc) {
#define X(I, P, S, s, D) case I: return dflt ? P(c->return##S##ValueOrDefault(D)) : P(c->s##ReturnValue());
    ACCESSORS(X)
#undef X
    default: break;
    }
    return "?";
}
static std::string readTagged(const MockValue_c& v)
{
    switch (gAcc) {
    case A_BOOL: return v.type == MOCKVALUETYPE_BOOL ? pB(v.value.boolValue != 0) : ":fail";
    case A_INT: return v.type == MOCKVALUETYPE_INTEGER ? pI(v.value.intValue) : ":fail";
    case A_UINT: return v.type == MOCKVALUETYPE_UNSIGNED_INTEGER ? pU(v.value.unsignedIntValue) : ":fail";
    case A_LONG: return v.type == MOCKVALUETYPE_LONG_INTEGER ? pI(v.value.longIntValue) : ":fail";
    case A_ULONG: return v.type == MOCKVALUETYPE_UNSIGNED_LONG_INTEGER ? pU(v.value.unsignedLongIntValue) : ":fail";
    case A_LLONG: return v.type == MOCKVALUETYPE_LONG_LONG_INTEGER ? pI(v.value.longLongIntValue) : ":fail";
    case A_ULLONG: return v.type == MOCKVALUETYPE_UNSIGNED_LONG_LONG_INTEGER ? pU(v.value.unsignedLongLongIntValue) : ":fail";
    case A_DOUBLE: return v.type == MOCKVALUETYPE_DOUBLE ? pD(v.value.doubleValue) : ":fail";
    case A_STRING: return v.type == MOCKVALUETYPE_STRING ? pS(v.value.stringValue) : ":fail";
    case A_PTR: return v.type == MOCKVALUETYPE_POINTER ? pA(v.value.pointerValue) : ":fail";
    case A_CPTR: return v.type == MOCKVALUETYPE_CONST_POINTER ? pA(v.value.constPointerValue) : ":fail";
    case A_FPTR: return v.type == MOCKVALUETYPE_FUNCTIONPOINTER ? pF((fptr_t)v.value.functionPointerValue) : ":fail";
    default: break;
    }
    return ":fail";
}

// the actual call "f" made through the interface of the family, ONE accessor called
static std::string readThroughFamily()
{
    switch (gFam) {
    case F_AC: case F_ACD: { MockActualCall& a = mock().actualCall("f"); return readActual(a, gFam == F_ACD); }
    case F_MS: case F_MSD: { mock().actualCall("f"); return readSupport(mock(), gFam == F_MSD); }
    case F_CAC: case F_CACD: { MockActualCall_c* a = mock_c()->actualCall("f"); return readCTable(a, gFam == F_CACD); }
    case F_CMS: case F_CMSD: { mock_c()->actualCall("f"); return readCTable(mock_c(), gFam == F_CMSD); }
    case F_CACT: { MockActualCall_c* a = mock_c()->actualCall("f"); return readTagged(a->returnValue()); }
    case F_CMST: { mock_c()->actualCall("f"); return readTagged(mock_c()->returnValue()); }
    default: break;
    }
    return ":fail";
}
static void readBody()
{
    if (gFam == F_NV) {
        MockNamedValue v("a");
        storeNamed(v, gSt);
        gOut = readNamed(v);
        return;
    }
    // the expectation and its return value
    if (gViaC) storeC(mock_c()->expectOneCall("f"), gSt);
    else storeCpp(mock().expectOneCall("f"), gSt);
    // the actual call, and the read
    gOut = readThroughFamily();
}
static void readTeardown() { mock().clear(); }

static bool runRead(Toks& t, Out& o)
{
    if (t.end() || t.t[t.i] != ":rd") return false;
    t.next();
    static const char* fams[] = { ":nv", ":ac", ":acd", ":ms", ":msd", ":cac", ":cacd", ":cms", ":cmsd", ":cact", ":cmst" };
    static const char* accs[] = { ":bool", ":int", ":uint", ":long", ":ulong", ":llong", ":ullong", ":double", ":string", ":ptr", ":cptr", ":fptr", ":mem" };
    std::string f = t.next(), via = t.next(), a = t.next();
    int fi = -1, ai = -1;
    for (int k = 0; k < 11; k++) if (f == fams[k]) fi = k;
    for (int k = 0; k < 13; k++) if (a == accs[k]) ai = k;
    if (fi < 0 || ai < 0 || (via != ":cpp" && via != ":c") || (ai == A_MEM && fi != F_NV)) { fprintf(stderr, "bad read scenario\n"); exit(3); }
    gFam = (Fam)fi; gAcc = (Acc)ai; gViaC = via == ":c";
    parseStored(t, gSt); parseDefault(t, gD);
    gOut = ":fail";
    {
        TestTestingFixture fx;
        fx.setTestFunction(readBody);
        fx.setTeardown(readTeardown);
        fx.runAllTests();
        if (fx.getFailureCount()) gOut = ":fail";
    }
    mock().clear();
    o << gOut;
    o.flush();
    return true;
}

// ---------------------------------------------------------------------------------------------------------------------
// re-used value objects
enum Box { B_NAMED, B_RET, B_RETC, B_DATA, B_DATAC };
static Box gBox; static std::vector<Stored> gStA, gStB; static MockNamedValue* gB;
static int gCursor;                         // the next task: -1 the two comparisons, 0..12 the accessors
static std::string gTaskRes[14];

// A failed STRCMP_EQUAL (the guard of every getter) costs ~100 us in building and printing the text of the failure; a re-use scenario
// makes up to thirteen of them.  This shell runs the body as ExecFunctionTestShell does, decides a string comparison with the library's
// own StrCmp, hands an EQUAL comparison on to the library, and leaves a DIFFERENT one by an exception of its own instead of the failure
// text.  Every other kind of failure (CHECK, FAIL, a mock failure) takes the library's path and is counted by the test result.
struct GetterFailed {};
class QuietShell : public ExecFunctionTestShell
{
public:
    virtual void assertCstrEqual(const char* expected, const char* actual, const char* text, const char* fileName, size_t lineNumber,
                                 const TestTerminator& testTerminator) CPPUTEST_OVERRIDE
    {
        bool same = (expected == 0 && actual == 0) || (expected != 0 && actual != 0 && SimpleString::StrCmp(expected, actual) == 0);
        if (same) { UtestShell::assertCstrEqual(expected, actual, text, fileName, lineNumber, testTerminator); return; }
        getTestResult()->countCheck();
        throw GetterFailed();
    }
};
struct MiniFixture {
    StringBufferTestOutput out; TestResult* res; QuietShell shell; TestRegistry reg;
    MiniFixture(void (*body)(), void (*teardown)()) : res(0)
    {
        shell.testFunction_ = new ExecFunctionWithoutParameters(body); shell.teardown_ = teardown;
        reg.addTest(&shell);
    }
    size_t run()
    {
        out.flush(); delete res; res = new TestResult(out);
        reg.setCurrentRegistry(&reg);
        reg.runAllTests(*res);
        reg.setCurrentRegistry(0);
        return res->getFailureCount();
    }
};

static void storeData(const Stored& s)
{
    if (s.tag == ":b") mock().setData("slot", s.b);
    else if (s.tag == ":i" && s.ity == 0) mock().setData("slot", (int)s.z);
    else if (s.tag == ":i" && s.ity == 1) mock().setData("slot", (unsigned int)s.z);
    else if (s.tag == ":d") mock().setData("slot", s.d);
    else if (s.tag == ":s") mock().setData("slot", s.str);
    else if (s.tag == ":p") mock().setData("slot", (void*)s.addr);
    else if (s.tag == ":cp") mock().setData("slot", (const void*)s.addr);
    else if (s.tag == ":f") mock().setData("slot", (fptr_t)s.addr);
    else if (s.tag == ":o") { if (s.b) mock().setDataConstObject("slot", gTyName[s.ity], &gObjs[s.ity][s.z]); else mock().setDataObject("slot", gTyName[s.ity], &gObjs[s.ity][s.z]); }
    else { fprintf(stderr, "setData has no overload for this value\n"); exit(3); }
}
static void storeDataC(const Stored& s)
{
    if (s.tag == ":b") mock_c()->setBoolData("slot", s.b ? 1 : 0);
    else if (s.tag == ":i" && s.ity == 0) mock_c()->setIntData("slot", (int)s.z);
    else if (s.tag == ":i" && s.ity == 1) mock_c()->setUnsignedIntData("slot", (unsigned int)s.z);
    else if (s.tag == ":d") mock_c()->setDoubleData("slot", s.d);
    else if (s.tag == ":s") mock_c()->setStringData("slot", s.str);
    else if (s.tag == ":p") mock_c()->setPointerData("slot", (void*)s.addr);
    else if (s.tag == ":cp") mock_c()->setConstPointerData("slot", (const void*)s.addr);
    else if (s.tag == ":f") mock_c()->setFunctionPointerData("slot", (fptr_t)s.addr);
    else if (s.tag == ":o") { if (s.b) mock_c()->setDataConstObject("slot", gTyName[s.ity], &gObjs[s.ity][s.z]); else mock_c()->setDataObject("slot", gTyName[s.ity], &gObjs[s.ity][s.z]); }
    else { fprintf(stderr, "the C table has no setXData for this value\n"); exit(3); }
}
// the tasks from gCursor on, A given as a MockNamedValue
static void judgeNamed(const MockNamedValue& a)
{
    for (; gCursor < 13; gCursor++) {
        if (gCursor < 0) { gTaskRes[0] = std::string(a.equals(*gB) ? "1" : "0") + " " + (gB->equals(a) ? "1" : "0"); continue; }
        gAcc = (Acc)gCursor;
        try { gTaskRes[gCursor + 1] = readNamed(a); } catch (GetterFailed&) { gTaskRes[gCursor + 1] = ":fail"; }
    }
}
static void reuseBody()
{
    switch (gBox) {
    case B_NAMED: {
        MockNamedValue a("a");
        for (size_t k = 0; k < gStA.size(); k++) storeNamed(a, gStA[k]);
        judgeNamed(a);
        break; }
    case B_DATA: case B_DATAC: {
        for (size_t k = 0; k < gStA.size(); k++) if (gBox == B_DATAC) storeDataC(gStA[k]); else storeData(gStA[k]);
        MockNamedValue a = mock().getData("slot");
        judgeNamed(a);
        break; }
    case B_RET: case B_RETC: {
        if (gBox == B_RETC) { MockExpectedCall_c* e = mock_c()->expectOneCall("f"); for (size_t k = 0; k < gStA.size(); k++) storeC(e, gStA[k]); }
        else { MockExpectedCall& e = mock().expectOneCall("f"); for (size_t k = 0; k < gStA.size(); k++) storeCpp(e, gStA[k]); }
        // ONE actual call, made through the interface of the family; the comparisons on the MockNamedValue it hands back
        MockActualCall* ac = 0; MockActualCall_c* cac = 0;
        switch (gFam) {
        case F_CAC: case F_CACD: case F_CACT: cac = mock_c()->actualCall("f"); break;
        case F_CMS: case F_CMSD: case F_CMST: mock_c()->actualCall("f"); break;
        default: ac = &mock().actualCall("f"); break;
        }
        if (gFam == F_NV) { MockNamedValue a = ac->returnValue(); judgeNamed(a); break; }
        for (; gCursor < 13; gCursor++) {
            if (gCursor < 0) { MockNamedValue a = mock().returnValue(); gTaskRes[0] = std::string(a.equals(*gB) ? "1" : "0") + " " + (gB->equals(a) ? "1" : "0"); continue; }
            gAcc = (Acc)gCursor;
            if (gAcc == A_MEM) { gTaskRes[gCursor + 1] = ":fail"; continue; }            // no such accessor
            try {
                std::string r;
                switch (gFam) {
                case F_AC: case F_ACD: r = readActual(*ac, gFam == F_ACD); break;
                case F_MS: case F_MSD: r = readSupport(mock(), gFam == F_MSD); break;
                case F_CAC: case F_CACD: r = readCTable(cac, gFam == F_CACD); break;
                case F_CMS: case F_CMSD: r = readCTable(mock_c(), gFam == F_CMSD); break;
                case F_CACT: r = readTagged(cac->returnValue()); break;
                default: r = readTagged(mock_c()->returnValue()); break;
                }
                gTaskRes[gCursor + 1] = r;
            } catch (GetterFailed&) { gTaskRes[gCursor + 1] = ":fail"; }
        }
        break; }
    }
}
static bool runReuse(Toks& t, Out& o)
{
    if (t.end() || (t.t[t.i] != ":ru" && t.t[t.i] != ":st")) return false;
    bool stale = t.next() == ":st";
    static const char* boxes[] = { ":named", ":ret", ":retc", ":data", ":datac" };
    static const char* fams[] = { ":nv", ":ac", ":acd", ":ms", ":msd", ":cac", ":cacd", ":cms", ":cmsd", ":cact", ":cmst" };
    std::string b = t.next(), f = stale ? std::string(":nv") : t.next();
    if (stale) {
        unsigned long long cm = t.u(), pm = t.u();
        for (int k = 0; k < 3; k++) {
            gCmp[k].ty = k;
            if ((cm >> k) & 1) mock().installComparator(gTyName[k], gCmp[k]);
            if ((pm >> k) & 1) mock().installCopier(gTyName[k], gCop[k]);
        }
    }
    int bi = -1, fi = -1;
    for (int k = 0; k < 5; k++) if (b == boxes[k]) bi = k;
    for (int k = 0; k < 11; k++) if (f == fams[k]) fi = k;
    if (bi < 0 || fi < 0 || ((bi == B_NAMED || bi == B_DATA || bi == B_DATAC) && fi != F_NV)) { fprintf(stderr, "bad reuse scenario\n"); exit(3); }
    gBox = (Box)bi; gFam = (Fam)fi; gViaC = false;
    keep.reserve(64);                          // the payload pointers handed to the setters must stay where they are
    gStA.clear(); gStB.clear();
    size_t nA = t.u(); if (nA < 1 || nA > 24) { fprintf(stderr, "bad store count\n"); exit(3); }
    for (size_t k = 0; k < nA; k++) { Stored s; parseStored(t, s); if (!s.set) exit(3); gStA.push_back(s); }
    size_t nB = t.u(); if (nB < 1 || nB > 24) { fprintf(stderr, "bad store count\n"); exit(3); }
    for (size_t k = 0; k < nB; k++) { Stored s; parseStored(t, s); if (!s.set) exit(3); gStB.push_back(s); }
    // defaults for the OrDefault families: never to be handed back, a value is always stored
    gD = Dflt(); gD.b = false; gD.z = 0x4d; gD.d = 77.0; gD.s = "dflt"; gD.a = 0x2000;
    MockNamedValue vb("b");
    for (size_t k = 0; k < gStB.size(); k++) storeNamed(vb, gStB[k]);
    gB = &vb;
    static MiniFixture* fx = 0;
    if (!fx) fx = new MiniFixture(reuseBody, readTeardown);
    gTaskRes[0] = ":fail :fail"; for (int k = 1; k < 14; k++) gTaskRes[k] = ":fail";
    gCursor = -1;
    for (int runs = 0; gCursor < 13 && runs < 16; runs++) {
        fx->run();                             // a failure that took the library's path ended the body at task gCursor: that task failed
        mock().clear();
        if (gCursor < 13) gCursor++;
    }
    if (stale) mock().removeAllComparatorsAndCopiers();
    for (int k = 0; k < 14; k++) o << gTaskRes[k];
    o.flush();
    return true;
}

// ---------------------------------------------------------------------------------------------------------------------
// by-content values at the edges of their representation
static void expectCpp(MockExpectedCall& e, const Stored& s)
{
    if (s.tag == ":b") e.withParameter("p", s.b);
    else if (s.tag == ":i") switch (s.ity) {
        case 0: e.withParameter("p", (int)s.z); break;
        case 1: e.withParameter("p", (unsigned int)s.z); break;
        case 2: e.withParameter("p", (long int)s.z); break;
        case 3: e.withParameter("p", (unsigned long int)s.z); break;
        case 4: e.withParameter("p", (long long)s.z); break;
        default: e.withParameter("p", (unsigned long long)s.z); break;
    }
    else if (s.tag == ":d") e.withParameter("p", s.d, s.tol);
    else if (s.tag == ":s") e.withParameter("p", s.str);
    else if (s.tag == ":p") e.withParameter("p", (void*)s.addr);
    else if (s.tag == ":cp") e.withParameter("p", (const void*)s.addr);
    else if (s.tag == ":f") e.withParameter("p", (fptr_t)s.addr);
    else e.withMemoryBufferParameter("p", s.mem, s.memLen);
}
static void actualCpp(MockActualCall& a, const Stored& s)
{
    if (s.tag == ":b") a.withParameter("p", s.b);
    else if (s.tag == ":i") switch (s.ity) {
        case 0: a.withParameter("p", (int)s.z); break;
        case 1: a.withParameter("p", (unsigned int)s.z); break;
        case 2: a.withParameter("p", (long int)s.z); break;
        case 3: a.withParameter("p", (unsigned long int)s.z); break;
        case 4: a.withParameter("p", (long long)s.z); break;
        default: a.withParameter("p", (unsigned long long)s.z); break;
    }
    else if (s.tag == ":d") a.withParameter("p", s.d);
    else if (s.tag == ":s") a.withParameter("p", s.str);
    else if (s.tag == ":p") a.withParameter("p", (void*)s.addr);
    else if (s.tag == ":cp") a.withParameter("p", (const void*)s.addr);
    else if (s.tag == ":f") a.withParameter("p", (fptr_t)s.addr);
    else a.withMemoryBufferParameter("p", s.mem, s.memLen);
}
static void expectC(MockExpectedCall_c* e, const Stored& s)
{
    if (s.tag == ":b") e->withBoolParameters("p", s.b ? 1 : 0);
    else if (s.tag == ":i") switch (s.ity) {
        case 0: e->withIntParameters("p", (int)s.z); break;
        case 1: e->withUnsignedIntParameters("p", (unsigned int)s.z); break;
        case 2: e->withLongIntParameters("p", (long int)s.z); break;
        case 3: e->withUnsignedLongIntParameters("p", (unsigned long int)s.z); break;
        case 4: e->withLongLongIntParameters("p", (long long)s.z); break;
        default: e->withUnsignedLongLongIntParameters("p", (unsigned long long)s.z); break;
    }
    else if (s.tag == ":d") e->withDoubleParametersAndTolerance("p", s.d, s.tol);
    else if (s.tag == ":s") e->withStringParameters("p", s.str);
    else if (s.tag == ":p") e->withPointerParameters("p", (void*)s.addr);
    else if (s.tag == ":cp") e->withConstPointerParameters("p", (const void*)s.addr);
    else if (s.tag == ":f") e->withFunctionPointerParameters("p", (fptr_t)s.addr);
    else e->withMemoryBufferParameter("p", s.mem, s.memLen);
}
static void actualC(MockActualCall_c* a, const Stored& s)
{
    if (s.tag == ":b") a->withBoolParameters("p", s.b ? 1 : 0);
    else if (s.tag == ":i") switch (s.ity) {
        case 0: a->withIntParameters("p", (int)s.z); break;
        case 1: a->withUnsignedIntParameters("p", (unsigned int)s.z); break;
        case 2: a->withLongIntParameters("p", (long int)s.z); break;
        case 3: a->withUnsignedLongIntParameters("p", (unsigned long int)s.z); break;
        case 4: a->withLongLongIntParameters("p", (long long)s.z); break;
        default: a->withUnsignedLongLongIntParameters("p", (unsigned long long)s.z); break;
    }
    else if (s.tag == ":d") a->withDoubleParameters("p", s.d);
    else if (s.tag == ":s") a->withStringParameters("p", s.str);
    else if (s.tag == ":p") a->withPointerParameters("p", (void*)s.addr);
    else if (s.tag == ":cp") a->withConstPointerParameters("p", (const void*)s.addr);
    else if (s.tag == ":f") a->withFunctionPointerParameters("p", (fptr_t)s.addr);
    else a->withMemoryBufferParameter("p", s.mem, s.memLen);
}
static const Stored* gExp; static const Stored* gAct; static bool gEdgeC;
static void edgeBody()
{
    if (gEdgeC) {
        expectC(mock_c()->expectOneCall("f"), *gExp);
        actualC(mock_c()->actualCall("f"), *gAct);
        mock_c()->checkExpectations();
    } else {
        expectCpp(mock().expectOneCall("f"), *gExp);
        actualCpp(mock().actualCall("f"), *gAct);
        mock().checkExpectations();
    }
}
// expectation `e`, actual `a`: was the call fulfilled?
static bool fulfilled(const Stored& e, const Stored& a)
{
    gExp = &e; gAct = &a;
    static MiniFixture* fx = 0;                // one registry, one shell, a new TestResult per run
    if (!fx) fx = new MiniFixture(edgeBody, readTeardown);
    bool ok = fx->run() == 0;
    mock().clear();
    return ok;
}
static unsigned char* edgeRef(Toks& t, unsigned char* block, size_t blockLen)
{
    if (t.peek() == "~") { t.next(); return 0; }
    size_t o = t.u();
    if (o > blockLen) { fprintf(stderr, "pointer outside the arena\n"); exit(3); }
    return block + o;
}
static bool runEdge(Toks& t, Out& o)
{
    if (t.end() || (t.t[t.i] != ":em" && t.t[t.i] != ":es" && t.t[t.i] != ":ev")) return false;
    std::string kind = t.next(), ifc = t.next();
    if (ifc != ":eq" && ifc != ":cpp" && ifc != ":c") { fprintf(stderr, "bad interface %s\n", ifc.c_str()); exit(3); }
    Stored a, b; unsigned char* block = 0;
    if (kind == ":ev") { keep.reserve(4); parseStored(t, a); parseStored(t, b); if (!a.set || !b.set) exit(3); }
    else {
        std::string ar; t.bytes(ar);
        size_t n = ar.size() + (kind == ":es" ? 1 : 0);
        block = (unsigned char*)malloc(n);                 // exactly sized: a read past it is seen; malloc(0) is a non-null address with no byte behind it
        if (ar.size()) memcpy(block, ar.data(), ar.size());
        if (kind == ":es") block[ar.size()] = 0;
        a.set = b.set = true;
        if (kind == ":em") {
            a.tag = b.tag = ":m";
            a.mem = edgeRef(t, block, ar.size()); a.memLen = t.u();
            b.mem = edgeRef(t, block, ar.size()); b.memLen = t.u();
            if ((!a.mem && a.memLen) || (!b.mem && b.memLen) || (a.mem && (size_t)(a.mem - block) + a.memLen > ar.size()) || (b.mem && (size_t)(b.mem - block) + b.memLen > ar.size()))
                { fprintf(stderr, "window outside the arena\n"); exit(3); }
        } else {
            a.tag = b.tag = ":s";
            a.str = (const char*)edgeRef(t, block, ar.size()); a.isNull = a.str == 0;
            b.str = (const char*)edgeRef(t, block, ar.size()); b.isNull = b.str == 0;
        }
    }
    bool ab, ba;
    if (ifc == ":eq") {
        MockNamedValue va("p"), vb("p");
        storeNamed(va, a); storeNamed(vb, b);
        ab = va.equals(vb); ba = vb.equals(va);
    } else {
        gEdgeC = ifc == ":c";
        ab = fulfilled(a, b); ba = fulfilled(b, a);
    }
    o << (ab ? "1" : "0") << (ba ? "1" : "0");
    o.flush();
    free(block);
    return true;
}

int main()
{
    Toks t; Out o;
    while (readline(t)) {
        keep.clear(); keep.reserve(4);
        if (runRead(t, o)) continue;
        if (runReuse(t, o)) continue;
        if (runEdge(t, o)) continue;
        MockNamedValue a("a"), b("b");
        if (!buildAliased(t, a, b)) { build(t, a); build(t, b); }
        o << (a.equals(b) ? "1" : "0") << (b.equals(a) ? "1" : "0");
        for (int g = 0; g < 6; g++) {
            TestTestingFixture fx;
            gA = &a; gWhich = g; gRes = "~";
            fx.setTestFunction(getterBody);
            fx.runAllTests();
            o << (fx.getFailureCount() ? std::string("~") : gRes);
        }
        o.flush();
        free(arena); arena = 0;
    }
    return 0;
}
