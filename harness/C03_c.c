/* C03: the C-language check macros, expanded by a C compiler. */
#include <string.h>
#include "CppUTest/TestHarness_c.h"
#include "C03_shared.h"

#define WITH_INT(ty, bits, V, BODY) \
    switch (ty) { \
    case 0: { signed char V = (signed char)(bits); BODY; } break; \
    case 1: { unsigned char V = (unsigned char)(bits); BODY; } break; \
    case 2: { short V = (short)(bits); BODY; } break; \
    case 3: { unsigned short V = (unsigned short)(bits); BODY; } break; \
    case 4: { int V = (int)(bits); BODY; } break; \
    case 5: { unsigned int V = (unsigned int)(bits); BODY; } break; \
    case 6: { long V = (long)(bits); BODY; } break; \
    case 7: { unsigned long V = (unsigned long)(bits); BODY; } break; \
    case 8: { long long V = (long long)(bits); BODY; } break; \
    default: { unsigned long long V = (unsigned long long)(bits); BODY; } break; \
    }
#define INNER(M) WITH_INT(c03.tb, c03.zb, b, if (c03.text) { M##_TEXT(a, b, "txt"); } else { M(a, b); } c03.after = 1)
#define K2(M) do { WITH_INT(c03.ta, c03.za, a, INNER(M)) } while (0)

static void k2_bool(void) { K2(CHECK_EQUAL_C_BOOL); }
static void k2_int(void) { K2(CHECK_EQUAL_C_INT); }
static void k2_uint(void) { K2(CHECK_EQUAL_C_UINT); }
static void k2_long(void) { K2(CHECK_EQUAL_C_LONG); }
static void k2_ulong(void) { K2(CHECK_EQUAL_C_ULONG); }
static void k2_llong(void) { K2(CHECK_EQUAL_C_LONGLONG); }
static void k2_ullong(void) { K2(CHECK_EQUAL_C_ULONGLONG); }
static void k2_char(void) { K2(CHECK_EQUAL_C_CHAR); }
static void k2_ubyte(void) { K2(CHECK_EQUAL_C_UBYTE); }
static void k2_sbyte(void) { K2(CHECK_EQUAL_C_SBYTE); }

static void k_bits(void)
{
    /* byte count = sizeof(actual) */
    WITH_INT(c03.tb, c03.zb, act,
        WITH_INT(c03.ta, c03.za, ex,
            if (c03.text) { CHECK_EQUAL_C_BITS_TEXT(ex, act, c03.zc, "txt"); } else { CHECK_EQUAL_C_BITS(ex, act, c03.zc); } c03.after = 1))
}

static void k_check(void)
{
    WITH_INT(c03.ta, c03.za, a, if (c03.text) { CHECK_C_TEXT(a, "txt"); } else { CHECK_C(a); } c03.after = 1)
}

void c03_c_body(const char* k)
{
    if (!strcmp(k, "CHECK_EQUAL_C_BOOL")) k2_bool();
    else if (!strcmp(k, "CHECK_EQUAL_C_INT")) k2_int();
    else if (!strcmp(k, "CHECK_EQUAL_C_UINT")) k2_uint();
    else if (!strcmp(k, "CHECK_EQUAL_C_LONG")) k2_long();
    else if (!strcmp(k, "CHECK_EQUAL_C_ULONG")) k2_ulong();
    else if (!strcmp(k, "CHECK_EQUAL_C_LONGLONG")) k2_llong();
    else if (!strcmp(k, "CHECK_EQUAL_C_ULONGLONG")) k2_ullong();
    else if (!strcmp(k, "CHECK_EQUAL_C_CHAR")) k2_char();
    else if (!strcmp(k, "CHECK_EQUAL_C_UBYTE")) k2_ubyte();
    else if (!strcmp(k, "CHECK_EQUAL_C_SBYTE")) k2_sbyte();
    else if (!strcmp(k, "CHECK_EQUAL_C_BITS")) k_bits();
    else if (!strcmp(k, "CHECK_C")) k_check();
    else if (!strcmp(k, "CHECK_EQUAL_C_REAL")) {
        if (c03.text) { CHECK_EQUAL_C_REAL_TEXT(c03.d1, c03.d2, c03.d3, "txt"); } else { CHECK_EQUAL_C_REAL(c03.d1, c03.d2, c03.d3); } c03.after = 1;
    }
    else if (!strcmp(k, "CHECK_EQUAL_C_STRING")) {
        if (c03.text) { CHECK_EQUAL_C_STRING_TEXT(c03.e, c03.a, "txt"); } else { CHECK_EQUAL_C_STRING(c03.e, c03.a); } c03.after = 1;
    }
    else if (!strcmp(k, "CHECK_EQUAL_C_POINTER")) {
        const void* p = (const void*)(size_t)c03.za; const void* q = (const void*)(size_t)c03.zb;
        if (c03.text) { CHECK_EQUAL_C_POINTER_TEXT(p, q, "txt"); } else { CHECK_EQUAL_C_POINTER(p, q); } c03.after = 1;
    }
    else if (!strcmp(k, "CHECK_EQUAL_C_MEMCMP")) {
        if (c03.text) { CHECK_EQUAL_C_MEMCMP_TEXT(c03.e, c03.a, c03.n, "txt"); } else { CHECK_EQUAL_C_MEMCMP(c03.e, c03.a, c03.n); } c03.after = 1;
    }
    else if (!strcmp(k, "FAIL_C")) { FAIL_C(); c03.after = 1; }
    else if (!strcmp(k, "FAIL_TEXT_C")) { FAIL_TEXT_C("txt"); c03.after = 1; }
}
