// C19 harness: ONE scenario, executed twice inside a real test (TestTestingFixture):
//   half :c  through the C interface  (harness/C19_c.c, compiled as C: mock_c()/mock_scope_c() and the three function tables)
//   half :x  through the C++ interface (below: mock()/mock(scope), MockExpectedCall, MockActualCall, MockSupport), every C entry
//            point replaced by the C++ call its name and signature denote (withBoolParameters(n, int v) = withParameter(n, v != 0)).
// Both use the reporter a user gets (C: the reporter installed by mock_c(); C++: the default MockFailureReporter), so a failure
// leaves the test.  Observation per half: failure count, how often the crash hook (UtestShell::setCrashMethod; reached through
// UT_CRASH() by a reporter whose crashOnFailure flag is set) ran, op at which the test was left, failure text, every value returned to
// the caller in canonical form (:kind payload, tagged with op index and field), the bytes of every output buffer.
// A scenario may consist of several tests (separated by :T): each runs in its own TestTestingFixture, one after the other, the mock
// state and the pointers the user holds are kept in between (only what the scenario itself does -- clear, a failure -- changes them).
// Scenario grammar: see checks/C19.py.
#include "CppUTest/TestHarness.h"
#include "CppUTest/TestTestingFixture.h"
#include "CppUTestExt/MockSupport.h"
#include "CppUTestExt/MockSupport_c.h"
#include "hlib.h"
#include "C19_shared.h"
#include <deque>
#include <unistd.h>
using namespace hl;

struct c19_scn c19;
static std::vector<c19_op> ops;
static std::deque<std::string> arena;
static std::deque<std::vector<unsigned char>> outs;

struct Rec { int at = 0; int bad = 0; unsigned crashes = 0; std::vector<std::string> vals; };
static Rec rec;
static void crashHook() { rec.crashes++; }      // instead of aborting: count, and let the terminator leave the test
static std::string fieldAt(int i) { return (i >= 0 && i < (int)ops.size()) ? std::string(1, ops[i].table) + "." + ops[i].field : std::string("?"); }
static bool signedKind(const char* k) { return !strcmp(k, "i0") || !strcmp(k, "i2") || !strcmp(k, "i4"); }
extern "C" {
void c19_at(int i) { rec.at = i; }
void c19_val(const char* kind, unsigned long long bits)
{
    rec.vals.push_back(hx((unsigned)rec.at) + " :" + fieldAt(rec.at) + " :" + kind + " " + (signedKind(kind) ? hz((long long)bits) : hx(bits)));
}
void c19_str(const char* s) { rec.vals.push_back(hx((unsigned)rec.at) + " :" + fieldAt(rec.at) + " :s " + hstr(s)); }
void c19_unknown_field(void) { rec.bad++; }
// the pool of comparator / copier functions (see C19_shared.h)
static int eq0(const void* a, const void* b) { return memcmp(a, b, 4) == 0; }
static int eq1(const void* a, const void* b) { return memcmp((const char*)a + 4, (const char*)b + 4, 4) == 0; }
static char strbuf[48];
static const char* str0(const void* a)
{
    const unsigned char* p = (const unsigned char*)a;
    snprintf(strbuf, sizeof strbuf, "o:%02x%02x%02x%02x", p[0], p[1], p[2], p[3]); return strbuf;
}
static const char* str1(const void* a)
{
    const unsigned char* p = (const unsigned char*)a;
    snprintf(strbuf, sizeof strbuf, "Point(x=%u, y=%u)", p[3], p[7]); return strbuf;
}
static const char* str2(const void* a)
{
    const unsigned char* p = (const unsigned char*)a;
    snprintf(strbuf, sizeof strbuf, "Size(%u x %u)", p[3], p[7]); return strbuf;
}
static void copy0(void* dst, const void* src) { for (int i = 0; i < 8; i++) ((unsigned char*)dst)[i] = ((const unsigned char*)src)[i] ^ 0x5a; }
static void copy1(void* dst, const void* src) { for (int i = 0; i < 8; i++) ((unsigned char*)dst)[i] = (unsigned char)(((const unsigned char*)src)[7 - i] + 1); }
const c19_eq_fn c19_eq_pool[C19_NEQ] = { eq0, eq1 };
const c19_str_fn c19_str_pool[C19_NSTR] = { str0, str1, str2 };
const c19_copy_fn c19_copy_pool[C19_NCOPY] = { copy0, copy1 };
}

// ------------------------------------------------------------------ the C++ interpreter
// what a C++ user writes for "a type with this equality and this text": one comparator object per pair of functions, one copier
// object per copier (static: they outlive every mock support, as the C++ interface requires of its user)
struct PoolComparator : MockNamedValueComparator {
    c19_eq_fn eq; c19_str_fn str;
    bool isEqual(const void* a, const void* b) override { return eq(a, b) != 0; }
    SimpleString valueToString(const void* a) override { return SimpleString(str(a)); }
};
struct PoolCopier : MockNamedValueCopier { c19_copy_fn cp; void copy(void* d, const void* s) override { cp(d, s); } };
static PoolComparator poolComparator[C19_NEQ][C19_NSTR];
static PoolCopier poolCopier[C19_NCOPY];
static void initPools()
{
    for (int i = 0; i < C19_NEQ; i++) for (int j = 0; j < C19_NSTR; j++) { poolComparator[i][j].eq = c19_eq_pool[i]; poolComparator[i][j].str = c19_str_pool[j]; }
    for (int i = 0; i < C19_NCOPY; i++) poolCopier[i].cp = c19_copy_pool[i];
}

static double dbl(unsigned long long bits) { double d; memcpy(&d, &bits, sizeof d); return d; }
static unsigned long long dbits(double d) { unsigned long long b; memcpy(&b, &d, sizeof b); return b; }
typedef void (*fptr)();
static void recValue(const MockNamedValue& v)
{
    std::string ty = v.getType().asCharString();
    if (ty == "bool") c19_val("b", v.getBoolValue());
    else if (ty == "int") c19_val("i0", (unsigned long long)(long long)v.getIntValue());
    else if (ty == "unsigned int") c19_val("i1", v.getUnsignedIntValue());
    else if (ty == "long int") c19_val("i2", (unsigned long long)(long long)v.getLongIntValue());
    else if (ty == "unsigned long int") c19_val("i3", v.getUnsignedLongIntValue());
    else if (ty == "long long int") c19_val("i4", (unsigned long long)v.getLongLongIntValue());
    else if (ty == "unsigned long long int") c19_val("i5", v.getUnsignedLongLongIntValue());
    else if (ty == "double") c19_val("d", dbits(v.getDoubleValue()));
    else if (ty == "const char*") c19_str(v.getStringValue());
    else if (ty == "void*") c19_val("p", (unsigned long long)(uintptr_t)v.getPointerValue());
    else if (ty == "const void*") c19_val("cp", (unsigned long long)(uintptr_t)v.getConstPointerValue());
    else if (ty == "void (*)()") c19_val("fp", (unsigned long long)(uintptr_t)v.getFunctionPointerValue());
    else if (ty == "const unsigned char*") c19_val("mem", (unsigned long long)(uintptr_t)v.getMemoryBuffer());
    else c19_val("obj", (unsigned long long)(uintptr_t)v.getConstObjectPointer());   // an object of a user-named type
}

#define IS(n) (f == n)
#define NAME ((const char*)o.b[0].p)
#define STR1 ((const char*)o.b[1].p)
#define Z0 (o.z[0])
#define PTR0 ((void*)(uintptr_t)o.z[0])
#define CPTR0 ((const void*)(uintptr_t)o.z[0])
#define FP0 ((fptr)(uintptr_t)o.z[0])

template <class T> static bool params(T*& t, const c19_op& o, const std::string& f)
{
    if (IS("withBoolParameters")) { t = &t->withParameter(NAME, (int)Z0 != 0); return true; }
    if (IS("withIntParameters")) { t = &t->withParameter(NAME, (int)Z0); return true; }
    if (IS("withUnsignedIntParameters")) { t = &t->withParameter(NAME, (unsigned int)Z0); return true; }
    if (IS("withLongIntParameters")) { t = &t->withParameter(NAME, (long int)Z0); return true; }
    if (IS("withUnsignedLongIntParameters")) { t = &t->withParameter(NAME, (unsigned long int)Z0); return true; }
    if (IS("withLongLongIntParameters")) { t = &t->withParameter(NAME, (long long)Z0); return true; }
    if (IS("withUnsignedLongLongIntParameters")) { t = &t->withParameter(NAME, (unsigned long long)Z0); return true; }
    if (IS("withDoubleParameters")) { t = &t->withParameter(NAME, dbl(Z0)); return true; }
    if (IS("withStringParameters")) { t = &t->withParameter(NAME, STR1); return true; }
    if (IS("withPointerParameters")) { t = &t->withParameter(NAME, PTR0); return true; }
    if (IS("withConstPointerParameters")) { t = &t->withParameter(NAME, CPTR0); return true; }
    if (IS("withFunctionPointerParameters")) { t = &t->withParameter(NAME, FP0); return true; }
    if (IS("withMemoryBufferParameter")) { t = &t->withParameter(NAME, o.b[1].p, o.b[1].n); return true; }
    if (IS("withParameterOfType")) { t = &t->withParameterOfType(NAME, STR1, (const void*)o.b[2].p); return true; }
    return false;
}

// readers of MockActualCall (returnXValue / returnXValueOrDefault) and of MockSupport (xReturnValue / returnXValueOrDefault)
struct ActualReaders {
    MockActualCall* t;
    bool has() { return t->hasReturnValue(); }
    MockNamedValue value() { return t->returnValue(); }
    bool b() { return t->returnBoolValue(); } int i() { return t->returnIntValue(); } unsigned u() { return t->returnUnsignedIntValue(); }
    long l() { return t->returnLongIntValue(); } unsigned long ul() { return t->returnUnsignedLongIntValue(); }
    long long ll() { return t->returnLongLongIntValue(); } unsigned long long ull() { return t->returnUnsignedLongLongIntValue(); }
    const char* s() { return t->returnStringValue(); } double d() { return t->returnDoubleValue(); } void* p() { return t->returnPointerValue(); }
    const void* cp() { return t->returnConstPointerValue(); } fptr fp() { return t->returnFunctionPointerValue(); }
};
struct SupportReaders {
    MockSupport* t;
    bool has() { return t->hasReturnValue(); }
    MockNamedValue value() { return t->returnValue(); }
    bool b() { return t->boolReturnValue(); } int i() { return t->intReturnValue(); } unsigned u() { return t->unsignedIntReturnValue(); }
    long l() { return t->longIntReturnValue(); } unsigned long ul() { return t->unsignedLongIntReturnValue(); }
    long long ll() { return t->longLongIntReturnValue(); } unsigned long long ull() { return t->unsignedLongLongIntReturnValue(); }
    const char* s() { return t->stringReturnValue(); } double d() { return t->doubleReturnValue(); } void* p() { return t->pointerReturnValue(); }
    const void* cp() { return t->constPointerReturnValue(); } fptr fp() { return t->functionPointerReturnValue(); }
};
template <class R, class T> static bool readers(R r, T* t, const c19_op& o, const std::string& f)
{
    if (IS("hasReturnValue")) { c19_val("b", r.has()); return true; }
    if (IS("returnValue")) { recValue(r.value()); return true; }
    if (IS("boolReturnValue")) { c19_val("b", r.b()); return true; }
    if (IS("returnBoolValueOrDefault")) { c19_val("b", t->returnBoolValueOrDefault((int)Z0 != 0)); return true; }
    if (IS("intReturnValue")) { c19_val("i0", (unsigned long long)(long long)r.i()); return true; }
    if (IS("returnIntValueOrDefault")) { c19_val("i0", (unsigned long long)(long long)t->returnIntValueOrDefault((int)Z0)); return true; }
    if (IS("unsignedIntReturnValue")) { c19_val("i1", r.u()); return true; }
    if (IS("returnUnsignedIntValueOrDefault")) { c19_val("i1", t->returnUnsignedIntValueOrDefault((unsigned int)Z0)); return true; }
    if (IS("longIntReturnValue")) { c19_val("i2", (unsigned long long)(long long)r.l()); return true; }
    if (IS("returnLongIntValueOrDefault")) { c19_val("i2", (unsigned long long)(long long)t->returnLongIntValueOrDefault((long int)Z0)); return true; }
    if (IS("unsignedLongIntReturnValue")) { c19_val("i3", r.ul()); return true; }
    if (IS("returnUnsignedLongIntValueOrDefault")) { c19_val("i3", t->returnUnsignedLongIntValueOrDefault((unsigned long int)Z0)); return true; }
    if (IS("longLongIntReturnValue")) { c19_val("i4", (unsigned long long)r.ll()); return true; }
    if (IS("returnLongLongIntValueOrDefault")) { c19_val("i4", (unsigned long long)t->returnLongLongIntValueOrDefault((long long)Z0)); return true; }
    if (IS("unsignedLongLongIntReturnValue")) { c19_val("i5", r.ull()); return true; }
    if (IS("returnUnsignedLongLongIntValueOrDefault")) { c19_val("i5", t->returnUnsignedLongLongIntValueOrDefault((unsigned long long)Z0)); return true; }
    if (IS("stringReturnValue")) { c19_str(r.s()); return true; }
    if (IS("returnStringValueOrDefault")) { c19_str(t->returnStringValueOrDefault(NAME)); return true; }
    if (IS("doubleReturnValue")) { c19_val("d", dbits(r.d())); return true; }
    if (IS("returnDoubleValueOrDefault")) { c19_val("d", dbits(t->returnDoubleValueOrDefault(dbl(Z0)))); return true; }
    if (IS("pointerReturnValue")) { c19_val("p", (unsigned long long)(uintptr_t)r.p()); return true; }
    if (IS("returnPointerValueOrDefault")) { c19_val("p", (unsigned long long)(uintptr_t)t->returnPointerValueOrDefault(PTR0)); return true; }
    if (IS("constPointerReturnValue")) { c19_val("cp", (unsigned long long)(uintptr_t)r.cp()); return true; }
    if (IS("returnConstPointerValueOrDefault")) { c19_val("cp", (unsigned long long)(uintptr_t)t->returnConstPointerValueOrDefault(CPTR0)); return true; }
    if (IS("functionPointerReturnValue")) { c19_val("fp", (unsigned long long)(uintptr_t)r.fp()); return true; }
    if (IS("returnFunctionPointerValueOrDefault")) { c19_val("fp", (unsigned long long)(uintptr_t)t->returnFunctionPointerValueOrDefault(FP0)); return true; }
    return false;
}

static MockSupport* m; static MockExpectedCall* e; static MockActualCall* a;

static bool doExpected(const c19_op& o, const std::string& f)
{
    if (params(e, o, f)) return true;
    if (IS("withDoubleParametersAndTolerance")) { e = &e->withParameter(NAME, dbl(Z0), dbl(o.z[1])); return true; }
    if (IS("withOutputParameterReturning")) { e = &e->withOutputParameterReturning(NAME, (const void*)o.b[1].p, o.b[1].n); return true; }
    if (IS("withOutputParameterOfTypeReturning")) { e = &e->withOutputParameterOfTypeReturning(NAME, STR1, (const void*)o.b[2].p); return true; }
    if (IS("withUnmodifiedOutputParameter")) { e = &e->withUnmodifiedOutputParameter(NAME); return true; }
    if (IS("ignoreOtherParameters")) { e = &e->ignoreOtherParameters(); return true; }
    if (IS("andReturnBoolValue")) { e = &e->andReturnValue((int)Z0 != 0); return true; }
    if (IS("andReturnUnsignedIntValue")) { e = &e->andReturnValue((unsigned int)Z0); return true; }
    if (IS("andReturnIntValue")) { e = &e->andReturnValue((int)Z0); return true; }
    if (IS("andReturnLongIntValue")) { e = &e->andReturnValue((long int)Z0); return true; }
    if (IS("andReturnUnsignedLongIntValue")) { e = &e->andReturnValue((unsigned long int)Z0); return true; }
    if (IS("andReturnLongLongIntValue")) { e = &e->andReturnValue((long long)Z0); return true; }
    if (IS("andReturnUnsignedLongLongIntValue")) { e = &e->andReturnValue((unsigned long long)Z0); return true; }
    if (IS("andReturnDoubleValue")) { e = &e->andReturnValue(dbl(Z0)); return true; }
    if (IS("andReturnStringValue")) { e = &e->andReturnValue(NAME); return true; }
    if (IS("andReturnPointerValue")) { e = &e->andReturnValue(PTR0); return true; }
    if (IS("andReturnConstPointerValue")) { e = &e->andReturnValue(CPTR0); return true; }
    if (IS("andReturnFunctionPointerValue")) { e = &e->andReturnValue(FP0); return true; }
    return false;
}
static bool doActual(const c19_op& o, const std::string& f)
{
    if (params(a, o, f)) return true;
    if (IS("withOutputParameter")) { a = &a->withOutputParameter(NAME, o.out); return true; }
    if (IS("withOutputParameterOfType")) { a = &a->withOutputParameterOfType(NAME, STR1, o.out); return true; }
    return readers(ActualReaders{a}, a, o, f);
}
static bool doSupport(const c19_op& o, const std::string& f)
{
    if (IS("strictOrder")) { m->strictOrder(); return true; }
    if (IS("expectOneCall")) { e = &m->expectOneCall(NAME); return true; }
    if (IS("expectNoCall")) { m->expectNoCall(NAME); return true; }
    if (IS("expectNCalls")) { e = &m->expectNCalls((unsigned int)Z0, NAME); return true; }
    if (IS("actualCall")) { a = &m->actualCall(NAME); return true; }
    if (readers(SupportReaders{m}, m, o, f)) return true;
    if (IS("setBoolData")) { m->setData(NAME, (int)Z0 != 0); return true; }
    if (IS("setIntData")) { m->setData(NAME, (int)Z0); return true; }
    if (IS("setUnsignedIntData")) { m->setData(NAME, (unsigned int)Z0); return true; }
    if (IS("setStringData")) { m->setData(NAME, STR1); return true; }
    if (IS("setDoubleData")) { m->setData(NAME, dbl(Z0)); return true; }
    if (IS("setPointerData")) { m->setData(NAME, PTR0); return true; }
    if (IS("setConstPointerData")) { m->setData(NAME, CPTR0); return true; }
    if (IS("setFunctionPointerData")) { m->setData(NAME, FP0); return true; }
    if (IS("setDataObject")) { m->setDataObject(NAME, STR1, PTR0); return true; }
    if (IS("setDataConstObject")) { m->setDataConstObject(NAME, STR1, CPTR0); return true; }
    if (IS("getData")) { recValue(m->getData(NAME)); return true; }
    if (IS("disable")) { m->disable(); return true; }
    if (IS("enable")) { m->enable(); return true; }
    if (IS("ignoreOtherCalls")) { m->ignoreOtherCalls(); return true; }
    if (IS("checkExpectations")) { m->checkExpectations(); return true; }
    if (IS("expectedCallsLeft")) { c19_val("b", m->expectedCallsLeft()); return true; }
    if (IS("clear")) { m->clear(); return true; }
    if (IS("crashOnFailure")) { m->crashOnFailure((unsigned)Z0 != 0); return true; }
    if (IS("installComparator")) {
        if (o.nz != 2 || Z0 >= C19_NEQ || o.z[1] >= C19_NSTR) return false;
        m->installComparator(NAME, poolComparator[Z0][o.z[1]]); return true;
    }
    if (IS("installCopier")) {
        if (o.nz != 1 || Z0 >= C19_NCOPY) return false;
        m->installCopier(NAME, poolCopier[Z0]); return true;
    }
    if (IS("removeAllComparatorsAndCopiers")) { m->removeAllComparatorsAndCopiers(); return true; }
    return false;
}
static void cppReset() { m = nullptr; e = nullptr; a = nullptr; }
static void cppBody()
{
    for (int i = c19.lo; i < c19.hi; i++) {
        const c19_op& o = c19.ops[i];
        std::string f = o.field;
        bool ok = false;
        c19_at(i);
        switch (o.table) {
        case 'M': m = o.b[0].p ? &mock((const char*)o.b[0].p) : &mock(); ok = true; break;
        case 'S': ok = doSupport(o, f); break;
        case 'E': ok = doExpected(o, f); break;
        case 'A': ok = doActual(o, f); break;
        }
        if (!ok) c19_unknown_field();
    }
    c19_at(c19.hi);
}
static void cBody() { c19_c_body(); }

// ------------------------------------------------------------------ running one half
static std::string failureText(const std::string& out)
{
    // "\n<file>:<line>: error: Failure in TEST(<group>, <name>)\n<message>\n\n" -> <message>
    size_t k = out.find("Failure in TEST(");
    if (k == std::string::npos) return "";
    size_t nl = out.find('\n', k);
    if (nl == std::string::npos) return "";
    std::string msg = out.substr(nl + 1);
    size_t end = msg.rfind("\nErrors (");       // the summary line (contains a time)
    if (end != std::string::npos) msg = msg.substr(0, end);
    while (!msg.empty() && (msg.back() == '\n' || msg.back() == '.')) msg.pop_back();   // progress dots / newlines after the message
    return msg;
}
static void cleanup()
{
    mock().clear();
    mock_c()->removeAllComparatorsAndCopiers();   // frees the C adaptor nodes and empties the repository (C++ half: only the latter)
    mock_c()->crashOnFailure(0);                  // the flag of the C layer's reporter ...
    mock().crashOnFailure(false);                 // ... and of the standard reporter (mock() selects it again)
    mock("", nullptr);
}
static void half(Out& o, void (*body)(), void (*reset)())
{
    for (auto& b : outs) std::fill(b.begin(), b.end(), 0xEE);
    rec = Rec();
    reset();
    std::vector<std::string> tests;
    int lo = 0;
    for (int i = 0; i <= c19.n; i++) {
        if (i < c19.n && c19.ops[i].table != 'T') continue;
        c19.lo = lo; c19.hi = i; lo = i + 1;
        rec.crashes = 0; rec.at = c19.lo;
        size_t failures; std::string text;
        {
            TestTestingFixture fx;
            fx.setTestFunction(body);
            fx.runAllTests();
            failures = fx.getFailureCount();
            text = failures ? failureText(fx.getOutput().asCharString()) : "";
        }
        std::string t = hx(failures) + " " + hx(rec.crashes) + " " + (rec.at >= c19.hi ? std::string("~") : hx((unsigned)rec.at)) + " "
                        + (failures ? hbytes(text.data(), text.size()) : std::string("~"));
        tests.push_back(t);
    }
    cleanup();
    o << hx(tests.size());
    for (auto& t : tests) o << t;
    o << hx(rec.vals.size());
    for (auto& v : rec.vals) o << v;
    int n = 0; for (auto& op : ops) if (op.out) n++;
    o << hx((unsigned)n);
    for (size_t i = 0; i < ops.size(); i++) if (ops[i].out) { o << hx(i); o << hbytes(ops[i].out, C19_OUTLEN); }
    if (rec.bad) o << ":harness-unknown-field";
}

int main()
{
    Toks t; Out o;
    setvbuf(stdout, NULL, _IOLBF, 0);
    initPools();
    UtestShell::setCrashMethod(crashHook);
    while (readline(t)) {
        ops.clear(); arena.clear(); outs.clear();
        while (!t.end()) {
            std::string s = t.next();
            if (s.size() < 2 || s[0] != ':') { fprintf(stderr, "C19 harness: op symbol expected, got %s\n", s.c_str()); return 3; }
            c19_op op; memset(&op, 0, sizeof op);
            op.table = s[1];
            if (s == ":T") { op.field = ""; ops.push_back(op); continue; }
            arena.push_back(s.size() > 3 ? s.substr(3) : std::string());
            op.field = arena.back().c_str();
            while (!t.end() && t.peek()[0] != ':') {
                const std::string& a = t.peek();
                if (a[0] == '$' || a == "~") {
                    std::string b; bool nn = t.bytes(b);
                    if (op.nb >= 3) { fprintf(stderr, "C19 harness: too many byte arguments\n"); return 3; }
                    if (nn) { arena.push_back(b); op.b[op.nb].p = (const unsigned char*)arena.back().c_str(); op.b[op.nb].n = b.size(); }
                    op.nb++;
                } else {
                    if (op.nz >= 3) { fprintf(stderr, "C19 harness: too many numeric arguments\n"); return 3; }
                    op.z[op.nz++] = (unsigned long long)t.z();
                }
            }
            std::string f = op.field;
            if (op.table == 'A' && (f == "withOutputParameter" || f == "withOutputParameterOfType")) {
                outs.emplace_back(C19_OUTLEN, (unsigned char)0xEE);
                op.out = outs.back().data();
            }
            ops.push_back(op);
        }
        c19.ops = ops.data(); c19.n = (int)ops.size();
        o << ":c"; half(o, cBody, c19_c_reset);
        o << ":x"; half(o, cppBody, cppReset);
        o.flush();
    }
    fflush(stdout);
    _exit(0);   // skip static destruction (the library's globals are torn down in an order UBSan objects to)
}
