// hlib.h -- token protocol shared by all harnesses (see ocaml/glue.ml):
//   integer = [-]hex ; bytes = $hexpairs ; NULL = ~ ; symbol = :name ; one scenario per stdin line, one observation line per scenario.
#ifndef VERIF_HLIB_H
#define VERIF_HLIB_H
#include <string>
#include <vector>
#include <cstdio>
#include <cstdlib>
#include <cstring>
#include <cstdint>
#include <iostream>
#include <sstream>
namespace hl {
struct Toks {
    std::vector<std::string> t; size_t i = 0;
    bool end() const { return i >= t.size(); }
    const std::string& next() { if (end()) { fprintf(stderr, "harness: out of tokens\n"); exit(3); } return t[i++]; }
    const std::string& peek() const { static std::string e; return end() ? e : t[i]; }
    unsigned long long u() { return strtoull(next().c_str(), nullptr, 16); }
    long long z() { const std::string& s = next(); if (!s.empty() && s[0] == '-') return (long long)(0ULL - strtoull(s.c_str() + 1, nullptr, 16)); return (long long)strtoull(s.c_str(), nullptr, 16); }
    int n() { return (int)u(); }
    // bytes token: returns false for NULL (~)
    bool bytes(std::string& out) { const std::string& s = next(); out.clear(); if (s == "~") return false; for (size_t k = 1; k + 1 < s.size(); k += 2) out.push_back((char)strtoul(s.substr(k, 2).c_str(), nullptr, 16)); return true; }
    std::string sym() { std::string s = next(); return s.size() && s[0] == ':' ? s.substr(1) : s; }
};
inline bool readline(Toks& tk) {
    std::string line; if (!std::getline(std::cin, line)) return false;
    tk.t.clear(); tk.i = 0; std::istringstream is(line); std::string w; while (is >> w) tk.t.push_back(w); return true;
}
inline std::string hx(unsigned long long v) { char b[32]; snprintf(b, sizeof b, "%llx", v); return b; }
inline std::string hz(long long v) { if (v < 0) return "-" + hx(0ULL - (unsigned long long)v); return hx((unsigned long long)v); }
inline std::string hbytes(const void* p, size_t n) { if (!p) return "~"; std::string r = "$"; char b[4]; for (size_t k = 0; k < n; k++) { snprintf(b, sizeof b, "%02x", ((const unsigned char*)p)[k]); r += b; } return r; }
inline std::string hstr(const char* s) { return s ? hbytes(s, strlen(s)) : std::string("~"); }
struct Out { std::string s; Out& operator<<(const std::string& x) { if (!s.empty()) s += ' '; s += x; return *this; } void flush() { puts(s.c_str()); fflush(stdout); s.clear(); } };
}
#endif
