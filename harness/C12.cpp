// C12 harness: builds CommandLineArguments(ac, av) on exact-size heap blocks (so ASan sees any read past av[ac-1] or past an
// argument's terminator), calls parse() with a plugin that accepts -pok..., and prints accept/reject, every getter, the filter
// lists and the selection over a probe registry.  A rejected vector is additionally run through CommandLineTestRunner
// (string-buffer outputs) to observe that usage/help is printed and no test runs.
// Scenario: <time ms> <n> <arg bytes>*n  [annotation, ignored here]
// Observation:  :rej <help> <tests run> <printed 0 nothing|1 usage|2 help|3 other>
//             | :ok v vv c p lg ln ll ri b f rethrow shuffling <seed> <repeat> <out 0|1|2> <pkg> <ng> (pat strict invert)* <nn> (..)* <sel>*14 <applied>
// An accepted vector is then handed to the real CommandLineTestRunner (runAllTestsMain) over a registry of 18 recording probe tests
// (4 of them IGNORE_TESTs), with recording outputs in place of the console / JUnit / TeamCity ones and a logging srand:
//   <applied> ::= :skip                                   (repeat count above REP_CAP = 6: not run)
//               | :app <nouts> (kind pkg level colour)*   leaf outputs in creation order, final verbosity level and colour
//                      <text>                              what was printed, when no repetition ran (the listings)
//                      <nreps> (level colour <n> seed* <n> started* <n> ran* <n> sep*)*
//   per repetition: level/colour of the first output when it starts, srand arguments since the previous one, ids passed to
//   currentTestStarted, ids whose body ran, started ids on which setRunInSeperateProcess had been called (nothing is forked).
#include <stdexcept>
#include "hlib.h"
static char* exactCopy(const std::string& s) { char* p = (char*)malloc(s.size() + 1); memcpy(p, s.data(), s.size()); p[s.size()] = 0; return p; }
static const char** exactArray(size_t n) { return (const char**)malloc(n * sizeof(char*)); }
static void release(void* p) { free(p); }
#define private public
#include "CppUTest/TestFilter.h"
#undef private
#include "CppUTest/TestHarness.h"
#include "CppUTest/TestRegistry.h"
#include "CppUTest/TestOutput.h"
#include "CppUTest/TestPlugin.h"
#include "CppUTest/CommandLineArguments.h"
#include "CppUTest/CommandLineTestRunner.h"
#include "CppUTest/PlatformSpecificFunctions.h"
using namespace hl;

static unsigned long gTime;
static unsigned long fakeTime() { return gTime; }

class OkPlugin : public TestPlugin
{
public:
    OkPlugin() : TestPlugin("ok") {}
    bool parseArguments(int, const char* const* av, int index) CPPUTEST_OVERRIDE { return strncmp(av[index], "-pok", 4) == 0; }
};

static int gRuns;
class CountingTest : public Utest { public: void testBody() CPPUTEST_OVERRIDE { gRuns++; } };
class CountingShell : public UtestShell
{
public:
    CountingShell(const char* g, const char* n) : UtestShell(g, n, "probe.cpp", 1) {}
    Utest* createTest() CPPUTEST_OVERRIDE { return new CountingTest; }
};

class BufferedRunner : public CommandLineTestRunner
{
public:
    StringBufferTestOutput* console;
    BufferedRunner(int ac, const char* const* av, TestRegistry* r) : CommandLineTestRunner(ac, av, r), console(0) {}
    TestOutput* createConsoleOutput() CPPUTEST_OVERRIDE { console = new StringBufferTestOutput; return console; }
    TestOutput* createJUnitOutput(const SimpleString&) CPPUTEST_OVERRIDE { return new StringBufferTestOutput; }
    TestOutput* createTeamCityOutput() CPPUTEST_OVERRIDE { return new StringBufferTestOutput; }
};

// ---------------------------------------------------------------- the runner over recording probes
static const int NRP = 18, REP_CAP = 6;
static const struct { const char* g; const char* n; bool ign; } RPROBES[NRP] = {
    {"grp", "name", false}, {"grp", "name2", false}, {"grp", "ign", true}, {"grp2", "name", false}, {"Group", "Test", false},
    {"Group", "TestIgn", true}, {"a", "b", false}, {"ab", "ba", false}, {"x", "y", false}, {"x", "z", true},
    {"grp", "other", false}, {"other", "name", false}, {"g1", "t1", false}, {"G", "T", false}, {"ig", "name", true},
    {"mygrp", "myname", false}, {"aaab", "xababac", false}, {"Looop", "TestTestTests", false} };
struct OutRec { int kind; std::string pkg; int level; bool colour; };
struct Rep { int level; bool colour; std::vector<unsigned long long> seeds; std::vector<int> started, ran, sep; };
static std::vector<OutRec> gOuts; static std::vector<Rep> gReps; static std::string gText; static std::vector<unsigned long long> gSeedLog;
static bool gSepFlag[NRP];
static void (*gRealSrand)(unsigned int);
static void loggingSrand(unsigned int s) { gSeedLog.push_back(s); gRealSrand(s); }
static Rep& currentRep() { if (gReps.empty()) gReps.push_back(Rep()); return gReps.back(); }

class RecTest : public Utest { public: int id; explicit RecTest(int i) : id(i) {} void testBody() CPPUTEST_OVERRIDE { currentRep().ran.push_back(id); } };
class ProbeShell : public UtestShell
{
public:
    int id;
    ProbeShell(int i) : UtestShell(RPROBES[i].g, RPROBES[i].n, "probe.cpp", 1), id(i) {}
    Utest* createTest() CPPUTEST_OVERRIDE { return new RecTest(id); }
    void setRunInSeperateProcess() CPPUTEST_OVERRIDE { gSepFlag[id] = true; }      // recorded, not done: nothing forks
};
class IgnoredProbeShell : public IgnoredUtestShell
{
public:
    int id;
    IgnoredProbeShell(int i) : IgnoredUtestShell(RPROBES[i].g, RPROBES[i].n, "probe.cpp", 1), id(i) {}
    Utest* createTest() CPPUTEST_OVERRIDE { return new RecTest(id); }
    void setRunInSeperateProcess() CPPUTEST_OVERRIDE { gSepFlag[id] = true; }
};
static int probeId(const UtestShell& t)
{
    if (const ProbeShell* p = dynamic_cast<const ProbeShell*>(&t)) return p->id;
    if (const IgnoredProbeShell* q = dynamic_cast<const IgnoredProbeShell*>(&t)) return q->id;
    return 0xff;
}
class Recorder : public TestOutput
{
public:
    size_t idx;
    Recorder(int kind, const char* pkg) : idx(gOuts.size()) { OutRec r; r.kind = kind; r.pkg = pkg; r.level = 0; r.colour = false; gOuts.push_back(r); }
    void verbose(VerbosityLevel level) CPPUTEST_OVERRIDE { gOuts[idx].level = (int)level; }
    void color() CPPUTEST_OVERRIDE { gOuts[idx].colour = true; }
    void printTestsStarted() CPPUTEST_OVERRIDE
    {
        if (idx) return;
        Rep r; r.level = gOuts[0].level; r.colour = gOuts[0].colour; r.seeds.swap(gSeedLog); gReps.push_back(r);
    }
    void printTestsEnded(const TestResult&) CPPUTEST_OVERRIDE { if (!idx) memset(gSepFlag, 0, sizeof gSepFlag); }
    void printCurrentTestStarted(const UtestShell& t) CPPUTEST_OVERRIDE
    {
        if (idx) return;
        int id = probeId(t); currentRep().started.push_back(id);
        if (id < NRP && gSepFlag[id]) currentRep().sep.push_back(id);
    }
    void printCurrentTestEnded(const TestResult&) CPPUTEST_OVERRIDE {}
    void printCurrentGroupStarted(const UtestShell&) CPPUTEST_OVERRIDE {}
    void printCurrentGroupEnded(const TestResult&) CPPUTEST_OVERRIDE {}
    void printTestRun(size_t, size_t) CPPUTEST_OVERRIDE {}
    void printBuffer(const char* s) CPPUTEST_OVERRIDE { if (!idx) gText += s; }
    void flush() CPPUTEST_OVERRIDE {}
};
class RecordingRunner : public CommandLineTestRunner
{
public:
    RecordingRunner(int ac, const char* const* av, TestRegistry* r) : CommandLineTestRunner(ac, av, r) {}
    TestOutput* createConsoleOutput() CPPUTEST_OVERRIDE { return new Recorder(0, ""); }
    TestOutput* createJUnitOutput(const SimpleString& pkg) CPPUTEST_OVERRIDE { return new Recorder(1, pkg.asCharString()); }
    TestOutput* createTeamCityOutput() CPPUTEST_OVERRIDE { return new Recorder(2, ""); }
};
static void ids(Out& o, const std::vector<int>& v) { o << hx(v.size()); for (size_t k = 0; k < v.size(); k++) o << hx((unsigned)v[k]); }
static void runThroughRunner(Out& o, int ac, const char* const* av)
{
    gOuts.clear(); gReps.clear(); gText.clear(); gSeedLog.clear(); memset(gSepFlag, 0, sizeof gSepFlag);
    TestRegistry reg; OkPlugin plugin;
    std::vector<UtestShell*> shells;
    for (int i = 0; i < NRP; i++) shells.push_back(RPROBES[i].ign ? (UtestShell*)new IgnoredProbeShell(i) : (UtestShell*)new ProbeShell(i));
    for (int i = NRP - 1; i >= 0; i--) reg.addTest(shells[(size_t)i]);          // addTest prepends: the normal order is 0, 1, 2, ...
    reg.installPlugin(&plugin);
    gRealSrand = PlatformSpecificSrand; PlatformSpecificSrand = loggingSrand;
    {
        RecordingRunner runner(ac, av, &reg);
        runner.runAllTestsMain();
    }
    PlatformSpecificSrand = gRealSrand;
    UtestShell::restoreDefaultTestTerminator();      // -f is sticky in the library
    UtestShell::setRethrowExceptions(true);
    for (size_t i = 0; i < shells.size(); i++) delete shells[i];
    o << ":app" << hx(gOuts.size());
    for (size_t k = 0; k < gOuts.size(); k++) o << hx((unsigned)gOuts[k].kind) << hstr(gOuts[k].pkg.c_str()) << hx((unsigned)gOuts[k].level) << (gOuts[k].colour ? "1" : "0");
    o << (gReps.empty() ? hbytes(gText.data(), gText.size()) : std::string("$"));
    o << hx(gReps.size());
    for (size_t k = 0; k < gReps.size(); k++) {
        const Rep& r = gReps[k];
        o << hx((unsigned)r.level) << (r.colour ? "1" : "0") << hx(r.seeds.size());
        for (size_t j = 0; j < r.seeds.size(); j++) o << hx(r.seeds[j]);
        ids(o, r.started); ids(o, r.ran); ids(o, r.sep);
    }
}

static const char* PROBES[14][2] = { {"grp", "name"}, {"grp", "name2"}, {"grp2", "name"}, {"Group", "Test"}, {"a", "b"}, {"ab", "ba"},
    {"x", "y"}, {"grp", "other"}, {"other", "name"}, {"g1", "t1"}, {"G", "T"}, {"mygrp", "myname"},
    {"aaab", "xababac"}, {"Looop", "TestTestTests"} };   // self-overlapping patterns: a match that starts inside a failed partial match

static void filters(Out& o, const TestFilter* f)
{
    size_t n = 0; for (const TestFilter* p = f; p; p = p->getNext()) n++;
    o << hx(n);
    for (const TestFilter* p = f; p; p = p->getNext())
        o << hstr(p->filter_.asCharString()) << (p->strictMatching_ ? "1" : "0") << (p->invertMatching_ ? "1" : "0");
}
static const char* b01(bool b) { return b ? "1" : "0"; }

int main()
{
    Toks t; Out o;
    unsigned long (*savedTime)() = GetPlatformSpecificTimeInMillis;
    while (readline(t)) {
        gTime = (unsigned long)t.u();
        size_t n = (size_t)t.u();
        const char** av = exactArray(n);
        for (size_t i = 0; i < n; i++) { std::string s; t.bytes(s); av[i] = exactCopy(s); }
        GetPlatformSpecificTimeInMillis = fakeTime;
        bool ok;
        {
            OkPlugin plugin;
            CommandLineArguments args((int)n, av);
            ok = args.parse(&plugin);
            if (ok) {
                o << ":ok" << b01(args.isVerbose()) << b01(args.isVeryVerbose()) << b01(args.isColor()) << b01(args.runTestsInSeperateProcess())
                  << b01(args.isListingTestGroupNames()) << b01(args.isListingTestGroupAndCaseNames()) << b01(args.isListingTestLocations())
                  << b01(args.isRunIgnored()) << b01(args.isReversing()) << b01(args.isCrashingOnFail()) << b01(args.isRethrowingExceptions())
                  << b01(args.isShuffling()) << hx(args.getShuffleSeed()) << hx(args.getRepeatCount())
                  << (args.isJUnitOutput() ? "1" : args.isTeamCityOutput() ? "2" : args.isEclipseOutput() ? "0" : "3")
                  << hstr(args.getPackageName().asCharString());
                filters(o, args.getGroupFilters());
                filters(o, args.getNameFilters());
                for (int p = 0; p < 14; p++) {
                    UtestShell probe(PROBES[p][0], PROBES[p][1], "probe.cpp", 1);
                    o << b01(probe.shouldRun(args.getGroupFilters(), args.getNameFilters()));
                }
                if (args.getRepeatCount() <= (size_t)REP_CAP) runThroughRunner(o, (int)n, av);
                else o << ":skip";
            }
            else {
                bool help = args.needHelp();
                // the same vector through the runner: what is printed, does anything run
                TestRegistry reg; OkPlugin plugin2;
                CountingShell t1("grp", "name"), t2("Group", "Test");
                reg.addTest(&t1); reg.addTest(&t2);
                reg.installPlugin(&plugin2);
                gRuns = 0;
                int printed = 0;
                {
                    BufferedRunner runner((int)n, av, &reg);
                    runner.runAllTestsMain();
                    if (runner.console) {
                        const SimpleString& text = runner.console->getOutput();
                        printed = text == args.usage() ? 1 : text == args.help() ? 2 : text.size() == 0 ? 0 : 3;
                    }
                }
                o << ":rej" << b01(help) << hx((unsigned)gRuns) << hx((unsigned)printed);
            }
        }
        GetPlatformSpecificTimeInMillis = savedTime;
        for (size_t i = 0; i < n; i++) release((void*)av[i]);
        release((void*)av);
        o.flush();
    }
    return 0;
}
