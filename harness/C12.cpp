// C12 harness: builds CommandLineArguments(ac, av) on exact-size heap blocks (so ASan sees any read past av[ac-1] or past an
// argument's terminator), calls parse() with a plugin that accepts -pok..., and prints accept/reject, every getter, the filter
// lists and the selection over a probe registry.  A rejected vector is additionally run through CommandLineTestRunner
// (string-buffer outputs) to observe that usage/help is printed and no test runs.
// Scenario: <time ms> <n> <arg bytes>*n  [annotation, ignored here]
// Observation:  :rej <help> <tests run> <printed 0 nothing|1 usage|2 help|3 other>
//             | :ok v vv c p lg ln ll ri b f rethrow shuffling <seed> <repeat> <out 0|1|2> <pkg> <ng> (pat strict invert)* <nn> (..)* <sel>*14 <applied>
// An accepted vector is then handed to the real CommandLineTestRunner (runAllTestsMain) over a registry of 18 recording probe tests
// (4 of them IGNORE_TESTs), with recording outputs in place of the console / JUnit / TeamCity ones and a logging srand:
//   <applied> ::= :skip                                   (repeat count above REP_CAP = 6: not run)
//               | :app <nouts> (kind pkg level colour)*   leaf outputs in creation order, final verbosity level and colour
//                      <text>                              what was printed, when no repetition ran (the listings)
//                      <nreps> (level colour <n> seed* <n> started* <n> ran* <n> sep*)*
//   per repetition: level/colour of the first output when it starts, srand arguments since the previous one, ids passed to
//   currentTestStarted, ids whose body ran, started ids on which setRunInSeperateProcess had been called (nothing is forked).
//
// Second scenario kind -- SEQUENCES of vectors handed to the static entry point CommandLineTestRunner::RunAllTests(ac, av) (the function
// behind RUN_ALL_TESTS / CPPUTEST_DEFAULT_MAIN) in ONE process on the current registry:
//   :seq <time ms> <np> (<name id> <kind>)*np <fail mask> <k> (<n> <arg bytes>*n)*k  [(<nopts> <opt>*)*k annotations, ignored here]
//   user plugins installed beforehand, head of the chain first; name id 0 MemoryLeakPlugin 1 SetPointerPlugin 2 ok 3 other 4 px;
//   kind 0 takes no argument, 1 takes -pok..., 2 takes -px...;  fail mask: bit i = probe test i fails (FAIL in its body).
// Observation: :seq (<call>)* :end | ... :hang | ... :died
//   <call> ::= :c <printed 0 neither usage nor help|1 exactly usage|2 exactly help|3 usage/help and more> <srand calls> <n> ran* <m> tag*
//            | :big                     (repeat count above REP_CAP: the vector is not handed to the runner)
//   ran = ids of the probe tests whose body ran, in order, all repetitions; tag = the plugin chain of the current registry AFTER the call,
//   head first: the user plugin's position + 1, or 0 for any plugin that is not one of the user's (walk capped at 40: a cycle shows).
// The sequence runs in a forked child under a CPU-time limit (ITIMER_PROF, 0.4 s) and alarm(SEQ_ALARM): a call that does not come back gives
// ":hang" after the calls completed so far;
// a child killed otherwise (sanitizer report, SEGV on a dangling plugin) gives ":died".
#include <stdexcept>
#include <unistd.h>
#include <csignal>
#include <sys/wait.h>
#include <sys/time.h>
#include "hlib.h"
static char* exactCopy(const std::string& s) { char* p = (char*)malloc(s.size() + 1); memcpy(p, s.data(), s.size()); p[s.size()] = 0; return p; }
static const char** exactArray(size_t n) { return (const char**)malloc(n * sizeof(char*)); }
static void release(void* p) { free(p); }
#define private public
#include "CppUTest/TestFilter.h"
#include "CppUTest/TestPlugin.h"      // next_ is read directly when the chain is walked after a call: no virtual call on a plugin that may be gone
#undef private
#include "CppUTest/TestHarness.h"
#include "CppUTest/TestRegistry.h"
#include "CppUTest/TestOutput.h"
#include "CppUTest/TestPlugin.h"
#include "CppUTest/CommandLineArguments.h"
#include "CppUTest/CommandLineTestRunner.h"
#include "CppUTest/PlatformSpecificFunctions.h"
using namespace hl;

static unsigned long gTime;
static unsigned long fakeTime() { return gTime; }

class OkPlugin : public TestPlugin
{
public:
    OkPlugin() : TestPlugin("ok") {}
    bool parseArguments(int, const char* const* av, int index) CPPUTEST_OVERRIDE { return strncmp(av[index], "-pok", 4) == 0; }
};

static int gRuns;
class CountingTest : public Utest { public: void testBody() CPPUTEST_OVERRIDE { gRuns++; } };
class CountingShell : public UtestShell
{
public:
    CountingShell(const char* g, const char* n) : UtestShell(g, n, "probe.cpp", 1) {}
    Utest* createTest() CPPUTEST_OVERRIDE { return new CountingTest; }
};

class BufferedRunner : public CommandLineTestRunner
{
public:
    StringBufferTestOutput* console;
    BufferedRunner(int ac, const char* const* av, TestRegistry* r) : CommandLineTestRunner(ac, av, r), console(0) {}
    TestOutput* createConsoleOutput() CPPUTEST_OVERRIDE { console = new StringBufferTestOutput; return console; }
    TestOutput* createJUnitOutput(const SimpleString&) CPPUTEST_OVERRIDE { return new StringBufferTestOutput; }
    TestOutput* createTeamCityOutput() CPPUTEST_OVERRIDE { return new StringBufferTestOutput; }
};

// ---------------------------------------------------------------- the runner over recording probes
static const int NRP = 18, REP_CAP = 6;
static const struct { const char* g; const char* n; bool ign; } RPROBES[NRP] = {
    {"grp", "name", false}, {"grp", "name2", false}, {"grp", "ign", true}, {"grp2", "name", false}, {"Group", "Test", false},
    {"Group", "TestIgn", true}, {"a", "b", false}, {"ab", "ba", false}, {"x", "y", false}, {"x", "z", true},
    {"grp", "other", false}, {"other", "name", false}, {"g1", "t1", false}, {"G", "T", false}, {"ig", "name", true},
    {"mygrp", "myname", false}, {"aaab", "xababac", false}, {"Looop", "TestTestTests", false} };
struct OutRec { int kind; std::string pkg; int level; bool colour; };
struct Rep { int level; bool colour; std::vector<unsigned long long> seeds; std::vector<int> started, ran, sep; };
static std::vector<OutRec> gOuts; static std::vector<Rep> gReps; static std::string gText; static std::vector<unsigned long long> gSeedLog;
static bool gSepFlag[NRP];
static void (*gRealSrand)(unsigned int);
static void loggingSrand(unsigned int s) { gSeedLog.push_back(s); gRealSrand(s); }
static Rep& currentRep() { if (gReps.empty()) gReps.push_back(Rep()); return gReps.back(); }

class RecTest : public Utest { public: int id; explicit RecTest(int i) : id(i) {} void testBody() CPPUTEST_OVERRIDE { currentRep().ran.push_back(id); } };
class ProbeShell : public UtestShell
{
public:
    int id;
    ProbeShell(int i) : UtestShell(RPROBES[i].g, RPROBES[i].n, "probe.cpp", 1), id(i) {}
    Utest* createTest() CPPUTEST_OVERRIDE { return new RecTest(id); }
    void setRunInSeperateProcess() CPPUTEST_OVERRIDE { gSepFlag[id] = true; }      // recorded, not done: nothing forks
};
class IgnoredProbeShell : public IgnoredUtestShell
{
public:
    int id;
    IgnoredProbeShell(int i) : IgnoredUtestShell(RPROBES[i].g, RPROBES[i].n, "probe.cpp", 1), id(i) {}
    Utest* createTest() CPPUTEST_OVERRIDE { return new RecTest(id); }
    void setRunInSeperateProcess() CPPUTEST_OVERRIDE { gSepFlag[id] = true; }
};
static int probeId(const UtestShell& t)
{
    if (const ProbeShell* p = dynamic_cast<const ProbeShell*>(&t)) return p->id;
    if (const IgnoredProbeShell* q = dynamic_cast<const IgnoredProbeShell*>(&t)) return q->id;
    return 0xff;
}
class Recorder : public TestOutput
{
public:
    size_t idx;
    Recorder(int kind, const char* pkg) : idx(gOuts.size()) { OutRec r; r.kind = kind; r.pkg = pkg; r.level = 0; r.colour = false; gOuts.push_back(r); }
    void verbose(VerbosityLevel level) CPPUTEST_OVERRIDE { gOuts[idx].level = (int)level; }
    void color() CPPUTEST_OVERRIDE { gOuts[idx].colour = true; }
    void printTestsStarted() CPPUTEST_OVERRIDE
    {
        if (idx) return;
        Rep r; r.level = gOuts[0].level; r.colour = gOuts[0].colour; r.seeds.swap(gSeedLog); gReps.push_back(r);
    }
    void printTestsEnded(const TestResult&) CPPUTEST_OVERRIDE { if (!idx) memset(gSepFlag, 0, sizeof gSepFlag); }
    void printCurrentTestStarted(const UtestShell& t) CPPUTEST_OVERRIDE
    {
        if (idx) return;
        int id = probeId(t); currentRep().started.push_back(id);
        if (id < NRP && gSepFlag[id]) currentRep().sep.push_back(id);
    }
    void printCurrentTestEnded(const TestResult&) CPPUTEST_OVERRIDE {}
    void printCurrentGroupStarted(const UtestShell&) CPPUTEST_OVERRIDE {}
    void printCurrentGroupEnded(const TestResult&) CPPUTEST_OVERRIDE {}
    void printTestRun(size_t, size_t) CPPUTEST_OVERRIDE {}
    void printBuffer(const char* s) CPPUTEST_OVERRIDE { if (!idx) gText += s; }
    void flush() CPPUTEST_OVERRIDE {}
};
class RecordingRunner : public CommandLineTestRunner
{
public:
    RecordingRunner(int ac, const char* const* av, TestRegistry* r) : CommandLineTestRunner(ac, av, r) {}
    TestOutput* createConsoleOutput() CPPUTEST_OVERRIDE { return new Recorder(0, ""); }
    TestOutput* createJUnitOutput(const SimpleString& pkg) CPPUTEST_OVERRIDE { return new Recorder(1, pkg.asCharString()); }
    TestOutput* createTeamCityOutput() CPPUTEST_OVERRIDE { return new Recorder(2, ""); }
};
static void ids(Out& o, const std::vector<int>& v) { o << hx(v.size()); for (size_t k = 0; k < v.size(); k++) o << hx((unsigned)v[k]); }
static void runThroughRunner(Out& o, int ac, const char* const* av)
{
    gOuts.clear(); gReps.clear(); gText.clear(); gSeedLog.clear(); memset(gSepFlag, 0, sizeof gSepFlag);
    TestRegistry reg; OkPlugin plugin;
    std::vector<UtestShell*> shells;
    for (int i = 0; i < NRP; i++) shells.push_back(RPROBES[i].ign ? (UtestShell*)new IgnoredProbeShell(i) : (UtestShell*)new ProbeShell(i));
    for (int i = NRP - 1; i >= 0; i--) reg.addTest(shells[(size_t)i]);          // addTest prepends: the normal order is 0, 1, 2, ...
    reg.installPlugin(&plugin);
    gRealSrand = PlatformSpecificSrand; PlatformSpecificSrand = loggingSrand;
    {
        RecordingRunner runner(ac, av, &reg);
        runner.runAllTestsMain();
    }
    PlatformSpecificSrand = gRealSrand;
    UtestShell::restoreDefaultTestTerminator();      // -f is sticky in the library
    UtestShell::setRethrowExceptions(true);
    for (size_t i = 0; i < shells.size(); i++) delete shells[i];
    o << ":app" << hx(gOuts.size());
    for (size_t k = 0; k < gOuts.size(); k++) o << hx((unsigned)gOuts[k].kind) << hstr(gOuts[k].pkg.c_str()) << hx((unsigned)gOuts[k].level) << (gOuts[k].colour ? "1" : "0");
    o << (gReps.empty() ? hbytes(gText.data(), gText.size()) : std::string("$"));
    o << hx(gReps.size());
    for (size_t k = 0; k < gReps.size(); k++) {
        const Rep& r = gReps[k];
        o << hx((unsigned)r.level) << (r.colour ? "1" : "0") << hx(r.seeds.size());
        for (size_t j = 0; j < r.seeds.size(); j++) o << hx(r.seeds[j]);
        ids(o, r.started); ids(o, r.ran); ids(o, r.sep);
    }
}

// ---------------------------------------------------------------- sequences through the static RunAllTests (forked child)
static const int SEQ_ALARM = 20, MAXRAN = 4096, CHAIN_CAP = 40;      // wall-clock seconds: for a child that sleeps for ever
static int gHangs;                                                     // children that ran out of CPU time so far (parent side)
static char gCon[1 << 16]; static size_t gConLen;
static int gRanIds[MAXRAN]; static int gRanN; static unsigned gFailMask; static int gSrandCalls;
static void (*gSeqRealSrand)(unsigned int);
static void countingSrand(unsigned int s) { gSrandCalls++; gSeqRealSrand(s); }
static char gDummyFile;
static PlatformSpecificFile seqFOpen(const char*, const char*) { return (PlatformSpecificFile)&gDummyFile; }
static void seqFClose(PlatformSpecificFile) {}
static void seqFlush() {}
static void seqFPuts(const char* s, PlatformSpecificFile f)
{
    if (f != PlatformSpecificStdOut) return;                      // a JUnit file: not kept
    size_t n = strlen(s);
    if (gConLen + n >= sizeof gCon) n = sizeof gCon - 1 - gConLen;   // cut: only "is it exactly / does it start with usage or help" is asked
    memcpy(gCon + gConLen, s, n); gConLen += n; gCon[gConLen] = 0;
}
static void noCrash() {}
class SeqTest : public Utest
{
public:
    int id; explicit SeqTest(int i) : id(i) {}
    void testBody() CPPUTEST_OVERRIDE { if (gRanN < MAXRAN) gRanIds[gRanN++] = id; if (gFailMask >> id & 1) FAIL("probe test fails"); }
};
class SeqShell : public UtestShell
{
public:
    int id;
    SeqShell(int i) : UtestShell(RPROBES[i].g, RPROBES[i].n, "probe.cpp", 1), id(i) {}
    Utest* createTest() CPPUTEST_OVERRIDE { return new SeqTest(id); }
    void setRunInSeperateProcess() CPPUTEST_OVERRIDE {}          // nothing forks
};
class IgnoredSeqShell : public IgnoredUtestShell
{
public:
    int id;
    IgnoredSeqShell(int i) : IgnoredUtestShell(RPROBES[i].g, RPROBES[i].n, "probe.cpp", 1), id(i) {}
    Utest* createTest() CPPUTEST_OVERRIDE { return new SeqTest(id); }
    void setRunInSeperateProcess() CPPUTEST_OVERRIDE {}
};
static const char* const PLUGIN_NAMES[5] = { DEF_PLUGIN_MEM_LEAK, DEF_PLUGIN_SET_POINTER, "ok", "other", "px" };
class UserPlugin : public TestPlugin
{
public:
    int kind;
    UserPlugin(const char* name, int k) : TestPlugin(name), kind(k) {}
    bool parseArguments(int, const char* const* av, int index) CPPUTEST_OVERRIDE
    { return kind == 1 ? strncmp(av[index], "-pok", 4) == 0 : kind == 2 ? strncmp(av[index], "-px", 3) == 0 : false; }
};
// the link of a plugin that may already be destroyed (a runner's stack object left in the chain): a plain load, no sanitizer check
// (called first thing after RunAllTests returns, with a small frame, so that the runner's dead frame is still as it was left)
static TestPlugin* gChain[CHAIN_CAP];
__attribute__((no_sanitize_undefined, no_sanitize_address, noinline)) static int walkChain(TestPlugin* p, TestPlugin* end)
{
    int cnt = 0;
    for (; p != end && cnt < CHAIN_CAP; p = p->next_) gChain[cnt++] = p;
    return cnt;
}
static void say(int fd, const std::string& s)
{
    size_t off = 0;
    while (off < s.size()) { ssize_t w = write(fd, s.data() + off, s.size() - off); if (w <= 0) _exit(4); off += (size_t)w; }
}

static int seqChild(int fd, Toks& t)
{
    alarm(SEQ_ALARM);
    {   // a sequence needs a few milliseconds of CPU; one that spins (a cyclic plugin chain) is stopped after 0.4 s of its own CPU time,
        // whatever the load of the machine (50 ms once five children of this harness have been stopped that way, 20 ms after twenty:
        // an implementation that never hangs always gets the 0.4 s)
        struct itimerval it; memset(&it, 0, sizeof it);
        it.it_value.tv_usec = gHangs >= 20 ? 20000 : gHangs >= 5 ? 50000 : 400000;
        setitimer(ITIMER_PROF, &it, 0);
    }
    gTime = (unsigned long)t.u();
    GetPlatformSpecificTimeInMillis = fakeTime;
    size_t np = (size_t)t.u();
    std::vector<UserPlugin*> users;
    for (size_t i = 0; i < np; i++) { unsigned nm = (unsigned)t.u() % 5; int kind = (int)t.u(); users.push_back(new UserPlugin(PLUGIN_NAMES[nm], kind)); }
    gFailMask = (unsigned)t.u();
    size_t k = (size_t)t.u();
    std::vector<std::vector<std::string> > vectors;
    for (size_t c = 0; c < k; c++) {
        size_t n = (size_t)t.u();
        std::vector<std::string> v;
        for (size_t i = 0; i < n; i++) { std::string s; t.bytes(s); v.push_back(s); }
        vectors.push_back(v);
    }
    // the current registry: 18 probe tests in the normal order 0..17, the user's plugins (first of the scenario = head of the chain)
    TestRegistry reg;
    std::vector<UtestShell*> shells;
    for (int i = 0; i < NRP; i++) shells.push_back(RPROBES[i].ign ? (UtestShell*)new IgnoredSeqShell(i) : (UtestShell*)new SeqShell(i));
    for (int i = NRP - 1; i >= 0; i--) reg.addTest(shells[(size_t)i]);
    for (size_t i = np; i-- > 0; ) reg.installPlugin(users[i]);
    reg.setCurrentRegistry(&reg);
    std::string usage, help;
    { CommandLineArguments a(0, 0); usage = a.usage(); help = a.help(); }
    gSeqRealSrand = PlatformSpecificSrand; PlatformSpecificSrand = countingSrand;
    PlatformSpecificFPuts = seqFPuts; PlatformSpecificFOpen = seqFOpen; PlatformSpecificFClose = seqFClose; PlatformSpecificFlush = seqFlush;
    UtestShell::setCrashMethod(noCrash);
    for (size_t c = 0; c < k; c++) {
        size_t n = vectors[c].size();
        const char** av = exactArray(n);
        for (size_t i = 0; i < n; i++) av[i] = exactCopy(vectors[c][i]);
        bool big;
        { CommandLineArguments pre((int)n, av); big = pre.parse(reg.getFirstPlugin()) && pre.getRepeatCount() > (size_t)REP_CAP; }
        if (big) { say(fd, " :big"); }
        else {
            gConLen = 0; gCon[0] = 0; gRanN = 0; gSrandCalls = 0;
            CommandLineTestRunner::RunAllTests((int)n, av);
            int cnt = walkChain(reg.getFirstPlugin(), NullTestPlugin::instance());
            std::string line = " :c ";
            bool u = strncmp(gCon, usage.c_str(), usage.size()) == 0, h = strncmp(gCon, help.c_str(), help.size()) == 0;
            line += (u && gConLen == usage.size()) ? "1" : (h && gConLen == help.size()) ? "2" : (u || h) ? "3" : "0";
            line += " " + hx((unsigned)gSrandCalls) + " " + hx((unsigned)gRanN);
            for (int i = 0; i < gRanN; i++) line += " " + hx((unsigned)gRanIds[i]);
            std::string tags;
            for (int j = 0; j < cnt; j++) {
                size_t tag = 0;
                for (size_t i = 0; i < np; i++) if (gChain[j] == users[i]) tag = i + 1;
                tags += " " + hx(tag);
            }
            line += " " + hx((unsigned)cnt) + tags;
            say(fd, line);
        }
        for (size_t i = 0; i < n; i++) release((void*)av[i]);
        release((void*)av);
    }
    say(fd, " :end");
    return 0;
}

static void runSequence(Out& o, Toks& t)
{
    int fds[2];
    o << ":seq";
    if (pipe(fds) != 0) { o << ":nopipe"; return; }
    fflush(stdout);
    pid_t pid = fork();
    if (pid < 0) { o << ":nofork"; return; }
    if (pid == 0) { close(fds[0]); _exit(seqChild(fds[1], t)); }
    close(fds[1]);
    std::string got; char buf[4096]; ssize_t n;
    while ((n = read(fds[0], buf, sizeof buf)) > 0) got.append(buf, (size_t)n);
    close(fds[0]);
    int status = 0;
    waitpid(pid, &status, 0);
    bool clean = WIFEXITED(status) && WEXITSTATUS(status) == 0;
    size_t cut = got.size();
    if (!clean) { size_t e = got.find(" :end"); if (e != std::string::npos) cut = e; }      // every call record is one write: complete
    std::string body = got.substr(0, cut);
    if (!body.empty() && body[0] == ' ') body.erase(0, 1);
    if (!body.empty()) o << body;
    bool hung = WIFSIGNALED(status) && (WTERMSIG(status) == SIGALRM || WTERMSIG(status) == SIGPROF);
    if (hung) gHangs++;
    if (!clean) o << (hung ? ":hang" : ":died");
}

static const char* PROBES[14][2] = { {"grp", "name"}, {"grp", "name2"}, {"grp2", "name"}, {"Group", "Test"}, {"a", "b"}, {"ab", "ba"},
    {"x", "y"}, {"grp", "other"}, {"other", "name"}, {"g1", "t1"}, {"G", "T"}, {"mygrp", "myname"},
    {"aaab", "xababac"}, {"Looop", "TestTestTests"} };   // self-overlapping patterns: a match that starts inside a failed partial match

static void filters(Out& o, const TestFilter* f)
{
    size_t n = 0; for (const TestFilter* p = f; p; p = p->getNext()) n++;
    o << hx(n);
    for (const TestFilter* p = f; p; p = p->getNext())
        o << hstr(p->filter_.asCharString()) << (p->strictMatching_ ? "1" : "0") << (p->invertMatching_ ? "1" : "0");
}
static const char* b01(bool b) { return b ? "1" : "0"; }

int main()
{
    Toks t; Out o;
    unsigned long (*savedTime)() = GetPlatformSpecificTimeInMillis;
    while (readline(t)) {
        if (t.peek() == ":seq") { t.next(); runSequence(o, t); o.flush(); continue; }
        gTime = (unsigned long)t.u();
        size_t n = (size_t)t.u();
        const char** av = exactArray(n);
        for (size_t i = 0; i < n; i++) { std::string s; t.bytes(s); av[i] = exactCopy(s); }
        GetPlatformSpecificTimeInMillis = fakeTime;
        bool ok;
        {
            OkPlugin plugin;
            CommandLineArguments args((int)n, av);
            ok = args.parse(&plugin);
            if (ok) {
                o << ":ok" << b01(args.isVerbose()) << b01(args.isVeryVerbose()) << b01(args.isColor()) << b01(args.runTestsInSeperateProcess())
                  << b01(args.isListingTestGroupNames()) << b01(args.isListingTestGroupAndCaseNames()) << b01(args.isListingTestLocations())
                  << b01(args.isRunIgnored()) << b01(args.isReversing()) << b01(args.isCrashingOnFail()) << b01(args.isRethrowingExceptions())
                  << b01(args.isShuffling()) << hx(args.getShuffleSeed()) << hx(args.getRepeatCount())
                  << (args.isJUnitOutput() ? "1" : args.isTeamCityOutput() ? "2" : args.isEclipseOutput() ? "0" : "3")
                  << hstr(args.getPackageName().asCharString());
                filters(o, args.getGroupFilters());
                filters(o, args.getNameFilters());
                for (int p = 0; p < 14; p++) {
                    UtestShell probe(PROBES[p][0], PROBES[p][1], "probe.cpp", 1);
                    o << b01(probe.shouldRun(args.getGroupFilters(), args.getNameFilters()));
                }
                if (args.getRepeatCount() <= (size_t)REP_CAP) runThroughRunner(o, (int)n, av);
                else o << ":skip";
            }
            else {
                bool help = args.needHelp();
                // the same vector through the runner: what is printed, does anything run
                TestRegistry reg; OkPlugin plugin2;
                CountingShell t1("grp", "name"), t2("Group", "Test");
                reg.addTest(&t1); reg.addTest(&t2);
                reg.installPlugin(&plugin2);
                gRuns = 0;
                int printed = 0;
                {
                    BufferedRunner runner((int)n, av, &reg);
                    runner.runAllTestsMain();
                    if (runner.console) {
                        const SimpleString& text = runner.console->getOutput();
                        printed = text == args.usage() ? 1 : text == args.help() ? 2 : text.size() == 0 ? 0 : 3;
                    }
                }
                o << ":rej" << b01(help) << hx((unsigned)gRuns) << hx((unsigned)printed);
            }
        }
        GetPlatformSpecificTimeInMillis = savedTime;
        for (size_t i = 0; i < n; i++) release((void*)av[i]);
        release((void*)av);
        o.flush();
    }
    return 0;
}
