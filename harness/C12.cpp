// C12 harness: builds CommandLineArguments(ac, av) on exact-size heap blocks (so ASan sees any read past av[ac-1] or past an
// argument's terminator), calls parse() with a plugin that accepts -pok..., and prints accept/reject, every getter, the filter
// lists and the selection over a probe registry.  A rejected vector is additionally run through CommandLineTestRunner
// (string-buffer outputs) to observe that usage/help is printed and no test runs.
// Scenario: <time ms> <n> <arg bytes>*n  [annotation, ignored here]
// Observation:  :rej <help> <tests run> <printed 0 nothing|1 usage|2 help|3 other>
//             | :ok v vv c p lg ln ll ri b f rethrow shuffling <seed> <repeat> <out 0|1|2> <pkg> <ng> (pat strict invert)* <nn> (..)* <sel>*14
#include <stdexcept>
#include "hlib.h"
static char* exactCopy(const std::string& s) { char* p = (char*)malloc(s.size() + 1); memcpy(p, s.data(), s.size()); p[s.size()] = 0; return p; }
static const char** exactArray(size_t n) { return (const char**)malloc(n * sizeof(char*)); }
static void release(void* p) { free(p); }
#define private public
#include "CppUTest/TestFilter.h"
#undef private
#include "CppUTest/TestHarness.h"
#include "CppUTest/TestRegistry.h"
#include "CppUTest/TestOutput.h"
#include "CppUTest/TestPlugin.h"
#include "CppUTest/CommandLineArguments.h"
#include "CppUTest/CommandLineTestRunner.h"
#include "CppUTest/PlatformSpecificFunctions.h"
using namespace hl;

static unsigned long gTime;
static unsigned long fakeTime() { return gTime; }

class OkPlugin : public TestPlugin
{
public:
    OkPlugin() : TestPlugin("ok") {}
    bool parseArguments(int, const char* const* av, int index) CPPUTEST_OVERRIDE { return strncmp(av[index], "-pok", 4) == 0; }
};

static int gRuns;
class CountingTest : public Utest { public: void testBody() CPPUTEST_OVERRIDE { gRuns++; } };
class CountingShell : public UtestShell
{
public:
    CountingShell(const char* g, const char* n) : UtestShell(g, n, "probe.cpp", 1) {}
    Utest* createTest() CPPUTEST_OVERRIDE { return new CountingTest; }
};

class BufferedRunner : public CommandLineTestRunner
{
public:
    StringBufferTestOutput* console;
    BufferedRunner(int ac, const char* const* av, TestRegistry* r) : CommandLineTestRunner(ac, av, r), console(0) {}
    TestOutput* createConsoleOutput() CPPUTEST_OVERRIDE { console = new StringBufferTestOutput; return console; }
    TestOutput* createJUnitOutput(const SimpleString&) CPPUTEST_OVERRIDE { return new StringBufferTestOutput; }
    TestOutput* createTeamCityOutput() CPPUTEST_OVERRIDE { return new StringBufferTestOutput; }
};

static const char* PROBES[14][2] = { {"grp", "name"}, {"grp", "name2"}, {"grp2", "name"}, {"Group", "Test"}, {"a", "b"}, {"ab", "ba"},
    {"x", "y"}, {"grp", "other"}, {"other", "name"}, {"g1", "t1"}, {"G", "T"}, {"mygrp", "myname"},
    {"aaab", "xababac"}, {"Looop", "TestTestTests"} };   // self-overlapping patterns: a match that starts inside a failed partial match

static void filters(Out& o, const TestFilter* f)
{
    size_t n = 0; for (const TestFilter* p = f; p; p = p->getNext()) n++;
    o << hx(n);
    for (const TestFilter* p = f; p; p = p->getNext())
        o << hstr(p->filter_.asCharString()) << (p->strictMatching_ ? "1" : "0") << (p->invertMatching_ ? "1" : "0");
}
static const char* b01(bool b) { return b ? "1" : "0"; }

int main()
{
    Toks t; Out o;
    unsigned long (*savedTime)() = GetPlatformSpecificTimeInMillis;
    while (readline(t)) {
        gTime = (unsigned long)t.u();
        size_t n = (size_t)t.u();
        const char** av = exactArray(n);
        for (size_t i = 0; i < n; i++) { std::string s; t.bytes(s); av[i] = exactCopy(s); }
        GetPlatformSpecificTimeInMillis = fakeTime;
        bool ok;
        {
            OkPlugin plugin;
            CommandLineArguments args((int)n, av);
            ok = args.parse(&plugin);
            if (ok) {
                o << ":ok" << b01(args.isVerbose()) << b01(args.isVeryVerbose()) << b01(args.isColor()) << b01(args.runTestsInSeperateProcess())
                  << b01(args.isListingTestGroupNames()) << b01(args.isListingTestGroupAndCaseNames()) << b01(args.isListingTestLocations())
                  << b01(args.isRunIgnored()) << b01(args.isReversing()) << b01(args.isCrashingOnFail()) << b01(args.isRethrowingExceptions())
                  << b01(args.isShuffling()) << hx(args.getShuffleSeed()) << hx(args.getRepeatCount())
                  << (args.isJUnitOutput() ? "1" : args.isTeamCityOutput() ? "2" : args.isEclipseOutput() ? "0" : "3")
                  << hstr(args.getPackageName().asCharString());
                filters(o, args.getGroupFilters());
                filters(o, args.getNameFilters());
                for (int p = 0; p < 14; p++) {
                    UtestShell probe(PROBES[p][0], PROBES[p][1], "probe.cpp", 1);
                    o << b01(probe.shouldRun(args.getGroupFilters(), args.getNameFilters()));
                }
            }
            else {
                bool help = args.needHelp();
                // the same vector through the runner: what is printed, does anything run
                TestRegistry reg; OkPlugin plugin2;
                CountingShell t1("grp", "name"), t2("Group", "Test");
                reg.addTest(&t1); reg.addTest(&t2);
                reg.installPlugin(&plugin2);
                gRuns = 0;
                int printed = 0;
                {
                    BufferedRunner runner((int)n, av, &reg);
                    runner.runAllTestsMain();
                    if (runner.console) {
                        const SimpleString& text = runner.console->getOutput();
                        printed = text == args.usage() ? 1 : text == args.help() ? 2 : text.size() == 0 ? 0 : 3;
                    }
                }
                o << ":rej" << b01(help) << hx((unsigned)gRuns) << hx((unsigned)printed);
            }
        }
        GetPlatformSpecificTimeInMillis = savedTime;
        for (size_t i = 0; i < n; i++) release((void*)av[i]);
        release((void*)av);
        o.flush();
    }
    return 0;
}
