"""C15 -- injected out-of-memory hits exactly the designated allocations.
Scenario  :F <op>*          op  ::= :g n | :l n $file line | :a fam $file line | :k | :c
                            (failAllocNumber | failNthAllocAt | one allocation request | checkAllFailedAllocsWereDone | clearFailedAllocs)
                            fam: 0 alloc_memory 1 malloc 2 calloc 3 strdup 4 strndup 5 new 6 new[] 7 nothrow new 8 nothrow new[]
          :C custom <cop>*  cop ::= :o | :r | :d n | :m fam    (set_out_of_memory | set_not_out_of_memory | countdown n | malloc/calloc/strdup/strndup)
          :R backing <rop>* rop ::= :o | :r | :d n | :m fam | :s fam slot | :f slot | :y slot size | :g n | :c
                            backing: 0 default malloc allocator | 1 a test-installed one | 3 a FailableMemoryAllocator, current at the start.
                            Blocks are KEPT: every :m / :s result (block or NULL) takes the next slot (0, 1, ...); :s = strdup (fam 2) /
                            strndup (fam 3) of the string held by a slot; :f cpputest_free(slot); :y slot = cpputest_realloc(slot, size);
                            :g n failAllocNumber(n) and :c clearFailedAllocs() on the failable allocator.
          :T pre <tev>* :| <tev>* :| <tev>*   ONE test run by a TestTestingFixture: setup :| body :| teardown; tev ::= op of :F | :+ | :!
                            (:+ UtestShell::addFailure -- recorded, the test goes on; :! FAIL() -- recorded, the test function is left);
                            pre = failures a plugin records (preTestAction) before the test starts.
Observation: one item per allocation (0 block, 1 NULL, 2 bad_alloc), per check (:n passes | :G n | :L $file line = what the
failure names) and per reset (:A 0 default / 1 the test's allocator / 2 null allocator / 3 the failable one is current afterwards);
:R only: :P res intact (strdup from a block: result, source untouched and copy right), :Q failure given (free: a failure was
reported, the block reached the allocator it came from), :Y res failure intact (realloc: result, failure reported, bytes of the
old or moved block as written), :E tracked clean (blocks the detector tracks at the end; after releasing them nothing the real
allocator handed out is outstanding).
:T only: :K before after <check item> per check that was asked (failure count of the running test before / after it), :p n at the
end of setup, body and teardown (n = events of that test function that were started)."""
import re
from vlib import tz, tb
ID = "C15"
FLAVOURS = ["asan"]
HARNESS_SRCS = ["harness/C15.cpp"]
# D5 (cpputest_strdup/strndup copy into NULL when their malloc fails) is repaired by the owner of C05.  Until that `fix:`
# commit is in /repo a strdup/strndup whose allocation is the failing one crashes the harness; those scenarios form a
# separate stream that is switched on here once the repair has landed.
ENABLE_STRDUP_OOM = True    # d6577f6 (fix: cpputest_strdup/strndup return NULL ...) is in /repo
RULE = ("(1) every allocation point of generated workloads (1-25 requests over 3 of 6 locations sharing files/lines/name prefixes, 9 allocator "
        "families) taken in turn as the designated one, by global index and by location x local index, installed at the start or mid-way; "
        "(2) 1-5 designations (global/local, every installation order and point, several on one location, never-firing ones: n<=0, n beyond "
        "the history, global index already passed, location never used) with checks and clears interleaved; (3) random operation soup filtered "
        "by the precondition; (4) countdown -1..13 x 0..15 requests x wrapper families, set_out_of_memory, 1-3 arm/reset segments with and "
        "without a test-installed allocator; (5) :R -- blocks kept and released / reallocated / strdup'ed-from while failures are injected: "
        "every combination of backing allocator (default, test-installed recording one, failable) x way out-of-memory begins (set_out_of_memory, "
        "countdown 0..4 reaching 0 after 0..3 further requests, a designated index on the failable allocator) x 1-3 blocks of every wrapper family "
        "handed out before x operation while it lasts (free, realloc grow/shrink/of NULL, strdup/strndup from a block, a request) x the same "
        "operations after the reset / clear, plus valid random interleavings of all nine operations (free of NULL slots, set_out_of_memory on top "
        "of a running countdown, several arm/reset rounds, designations installed mid-way); (6) :T -- the never-done check asked from inside ONE "
        "running test (TestTestingFixture): kind of pending list (by number, by location, one kind used up and the other waiting, both waiting, all "
        "used up, none) x failures the test already has (none, 1-3 from a plugin's preTestAction, 1-3 addFailure that let the test go on, a FAIL "
        "that left setup or body, an earlier never-done report, combinations) x asked from setup / body / teardown x asked again (same function, "
        "next function, after clearFailedAllocs), plus random three-function soups of all events. non-trivial = at least one designation (or arming) "
        "and one allocation (:R: and one release / realloc / copy; :T: a designation and a check that is reached); distinct by text")
ASSUMPTIONS = ["designations denote pairwise different allocations (checked per scenario by the extracted `valid`)",
               "file names are non-NULL C strings, numbers fit an int, fewer than 2^31 allocations",
               "C level: out-of-memory is armed from a not-out-of-memory state, at most one arming between two resets; a reset issued "
               "before out-of-memory was reached while a test-installed malloc allocator is current is outside the domain (it installs the default allocator)",
               ":R: a countdown is armed from a not-out-of-memory state (set_out_of_memory may come at any time), a block is released once and "
               "not used afterwards, realloc sizes are 1..200, only index designations (failAllocNumber) on the failable allocator; realloc "
               "is not a request that the countdown or the failable allocator counts (it never reaches alloc_memory)",
               ":T: the history judged is the one the test really went through (the observation tells how many events of setup / body / teardown "
               "were started); when a test function is left is modelled (report and FAIL leave it, the body is skipped after a left setup) but not demanded"]
UNKNOWN = (b"<unknown>", 0)
LOCS = [(b"a.c", 10), (b"a.c", 20), (b"b.c", 10), (b"a.cc", 10), (b"dir/a.c", 20), UNKNOWN]
FAMS_LOC = [0, 1, 2, 3, 4, 5, 6]


# ---- scenario text <-> tuples
def ptext(ops):
    out = [":F"]
    for o in ops:
        if o[0] == "g":
            out.append(":g " + tz(o[1]))
        elif o[0] == "l":
            out.append(":l %s %s %x" % (tz(o[1]), tb(o[2][0]), o[2][1]))
        elif o[0] == "a":
            out.append(":a %x %s %x" % (o[1], tb(o[2][0]), o[2][1]))
        else:
            out.append(":" + o[0])
    return " ".join(out)


def unz(t):
    return -int(t[1:], 16) if t.startswith("-") else int(t, 16)


def pparse(s):
    t = s.split()
    assert t[0] == ":F"
    i, ops = 1, []
    while i < len(t):
        k = t[i]
        if k == ":g":
            ops.append(("g", unz(t[i + 1]))); i += 2
        elif k == ":l":
            ops.append(("l", unz(t[i + 1]), (bytes.fromhex(t[i + 2][1:]), int(t[i + 3], 16)))); i += 4
        elif k == ":a":
            ops.append(("a", int(t[i + 1], 16), (bytes.fromhex(t[i + 2][1:]), int(t[i + 3], 16)))); i += 4
        else:
            ops.append((k[1:],)); i += 1
    return ops


# ---- generator-side copy of the counting definition (only used to build valid scenarios; the judge is the extracted spec)
def find_nth(match, n, ops, start):
    for q in range(start, len(ops)):
        o = ops[q]
        if o[0] == "c":
            return None
        if o[0] == "a" and match(o[2]):
            if n == 1:
                return q
            n -= 1
    return None


def targets(ops):
    g, res = 0, []
    for p, o in enumerate(ops):
        if o[0] == "g":
            res.append((p, find_nth(lambda l: True, o[1] - g, ops, p + 1)))
        elif o[0] == "l":
            res.append((p, find_nth(lambda l, L=o[2]: l == L, o[1], ops, p + 1)))
        elif o[0] == "a":
            g += 1
        elif o[0] == "c":
            g = 0
    return res


def fix_families(ops):
    """nothrow families only at <unknown>:0; strdup/strndup not as a failing request unless the D5 repair is in."""
    hit = set(t for _, t in targets(ops) if t is not None)
    out = []
    for q, o in enumerate(ops):
        if o[0] == "a":
            f = o[1]
            if f in (7, 8) and o[2] != UNKNOWN:
                f = 5 if f == 7 else 6
            if f in (3, 4) and q in hit and not ENABLE_STRDUP_OOM:
                f = 1
            o = ("a", f, o[2])
        out.append(o)
    return out


def valid_ops(ops):
    ts = [t for _, t in targets(ops) if t is not None]
    return len(ts) == len(set(ts))


def rfam(rng, loc):
    if loc == UNKNOWN and rng.random() < 0.5:
        return rng.choice([7, 8])
    return rng.choice(FAMS_LOC)


def workload(rng, m, locs):
    w = []
    for _ in range(m):
        l = rng.choice(locs)
        w.append(("a", rfam(rng, l), l))
    return w


def gen_each_point(rng, nwork, out):
    for _ in range(nwork):
        locs = rng.sample(LOCS, 3)
        m = rng.choice([1, 2, 3, 4, 5, 6, 8, 12, 25]) if rng.random() < 0.5 else rng.randrange(1, 26)
        w = workload(rng, m, locs)
        for i in range(m):
            L = w[i][2]
            j = rng.randrange(0, i + 1)            # installed before request j
            klocal0 = sum(1 for x in w[:i + 1] if x[2] == L)
            klocalj = sum(1 for x in w[j:i + 1] if x[2] == L)
            tail = [("k",)] if rng.random() < 0.7 else []
            out.append([("g", i + 1)] + w + tail)
            out.append([("l", klocal0, L)] + w + tail)
            out.append(w[:j] + [("g", i + 1)] + w[j:i] + ([("k",)] if rng.random() < 0.3 else []) + w[i:] + tail)
            out.append(w[:j] + [("l", klocalj, L)] + w[j:i] + ([("k",)] if rng.random() < 0.3 else []) + w[i:] + tail)


def segment(rng, locs):
    m = rng.randrange(1, 26) if rng.random() < 0.3 else rng.randrange(1, 9)
    w = workload(rng, m, locs if rng.random() < 0.7 else locs[:1])
    d = rng.randrange(1, 6)
    tg = rng.sample(range(m), min(d, m))
    inst = {}
    for t in tg:
        ib = rng.randrange(0, t + 1) if rng.random() < 0.6 else 0
        L = w[t][2]
        if rng.random() < 0.5:
            des = ("g", t + 1)
        else:
            des = ("l", sum(1 for x in w[ib:t + 1] if x[2] == L), L)
        inst.setdefault(ib, []).append(des)
    for _ in range(rng.choice([0, 0, 1, 2])):   # designations that never fire
        ib = rng.randrange(0, m + 1)
        c = rng.randrange(5)
        if c == 0:
            des = ("g", rng.choice([0, -1, m + 1, m + 7, 0x7fffffff, -0x80000000]))
        elif c == 1:
            des = ("g", rng.randrange(0, ib + 1))           # global index already passed
        elif c == 2:
            des = ("l", rng.choice([0, -1, m + 1, 1000]), rng.choice(locs))
        elif c == 3:
            des = ("l", rng.randrange(1, 4), rng.choice([l for l in LOCS if l not in locs] or LOCS))
        else:
            des = ("l", 26, rng.choice(locs))
        inst.setdefault(ib, []).append(des)
    ops = []
    for i in range(m + 1):
        ds = inst.get(i, [])
        rng.shuffle(ds)
        ops += ds
        if rng.random() < 0.15:
            ops.append(("k",))
        if i < m:
            ops.append(w[i])
    if rng.random() < 0.6:
        ops.append(("k",))
    return ops


def gen_multi(rng, n, out):
    for _ in range(n):
        locs = rng.sample(LOCS, 3)
        ops = segment(rng, locs)
        while rng.random() < 0.3:
            ops += [("c",)] + (segment(rng, locs) if rng.random() < 0.8 else workload(rng, rng.randrange(1, 5), locs) + [("k",)])
        out.append(ops)


def gen_soup(rng, n, out):
    for _ in range(n):
        locs = rng.sample(LOCS, rng.choice([1, 2, 2, 3]))
        ops = []
        for _ in range(rng.randrange(1, 30)):
            c = rng.random()
            if c < 0.12:
                ops.append(("g", rng.randrange(-1, 8)))
            elif c < 0.27:
                ops.append(("l", rng.randrange(0, 5), rng.choice(locs)))
            elif c < 0.85:
                l = rng.choice(locs)
                ops.append(("a", rfam(rng, l), l))
            elif c < 0.95:
                ops.append(("k",))
            else:
                ops.append(("c",))
        out.append(ops)


def cfam_ok(rng, fails):
    return rng.choice([0, 1]) if (fails and not ENABLE_STRDUP_OOM) else rng.randrange(4)


def cseg(rng, arm, k, custom):
    """one arm / allocate / reset segment; arm = 'o' | n (countdown) | None"""
    toks = []
    if arm == "o":
        toks.append(":o")
    elif arm is not None:
        toks.append(":d " + tz(arm))
    reached = False
    for i in range(1, k + 1):
        fails = arm == "o" or (arm is not None and 0 <= arm <= i)
        toks.append(":m %x" % cfam_ok(rng, fails))
    reached = arm == "o" or (arm is not None and 0 <= arm <= k)
    return toks, reached


def gen_count(rng, tier, out):
    for n in range(-2, 14):
        for k in range(0, 16):
            toks, reached = cseg(rng, n, k, False)
            custom = 1 if (reached and (n + k) % 2 == 0) else 0
            after = [":r"] + [":m %x" % rng.randrange(4) for _ in range(rng.randrange(0, 3))]
            out.append(":C %x " % custom + " ".join(toks + after))
    for k in range(0, 6):
        for custom in (0, 1):
            toks, _ = cseg(rng, "o", k, custom)
            out.append(":C %x " % custom + " ".join(toks + [":r", ":m 0", ":m %x" % rng.randrange(4)]))
    for _ in range(1500 if tier == "quick" else 8000):
        custom = rng.randrange(2)
        toks = [":m %x" % rng.randrange(4) for _ in range(rng.randrange(0, 3))]
        for _ in range(rng.randrange(1, 4)):
            arm = rng.choice(["o", None] + list(range(-1, 8)) + [0x7fffffff, -0x80000000])
            k = rng.randrange(0, 10)
            t, reached = cseg(rng, arm, k, custom)
            if custom and not reached:
                # make it reach out-of-memory before the reset (domain), or do not reset
                if rng.random() < 0.5 or arm is None or (arm != "o" and arm < 0) or arm == 0x7fffffff:
                    toks += t
                    break
                extra = arm - k
                t += [":m %x" % cfam_ok(rng, i == extra - 1) for i in range(extra)]
            toks += t + [":r"] + [":m %x" % rng.randrange(4) for _ in range(rng.randrange(0, 3))]
        out.append(":C %x " % custom + " ".join(toks))


# ---- :R scenarios (blocks kept; releases and reallocs interleaved with the injected failures)
class RTrack:
    """generator-side copy of the counting state of the spec (qstep / rop_valid); only used to build valid scenarios and labels"""

    def __init__(self, backing):
        self.b, self.arm, self.k, self.g, self.D, self.slots = backing, None, 0, 0, [], []

    def oom(self, k):
        if self.arm is None:
            return False
        if self.arm == "o":
            return True
        return 0 <= self.arm <= k

    def fails(self):
        return self.oom(self.k + 1) or (self.b == 3 and (self.g + 1) in self.D)

    def ok(self, o):
        k = o[0]
        if k == "d":
            return self.arm is None
        if k == "r":
            return self.b == 0 or self.oom(self.k)
        if k == "s":
            return o[1] in (2, 3) and 0 <= o[2] < len(self.slots) and self.slots[o[2]] == "L"
        if k in "fy":
            return 0 <= o[1] < len(self.slots) and self.slots[o[1]] != "F" and (k == "f" or 1 <= o[2] <= 200)
        if k in "gc":
            return self.b == 3
        return True

    def step(self, o):
        k = o[0]
        if k == "o":
            self.arm, self.k = "o", 0
        elif k == "d":
            self.arm, self.k = o[1], 0
        elif k == "r":
            self.arm, self.k = None, 0
        elif k in "ms":
            f, oomn = self.fails(), self.oom(self.k + 1)
            self.k += 1
            if not oomn:
                self.g += 1
            self.slots.append("N" if f else "L")
        elif k == "f":
            if self.slots[o[1]] == "L":
                self.slots[o[1]] = "F"
        elif k == "y":
            if not self.oom(self.k):
                self.slots[o[1]] = "L"
        elif k == "g":
            self.D = [o[1]] + self.D
        elif k == "c":
            self.g, self.D = 0, []


def rtext(backing, ops):
    out = [":R %x" % backing]
    for o in ops:
        k = o[0]
        if k in "orc":
            out.append(":" + k)
        elif k in "dg":
            out.append(":%s %s" % (k, tz(o[1])))
        elif k in "mf":
            out.append(":%s %x" % (k, o[1]))
        else:
            out.append(":%s %x %x" % (k, o[1], o[2]))
    return " ".join(out)


def rparse(s):
    t = s.split()
    assert t[0] == ":R"
    b, i, ops = int(t[1], 16), 2, []
    while i < len(t):
        k = t[i][1]
        if k in "orc":
            ops.append((k,)); i += 1
        elif k in "dg":
            ops.append((k, unz(t[i + 1]))); i += 2
        elif k in "mf":
            ops.append((k, int(t[i + 1], 16))); i += 2
        else:
            ops.append((k, int(t[i + 1], 16), int(t[i + 2], 16))); i += 3
    return b, ops


def rvalid(backing, ops):
    tr = RTrack(backing)
    for o in ops:
        if not tr.ok(o):
            return False
        tr.step(o)
    return True


RSIZES = [1, 2, 4, 7, 8, 9, 16, 40, 200]


def r_under(rng, tr, which, live):
    """one operation of kind `which` on a block handed out earlier (live: slot numbers), as op tuples"""
    if which == "free":
        return [("f", rng.choice(live))]
    if which == "grow":
        return [("y", rng.choice(live), rng.choice([16, 40, 200]))]
    if which == "shrink":
        return [("y", rng.choice(live), rng.choice([1, 2, 4, 7]))]
    if which == "dup":
        return [("s", rng.choice([2, 3]), rng.choice(live))]
    if which == "req":
        return [("m", rng.randrange(4))]
    if which == "renull":                       # realloc(NULL, n): the refused request of just before
        return [("m", rng.randrange(4)), ("y", len(tr.slots), rng.choice(RSIZES))]
    if which == "freenull":
        return [("m", rng.randrange(4)), ("f", len(tr.slots))]
    return []


def gen_rel_product(rng, out, reps):
    under = ["free", "grow", "shrink", "dup", "req", "renull", "freenull"]
    for _ in range(reps):
        for b in (0, 1, 3):
            begins = [("o",)] + [("d", n, extra) for n in range(0, 5) for extra in range(0, 4) if extra <= n + 1]
            if b == 3:
                begins += [("g", j) for j in (1, 2, 3)]
            for how in begins:
                for u in under:
                    nb = rng.randrange(1, 4)
                    ops = [("m", rng.randrange(4)) for _ in range(nb)]
                    if rng.random() < 0.3:       # one of the earlier blocks comes from a realloc / a copy
                        ops.append(rng.choice([("y", 0, rng.choice(RSIZES)), ("s", rng.choice([2, 3]), 0)]))
                    if how[0] == "o":
                        ops.append(("o",))
                    elif how[0] == "d":
                        ops.append(("d", how[1]))
                        # requests until the countdown has (or has just not) reached 0
                        ops += [("m", rng.randrange(4)) for _ in range(max(0, how[1] - 1 + (how[2] - 1)))] if how[1] > 0 else [("m", rng.randrange(4)) for _ in range(how[2])]
                    else:
                        # the designated request is the j-th from now: it fails, the blocks from before are then used
                        ops.append(("g", nb + how[1]))
                        ops += [("m", rng.randrange(4)) for _ in range(how[1])]
                    tr = RTrack(b)
                    good = True
                    for o in ops:
                        if not tr.ok(o):
                            good = False
                            break
                        tr.step(o)
                    if not good:
                        continue
                    live = [i for i, x in enumerate(tr.slots) if x == "L"]
                    if not live:
                        continue

                    def add(which):
                        nonlocal live
                        for o in r_under(rng, tr, which, live):
                            if not tr.ok(o):
                                return
                            ops.append(o); tr.step(o)
                        live = [i for i, x in enumerate(tr.slots) if x == "L"] or [0]
                    add(u)
                    for _ in range(rng.randrange(0, 3)):
                        add(rng.choice(under))
                    # clear the injection (if the domain allows), then the same kinds of operation again
                    clr = ("c",) if how[0] == "g" else ("r",)
                    if how[0] == "g" and rng.random() < 0.3:
                        ops.append(("o",)); tr.step(("o",))
                        add(rng.choice(under))
                        clr = ("r",)
                    if tr.ok(clr):
                        ops.append(clr); tr.step(clr)
                        for _ in range(rng.randrange(1, 4)):
                            add(rng.choice(under))
                    if rvalid(b, ops):
                        out.append(rtext(b, ops))


def gen_rel_soup(rng, out, n):
    for _ in range(n):
        b = rng.choice([0, 1, 3])
        tr = RTrack(b)
        ops = []
        for _ in range(rng.randrange(3, 40)):
            live = [i for i, x in enumerate(tr.slots) if x == "L"]
            nul = [i for i, x in enumerate(tr.slots) if x == "N"]
            c = rng.random()
            oomnow = tr.oom(tr.k)
            if c < (0.12 if oomnow else 0.34):
                o = ("m", rng.randrange(4))
            elif c < 0.50:
                o = ("f", rng.choice(live)) if live and rng.random() < 0.85 else (("f", rng.choice(nul)) if nul else None)
            elif c < 0.66:
                o = ("y", rng.choice(live), rng.choice(RSIZES)) if live and rng.random() < 0.8 else (("y", rng.choice(nul), rng.choice(RSIZES)) if nul else None)
            elif c < 0.74:
                o = ("s", rng.choice([2, 3]), rng.choice(live)) if live else None
            elif c < 0.80:
                o = ("o",)
            elif c < 0.88:
                o = ("d", rng.choice([0, 1, 1, 2, 2, 3, 4, 6, -1, 0x7fffffff]))
            elif c < 0.95:
                o = ("r",)
            elif c < 0.99:
                o = ("g", tr.g + rng.randrange(0, 5))
            else:
                o = ("c",)
            if o is None or not tr.ok(o):
                continue
            ops.append(o); tr.step(o)
        if ops:
            out.append(rtext(b, ops))


def gen_rel(rng, tier, out):
    gen_rel_product(rng, out, 3 if tier == "quick" else 25)
    gen_rel_soup(rng, out, 4000 if tier == "quick" else 40000)


# ---- :T scenarios (the never-done check asked from inside a running test that may already have failed)
class FSim:
    """generator-side copy of the model's pending list (head insertion, walk); only used to know which events a test carries out"""

    def __init__(self):
        self.nodes, self.cur = [], 0

    def step(self, o):
        k = o[0]
        if k == "g":
            self.nodes.insert(0, [o[1], 0, None])
        elif k == "l":
            self.nodes.insert(0, [o[1], 0, o[2]])
        elif k == "a":
            self.cur += 1
            found, keep = False, []
            for nd in self.nodes:
                if nd[2] is not None:
                    f = False
                    if nd[2] == o[2]:
                        nd[1] += 1
                        f = nd[1] == nd[0]
                else:
                    f = self.cur == nd[0]
                if f and not found:
                    found = True
                else:
                    keep.append(nd)
            self.nodes = keep
        elif k == "c":
            self.nodes, self.cur = [], 0


def tsim(pre, phases):
    """events carried out per test function, and per executed check (phase, failures before, kind of the head designation or None)"""
    sim, n, done, asks, left_setup = FSim(), pre, [], [], False
    for ph, evs in enumerate(phases):
        ex = []
        if not (ph == 1 and left_setup):
            for e in evs:
                ex.append(e)
                if e[0] == "+":
                    n += 1
                elif e[0] == "!":
                    n += 1
                    left_setup = left_setup or ph == 0
                    break
                elif e[0] == "k":
                    head = sim.nodes[0] if sim.nodes else None
                    asks.append((ph, n, None if head is None else ("l" if head[2] is not None else "g")))
                    if head is not None:
                        n += 1
                        left_setup = left_setup or ph == 0
                        break
                else:
                    sim.step(e)
        done.append(ex)
    return done, asks


def tfix(phases):
    out = []
    for evs in phases:
        o2 = []
        for e in evs:
            if e[0] == "a" and e[1] in (7, 8) and e[2] != UNKNOWN:
                e = ("a", 5 if e[1] == 7 else 6, e[2])
            o2.append(e)
        out.append(o2)
    return out


def tvalid(pre, phases):
    if pre < 0 or len(phases) != 3:
        return False
    done, _ = tsim(pre, phases)
    return valid_ops([e for ex in done for e in ex if e[0] not in "+!"])


def ttext(pre, phases):
    parts = []
    for evs in phases:
        parts.append(" ".join(ptext([e])[3:] if e[0] not in "+!" else ":" + e[0] for e in evs))
    return " ".join((":T %s " % tz(pre) + " :| ".join(parts)).split())


def tparse(s):
    t = s.split()
    assert t[0] == ":T"
    pre, phases, cur, i = unz(t[1]), [], [], 2
    while i < len(t):
        k = t[i]
        if k == ":|":
            phases.append(cur); cur = []; i += 1
        elif k in (":+", ":!"):
            cur.append((k[1],)); i += 1
        else:
            n = 2 if k == ":g" else 4 if k in (":l", ":a") else 1
            cur += pparse(":F " + " ".join(t[i:i + n])); i += n
    phases.append(cur)
    while len(phases) < 3:
        phases.append([])
    return pre, phases


def gen_test_product(rng, out, reps):
    kinds = ["g", "l", "g-used+l", "l-used+g", "g+l", "all-used", "none"]
    sources = ["none", "plugin", "add", "add3", "fail", "report", "plugin+add", "fail+add"]
    seconds = ["none", "again", "clear-again", "again-later"]
    for _ in range(reps):
        for kind in kinds:
            for src in sources:
                for where in (0, 1, 2):
                    for second in seconds:
                        locs = rng.sample(LOCS[:5], 2)
                        L, M = locs
                        pre = rng.randrange(1, 4) if "plugin" in src else 0
                        ph = [[], [], []]
                        # designations and the requests that use some of them up
                        D = []
                        far = rng.choice([2, 3, 5])
                        if kind == "g":
                            D = [("g", far)] + workload(rng, rng.randrange(0, far), locs)
                        elif kind == "l":
                            D = [("l", far, L)] + [("a", rfam(rng, L), L) for _ in range(rng.randrange(0, far))] + workload(rng, rng.randrange(0, 2), [M])
                        elif kind == "g-used+l":
                            D = [("l", 2, L), ("g", 1), ("a", rfam(rng, M), M)]
                            if rng.random() < 0.5:
                                D = [D[1], D[0], D[2]]
                        elif kind == "l-used+g":
                            D = [("g", 4), ("l", 1, L), ("a", rfam(rng, L), L)]
                            if rng.random() < 0.5:
                                D = [D[1], D[0], D[2]]
                        elif kind == "g+l":
                            D = [("g", rng.choice([1, 3])), ("l", rng.choice([1, 2]), L)]
                            rng.shuffle(D)
                            D += workload(rng, rng.randrange(0, 2), [M]) if D[0][0] == "l" or D[0][1] != 1 and D[1][1] != 1 else []
                        elif kind == "all-used":
                            D = [("g", 1), ("l", 1, L), ("a", rfam(rng, M), M), ("a", rfam(rng, L), L)]
                        pd = rng.randrange(0, where + 1)
                        if src == "report":
                            pd = 0
                        ph[pd] += D
                        # the failures the test has before the check is asked
                        w = where
                        if "add" in src:
                            pa = rng.randrange(pd, w + 1)
                            ph[pa] += [("+",)] * (3 if src == "add3" else rng.choice([1, 1, 2]))
                        if "fail" in src:
                            pf = rng.choice([0, 1])
                            if pf < pd:
                                pf = pd
                            if pf > 1:
                                pf = 1
                                ph[1], ph[2] = ph[2] + ph[1], []
                            ph[pf].append(("!",))
                            w = 2
                        if src == "report":
                            if w == 0:
                                w = rng.choice([1, 2])
                            pr = rng.randrange(0, w)
                            if pr == 0 and w == 1:
                                w = 2           # the body is not run when setup was left
                            ph[pr].append(("k",))
                        ph[w].append(("k",))
                        if second == "again":
                            ph[w].append(("k",))
                        elif second == "clear-again":
                            (ph[w + 1] if w < 2 and not (w == 0) else ph[2]).extend([("c",), ("k",)])
                        elif second == "again-later":
                            ph[2].append(("k",))
                        if rng.random() < 0.3:
                            ph[2] += workload(rng, 1, locs)
                        ph = tfix(ph)
                        if tvalid(pre, ph):
                            out.append(ttext(pre, ph))


def gen_test_soup(rng, out, n):
    for _ in range(n):
        locs = rng.sample(LOCS, rng.choice([1, 2, 2, 3]))
        pre = rng.choice([0, 0, 0, 1, 2, 5])
        ph = []
        for p in range(3):
            evs = []
            for _ in range(rng.randrange(0, 9)):
                c = rng.random()
                if c < 0.15:
                    evs.append(("g", rng.randrange(-1, 8)))
                elif c < 0.30:
                    evs.append(("l", rng.randrange(0, 4), rng.choice(locs)))
                elif c < 0.62:
                    l = rng.choice(locs)
                    evs.append(("a", rfam(rng, l), l))
                elif c < 0.80:
                    evs.append(("k",))
                elif c < 0.92:
                    evs.append(("+",))
                elif c < 0.96:
                    evs.append(("!",))
                else:
                    evs.append(("c",))
            ph.append(evs)
        if rng.random() < 0.5:
            ph[2].append(("k",))
        ph = tfix(ph)
        if tvalid(pre, ph):
            out.append(ttext(pre, ph))


def gen_test(rng, tier, out):
    gen_test_product(rng, out, 4 if tier == "quick" else 30)
    gen_test_soup(rng, out, 2500 if tier == "quick" else 30000)


def generate(tier, rng):
    fops = []
    gen_each_point(rng, 120 if tier == "quick" else 900, fops)
    gen_multi(rng, 6000 if tier == "quick" else 50000, fops)
    gen_soup(rng, 5000 if tier == "quick" else 40000, fops)
    out = []
    for ops in fops:
        ops = fix_families(ops)
        if valid_ops(ops):
            out.append(ptext(ops))
    gen_count(rng, tier, out)
    gen_rel(rng, tier, out)
    gen_test(rng, tier, out)
    return out


def project(obs, flavour):
    """model and implementation are compared on *whether* the check raises; which pending designation the text names (and the
    wording itself) is left to the spec, which accepts any still-pending one."""
    t, out, i = obs.split(), [], 0
    while i < len(t):
        if t[i] == ":G":
            out.append(":Y"); i += 2
        elif t[i] == ":L":
            out.append(":Y"); i += 3
        elif t[i] == ":X":
            out.append(":Y"); i += 1
        elif t[i] == ":A":
            out.append(":A" + t[i + 1]); i += 2
        else:
            out.append(t[i]); i += 1
    return " ".join(out)


def nontrivial(s):
    t = s.split()
    if t[0] == ":F":
        return (":g" in t or ":l" in t) and ":a" in t
    if t[0] == ":R":
        return (":o" in t or ":d" in t or ":g" in t) and ":m" in t and (":f" in t or ":y" in t or ":s" in t)
    if t[0] == ":T":
        pre, ph = tparse(s)
        return (":g" in t or ":l" in t) and bool(tsim(pre, ph)[1])
    return (":o" in t or ":d" in t) and ":m" in t


def classify(s):
    t = s.split()
    if t[0] == ":C":
        return ["C/custom" if t[1] == "1" else "C/default", "C/resets=%d" % min(t.count(":r"), 3)]
    if t[0] == ":T":
        pre, ph = tparse(s)
        done, asks = tsim(pre, ph)
        names = ["setup", "body", "teardown"]
        lab = ["T/plugin-failures=%d" % min(pre, 3), "T/asks=%d" % min(len(asks), 4)]
        for i, (p, n, kind) in enumerate(asks):
            lab.append("T/ask-in-%s/%s/%s" % (names[p], "clean" if n == 0 else "1-failure" if n == 1 else "2+failures",
                                               "nothing-pending" if kind is None else "pending-by-" + ("number" if kind == "g" else "location")))
            if i > 0:
                lab.append("T/asked-again" + ("-after-clear" if any(e[0] == "c" for ex in done for e in ex) else ""))
        if any(e[0] == "!" for ex in done for e in ex):
            lab.append("T/failed-CHECK-left-a-function")
        if any(e[0] == "+" for ex in done for e in ex):
            lab.append("T/addFailure")
        if len(done[0]) < len(ph[0]):
            lab.append("T/setup-left")
        return sorted(set(lab))
    if t[0] == ":R":
        b, ops = rparse(s)
        lab = ["R/backing=%s" % {0: "default", 1: "custom", 3: "failable"}.get(b, b), "R/resets=%d" % min(t.count(":r"), 3)]
        tr = RTrack(b)
        was = False
        for o in ops:
            now = tr.oom(tr.k)
            when = "under-oom" if now else ("after-reset" if was and tr.arm is None else "before")
            if o[0] == "f":
                lab.append("R/free-%s-%s" % ("block" if tr.slots[o[1]] == "L" else "null", when))
            elif o[0] == "y":
                lab.append("R/realloc-%s-%s" % ("block" if tr.slots[o[1]] == "L" else "null", when))
            elif o[0] == "s":
                lab.append("R/dup-%s" % when)
            elif o[0] == "m" and tr.fails() and not tr.oom(tr.k + 1):
                lab.append("R/designated-request")
            elif o[0] == "o":
                lab.append("R/oom-by-set" + ("-over-countdown" if tr.arm not in (None, "o") else ""))
            elif o[0] == "d":
                lab.append("R/oom-by-countdown")
            if o[0] in "ms" and not now and tr.oom(tr.k + 1) and tr.arm != "o":
                lab.append("R/countdown-reaches-0-here")
            was = was or now
            tr.step(o)
        return sorted(set(lab))
    ops = pparse(s)
    nd = sum(1 for o in ops if o[0] in "gl")
    na = sum(1 for o in ops if o[0] == "a")
    nf = sum(1 for _, x in targets(ops) if x is not None)
    lab = ["F/designations=%d" % min(nd, 6), "F/allocs=%s" % ("1-5" if na <= 5 else "6-12" if na <= 12 else "13+"), "F/firing=%d" % min(nf, 5)]
    if any(o[0] == "c" for o in ops):
        lab.append("F/clear")
    if any(o[0] == "k" for o in ops):
        lab.append("F/check")
    locd = {}
    for o in ops:
        if o[0] == "l":
            locd[o[2]] = locd.get(o[2], 0) + 1
    if any(v > 1 for v in locd.values()):
        lab.append("F/several-on-one-location")
    if any(o[0] == "g" for o in ops) and locd:
        lab.append("F/global+local")
    for o in ops:
        if o[0] == "a":
            lab.append("F/fam%d" % o[1])
    return sorted(set(lab))


def signature(s, o):
    t = s.split()
    if o.startswith("!"):
        fam = sorted(set(t[i + 1] for i, x in enumerate(t) if x in (":a", ":m")))
        return "%s crash %s families=%s" % (t[0], o.split("@")[0].strip()[:60], ",".join(fam))
    if t[0] == ":T":
        silent = bool(re.search(r":K (\S+) \1 :n", o))
        return ":T plugin=%s addFailure=%s FAIL=%s by-location=%s %s" % (t[1] != "0", ":+" in t, ":!" in t, ":l" in t, "check-silent" if silent else "other")
    if t[0] == ":C":
        return ":C custom=%s countdown=%s oom=%s" % (t[1], ":d" in t, ":o" in t)
    if t[0] == ":R":
        what = []
        if re.search(r":Q 1", o):
            what.append("free-reports-failure")
        if re.search(r":Y \d 1", o):
            what.append("realloc-reports-failure")
        if re.search(r":E -?[0-9a-f]+ 0", o):
            what.append("not-given-back")
        return ":R backing=%s countdown=%s oom=%s designation=%s %s" % (t[1], ":d" in t, ":o" in t, ":g" in t, ",".join(what) or "other")
    ops = pparse(s)
    locs = [o_[2] for o_ in ops if o_[0] == "l"]
    return ":F global=%s local=%s same-location=%s clear=%s" % (any(x[0] == "g" for x in ops), bool(locs), len(locs) != len(set(locs)),
                                                               any(x[0] == "c" for x in ops))


def shrink(s):
    t = s.split()
    if t[0] == ":C":
        items, i = [], 2
        while i < len(t):
            n = 2 if t[i] in (":d", ":m") else 1
            items.append(" ".join(t[i:i + n])); i += n
        for k in range(len(items)):
            yield " ".join(t[:2] + items[:k] + items[k + 1:])
        return
    if t[0] == ":T":
        pre, ph = tparse(s)
        for p in range(3):
            for k in range(len(ph[p])):
                c = [list(x) for x in ph]
                del c[p][k]
                if tvalid(pre, c):
                    yield ttext(pre, c)
        if pre > 0:
            yield ttext(0, ph)
            yield ttext(pre - 1, ph)
        for p in range(3):
            for k, e in enumerate(ph[p]):
                if e[0] == "a" and e[1] != 0 and e[1] not in (7, 8):
                    c = [list(x) for x in ph]
                    c[p][k] = ("a", 0, e[2])
                    yield ttext(pre, c)
        return
    if t[0] == ":R":
        b, ops = rparse(s)

        def refs(o):
            return o[1] if o[0] in "fy" else (o[2] if o[0] == "s" else None)

        def reslot(o, f):
            return (o[0], f(o[1])) + tuple(o[2:]) if o[0] in "fy" else ((o[0], o[1], f(o[2])) if o[0] == "s" else o)
        for k in range(len(ops)):
            if ops[k][0] in "ms":       # the slot it made goes too: drop its users, renumber the later slots
                sl = sum(1 for x in ops[:k] if x[0] in "ms")
                c = [reslot(x, lambda i: i - 1 if i > sl else i) for j, x in enumerate(ops) if j != k and refs(x) != sl]
            else:
                c = ops[:k] + ops[k + 1:]
            if rvalid(b, c):
                yield rtext(b, c)
        for k, x in enumerate(ops):
            if x[0] == "m" and x[1] != 0:
                yield rtext(b, ops[:k] + [("m", 0)] + ops[k + 1:])
            if x[0] == "y" and x[2] != 16:
                yield rtext(b, ops[:k] + [("y", x[1], 16)] + ops[k + 1:])
            if x[0] == "d" and x[1] > 1 and rvalid(b, ops[:k] + [("d", x[1] - 1)] + ops[k + 1:]):
                yield rtext(b, ops[:k] + [("d", x[1] - 1)] + ops[k + 1:])
        if b != 0 and rvalid(0, [x for x in ops if x[0] not in "gc"]):
            yield rtext(0, [x for x in ops if x[0] not in "gc"])
        return
    ops = pparse(s)
    for k in range(len(ops)):
        c = ops[:k] + ops[k + 1:]
        if valid_ops(c):
            yield ptext(c)
    for k, o in enumerate(ops):          # smaller numbers / simpler family
        if o[0] == "a" and o[1] != 0 and o[1] not in (7, 8):
            yield ptext(ops[:k] + [("a", 0, o[2])] + ops[k + 1:])


LEVEL_TEXT = ("Machine-checked (Coq) theorems over an executable model of FailableMemoryAllocator (pending list with head insertion, "
              "shouldFail, the walk of alloc_memory with its counters, checkAllFailedAllocsWereDone, clearFailedAllocs) and of the C-level "
              "countdown / set_out_of_memory / saved allocator: for all designation sets that denote pairwise different allocations and all "
              "allocation histories the failing allocations are exactly the designated ones (designated = defined by counting the history, "
              "independent of the list), the never-done check raises iff a designation still waits and names one that does, clear restores "
              "the fresh behaviour, countdown n fails exactly the allocations i with 0<=n<=i until reset and reset restores the saved "
              "allocator, failed allocations are delivered as NULL/bad_alloc; and, with the saved allocator / stand-in pair of "
              "TestHarness_c.cpp as three explicit variables and every tracked block remembering its allocator, for all valid interleavings of "
              "requests, releases, reallocs, copies from a block, armings, resets and index designations on a failable allocator: no release and "
              "no realloc raises a failure, a released block reaches the allocator it came from, realloc returns NULL exactly while out-of-memory "
              "is simulated and then changes nothing, the refused requests are exactly those told by counting, and after a reset the run continues "
              "as from a state in which nothing was ever injected; and for the check asked from setup / body / teardown of a running test with ANY "
              "number of failures already recorded (t_n, quantified): a waiting designation is reported as exactly one more failure naming the head of the "
              "list, nothing waiting changes nothing, the requests and reports of the test are those of the plain history of the events it carried out "
              "and do not depend on the failures recorded before (the variant that keeps quiet once the test has failed is refuted). Tied to the code by a differential run of the extracted model "
              "against the real classes with every allocation point of generated workloads designated in turn, the extracted spec judging "
              "the implementation's observations.")
LEVEL_NOTE = ("Trusted: Coq kernel, extraction (ExtrOcamlBasic), harness and generators. Modelled not verified: the C++ itself; int overflow of "
              "the counters (needs 2^31 allocations) and NULL file names are excluded by assumption. The pre-repair code (D6 global fall-through "
              "of location nodes, D7 walk stopping at the first firing node, D5 strdup/strndup copying into NULL) is kept as *_old with "
              "refutation lemmas; so is the code before 4104eb1 (the Null allocator stood in on the release path too: resolve_old, "
              "C15_release_old_refuted with the witness malloc; set_out_of_memory; free). strdup/strndup under out-of-memory are exercised only "
              "when ENABLE_STRDUP_OOM is set (after the D5 repair). In :R scenarios the failure reporter of the private detector records and "
              "returns (a real test would leave the function at the first report); realloc is modelled as the code has it: not a request "
              "counted by the countdown or by the failable allocator. In :T scenarios plugin failures are added through TestResult::addFailure "
              "(they raise the count but do not set UtestShell::hasFailed_), addFailure / FAIL / the report itself go through the test shell.")
TECHNIQUE = "Coq proof (simulation invariant between the pending list and a counting definition of 'designated') over a hand-written executable model + extracted-model/implementation correspondence check with fault enumeration over every allocation point"
PER_TIMEOUT = 20.0
CRASH_IS_VIOLATION = True
READY = True
