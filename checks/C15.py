"""C15 -- injected out-of-memory hits exactly the designated allocations.
Scenario  :F <op>*          op  ::= :g n | :l n $file line | :a fam $file line | :k | :c
                            (failAllocNumber | failNthAllocAt | one allocation request | checkAllFailedAllocsWereDone | clearFailedAllocs)
                            fam: 0 alloc_memory 1 malloc 2 calloc 3 strdup 4 strndup 5 new 6 new[] 7 nothrow new 8 nothrow new[]
          :C custom <cop>*  cop ::= :o | :r | :d n | :m fam    (set_out_of_memory | set_not_out_of_memory | countdown n | malloc/calloc/strdup/strndup)
Observation: one item per allocation (0 block, 1 NULL, 2 bad_alloc), per check (:n passes | :G n | :L $file line = what the
failure names) and per reset (:A 0 default / 1 the test's allocator / 2 null allocator is current afterwards)."""
from vlib import tz, tb
ID = "C15"
FLAVOURS = ["asan"]
HARNESS_SRCS = ["harness/C15.cpp"]
# D5 (cpputest_strdup/strndup copy into NULL when their malloc fails) is repaired by the owner of C05.  Until that `fix:`
# commit is in /repo a strdup/strndup whose allocation is the failing one crashes the harness; those scenarios form a
# separate stream that is switched on here once the repair has landed.
ENABLE_STRDUP_OOM = True    # d6577f6 (fix: cpputest_strdup/strndup return NULL ...) is in /repo
RULE = ("(1) every allocation point of generated workloads (1-25 requests over 3 of 6 locations sharing files/lines/name prefixes, 9 allocator "
        "families) taken in turn as the designated one, by global index and by location x local index, installed at the start or mid-way; "
        "(2) 1-5 designations (global/local, every installation order and point, several on one location, never-firing ones: n<=0, n beyond "
        "the history, global index already passed, location never used) with checks and clears interleaved; (3) random operation soup filtered "
        "by the precondition; (4) countdown -1..13 x 0..15 requests x wrapper families, set_out_of_memory, 1-3 arm/reset segments with and "
        "without a test-installed allocator. non-trivial = at least one designation (or arming) and one allocation; distinct by text")
ASSUMPTIONS = ["designations denote pairwise different allocations (checked per scenario by the extracted `valid`)",
               "file names are non-NULL C strings, numbers fit an int, fewer than 2^31 allocations",
               "C level: out-of-memory is armed from a not-out-of-memory state, at most one arming between two resets; a reset issued "
               "before out-of-memory was reached while a test-installed malloc allocator is current is outside the domain (it installs the default allocator)"]
UNKNOWN = (b"<unknown>", 0)
LOCS = [(b"a.c", 10), (b"a.c", 20), (b"b.c", 10), (b"a.cc", 10), (b"dir/a.c", 20), UNKNOWN]
FAMS_LOC = [0, 1, 2, 3, 4, 5, 6]


# ---- scenario text <-> tuples
def ptext(ops):
    out = [":F"]
    for o in ops:
        if o[0] == "g":
            out.append(":g " + tz(o[1]))
        elif o[0] == "l":
            out.append(":l %s %s %x" % (tz(o[1]), tb(o[2][0]), o[2][1]))
        elif o[0] == "a":
            out.append(":a %x %s %x" % (o[1], tb(o[2][0]), o[2][1]))
        else:
            out.append(":" + o[0])
    return " ".join(out)


def unz(t):
    return -int(t[1:], 16) if t.startswith("-") else int(t, 16)


def pparse(s):
    t = s.split()
    assert t[0] == ":F"
    i, ops = 1, []
    while i < len(t):
        k = t[i]
        if k == ":g":
            ops.append(("g", unz(t[i + 1]))); i += 2
        elif k == ":l":
            ops.append(("l", unz(t[i + 1]), (bytes.fromhex(t[i + 2][1:]), int(t[i + 3], 16)))); i += 4
        elif k == ":a":
            ops.append(("a", int(t[i + 1], 16), (bytes.fromhex(t[i + 2][1:]), int(t[i + 3], 16)))); i += 4
        else:
            ops.append((k[1:],)); i += 1
    return ops


# ---- generator-side copy of the counting definition (only used to build valid scenarios; the judge is the extracted spec)
def find_nth(match, n, ops, start):
    for q in range(start, len(ops)):
        o = ops[q]
        if o[0] == "c":
            return None
        if o[0] == "a" and match(o[2]):
            if n == 1:
                return q
            n -= 1
    return None


def targets(ops):
    g, res = 0, []
    for p, o in enumerate(ops):
        if o[0] == "g":
            res.append((p, find_nth(lambda l: True, o[1] - g, ops, p + 1)))
        elif o[0] == "l":
            res.append((p, find_nth(lambda l, L=o[2]: l == L, o[1], ops, p + 1)))
        elif o[0] == "a":
            g += 1
        elif o[0] == "c":
            g = 0
    return res


def fix_families(ops):
    """nothrow families only at <unknown>:0; strdup/strndup not as a failing request unless the D5 repair is in."""
    hit = set(t for _, t in targets(ops) if t is not None)
    out = []
    for q, o in enumerate(ops):
        if o[0] == "a":
            f = o[1]
            if f in (7, 8) and o[2] != UNKNOWN:
                f = 5 if f == 7 else 6
            if f in (3, 4) and q in hit and not ENABLE_STRDUP_OOM:
                f = 1
            o = ("a", f, o[2])
        out.append(o)
    return out


def valid_ops(ops):
    ts = [t for _, t in targets(ops) if t is not None]
    return len(ts) == len(set(ts))


def rfam(rng, loc):
    if loc == UNKNOWN and rng.random() < 0.5:
        return rng.choice([7, 8])
    return rng.choice(FAMS_LOC)


def workload(rng, m, locs):
    w = []
    for _ in range(m):
        l = rng.choice(locs)
        w.append(("a", rfam(rng, l), l))
    return w


def gen_each_point(rng, nwork, out):
    for _ in range(nwork):
        locs = rng.sample(LOCS, 3)
        m = rng.choice([1, 2, 3, 4, 5, 6, 8, 12, 25]) if rng.random() < 0.5 else rng.randrange(1, 26)
        w = workload(rng, m, locs)
        for i in range(m):
            L = w[i][2]
            j = rng.randrange(0, i + 1)            # installed before request j
            klocal0 = sum(1 for x in w[:i + 1] if x[2] == L)
            klocalj = sum(1 for x in w[j:i + 1] if x[2] == L)
            tail = [("k",)] if rng.random() < 0.7 else []
            out.append([("g", i + 1)] + w + tail)
            out.append([("l", klocal0, L)] + w + tail)
            out.append(w[:j] + [("g", i + 1)] + w[j:i] + ([("k",)] if rng.random() < 0.3 else []) + w[i:] + tail)
            out.append(w[:j] + [("l", klocalj, L)] + w[j:i] + ([("k",)] if rng.random() < 0.3 else []) + w[i:] + tail)


def segment(rng, locs):
    m = rng.randrange(1, 26) if rng.random() < 0.3 else rng.randrange(1, 9)
    w = workload(rng, m, locs if rng.random() < 0.7 else locs[:1])
    d = rng.randrange(1, 6)
    tg = rng.sample(range(m), min(d, m))
    inst = {}
    for t in tg:
        ib = rng.randrange(0, t + 1) if rng.random() < 0.6 else 0
        L = w[t][2]
        if rng.random() < 0.5:
            des = ("g", t + 1)
        else:
            des = ("l", sum(1 for x in w[ib:t + 1] if x[2] == L), L)
        inst.setdefault(ib, []).append(des)
    for _ in range(rng.choice([0, 0, 1, 2])):   # designations that never fire
        ib = rng.randrange(0, m + 1)
        c = rng.randrange(5)
        if c == 0:
            des = ("g", rng.choice([0, -1, m + 1, m + 7, 0x7fffffff, -0x80000000]))
        elif c == 1:
            des = ("g", rng.randrange(0, ib + 1))           # global index already passed
        elif c == 2:
            des = ("l", rng.choice([0, -1, m + 1, 1000]), rng.choice(locs))
        elif c == 3:
            des = ("l", rng.randrange(1, 4), rng.choice([l for l in LOCS if l not in locs] or LOCS))
        else:
            des = ("l", 26, rng.choice(locs))
        inst.setdefault(ib, []).append(des)
    ops = []
    for i in range(m + 1):
        ds = inst.get(i, [])
        rng.shuffle(ds)
        ops += ds
        if rng.random() < 0.15:
            ops.append(("k",))
        if i < m:
            ops.append(w[i])
    if rng.random() < 0.6:
        ops.append(("k",))
    return ops


def gen_multi(rng, n, out):
    for _ in range(n):
        locs = rng.sample(LOCS, 3)
        ops = segment(rng, locs)
        while rng.random() < 0.3:
            ops += [("c",)] + (segment(rng, locs) if rng.random() < 0.8 else workload(rng, rng.randrange(1, 5), locs) + [("k",)])
        out.append(ops)


def gen_soup(rng, n, out):
    for _ in range(n):
        locs = rng.sample(LOCS, rng.choice([1, 2, 2, 3]))
        ops = []
        for _ in range(rng.randrange(1, 30)):
            c = rng.random()
            if c < 0.12:
                ops.append(("g", rng.randrange(-1, 8)))
            elif c < 0.27:
                ops.append(("l", rng.randrange(0, 5), rng.choice(locs)))
            elif c < 0.85:
                l = rng.choice(locs)
                ops.append(("a", rfam(rng, l), l))
            elif c < 0.95:
                ops.append(("k",))
            else:
                ops.append(("c",))
        out.append(ops)


def cfam_ok(rng, fails):
    return rng.choice([0, 1]) if (fails and not ENABLE_STRDUP_OOM) else rng.randrange(4)


def cseg(rng, arm, k, custom):
    """one arm / allocate / reset segment; arm = 'o' | n (countdown) | None"""
    toks = []
    if arm == "o":
        toks.append(":o")
    elif arm is not None:
        toks.append(":d " + tz(arm))
    reached = False
    for i in range(1, k + 1):
        fails = arm == "o" or (arm is not None and 0 <= arm <= i)
        toks.append(":m %x" % cfam_ok(rng, fails))
    reached = arm == "o" or (arm is not None and 0 <= arm <= k)
    return toks, reached


def gen_count(rng, tier, out):
    for n in range(-2, 14):
        for k in range(0, 16):
            toks, reached = cseg(rng, n, k, False)
            custom = 1 if (reached and (n + k) % 2 == 0) else 0
            after = [":r"] + [":m %x" % rng.randrange(4) for _ in range(rng.randrange(0, 3))]
            out.append(":C %x " % custom + " ".join(toks + after))
    for k in range(0, 6):
        for custom in (0, 1):
            toks, _ = cseg(rng, "o", k, custom)
            out.append(":C %x " % custom + " ".join(toks + [":r", ":m 0", ":m %x" % rng.randrange(4)]))
    for _ in range(1500 if tier == "quick" else 8000):
        custom = rng.randrange(2)
        toks = [":m %x" % rng.randrange(4) for _ in range(rng.randrange(0, 3))]
        for _ in range(rng.randrange(1, 4)):
            arm = rng.choice(["o", None] + list(range(-1, 8)) + [0x7fffffff, -0x80000000])
            k = rng.randrange(0, 10)
            t, reached = cseg(rng, arm, k, custom)
            if custom and not reached:
                # make it reach out-of-memory before the reset (domain), or do not reset
                if rng.random() < 0.5 or arm is None or (arm != "o" and arm < 0) or arm == 0x7fffffff:
                    toks += t
                    break
                extra = arm - k
                t += [":m %x" % cfam_ok(rng, i == extra - 1) for i in range(extra)]
            toks += t + [":r"] + [":m %x" % rng.randrange(4) for _ in range(rng.randrange(0, 3))]
        out.append(":C %x " % custom + " ".join(toks))


def generate(tier, rng):
    fops = []
    gen_each_point(rng, 120 if tier == "quick" else 900, fops)
    gen_multi(rng, 6000 if tier == "quick" else 50000, fops)
    gen_soup(rng, 5000 if tier == "quick" else 40000, fops)
    out = []
    for ops in fops:
        ops = fix_families(ops)
        if valid_ops(ops):
            out.append(ptext(ops))
    gen_count(rng, tier, out)
    return out


def project(obs, flavour):
    """model and implementation are compared on *whether* the check raises; which pending designation the text names (and the
    wording itself) is left to the spec, which accepts any still-pending one."""
    t, out, i = obs.split(), [], 0
    while i < len(t):
        if t[i] == ":G":
            out.append(":Y"); i += 2
        elif t[i] == ":L":
            out.append(":Y"); i += 3
        elif t[i] == ":X":
            out.append(":Y"); i += 1
        elif t[i] == ":A":
            out.append(":A" + t[i + 1]); i += 2
        else:
            out.append(t[i]); i += 1
    return " ".join(out)


def nontrivial(s):
    t = s.split()
    if t[0] == ":F":
        return (":g" in t or ":l" in t) and ":a" in t
    return (":o" in t or ":d" in t) and ":m" in t


def classify(s):
    t = s.split()
    if t[0] == ":C":
        return ["C/custom" if t[1] == "1" else "C/default", "C/resets=%d" % min(t.count(":r"), 3)]
    ops = pparse(s)
    nd = sum(1 for o in ops if o[0] in "gl")
    na = sum(1 for o in ops if o[0] == "a")
    nf = sum(1 for _, x in targets(ops) if x is not None)
    lab = ["F/designations=%d" % min(nd, 6), "F/allocs=%s" % ("1-5" if na <= 5 else "6-12" if na <= 12 else "13+"), "F/firing=%d" % min(nf, 5)]
    if any(o[0] == "c" for o in ops):
        lab.append("F/clear")
    if any(o[0] == "k" for o in ops):
        lab.append("F/check")
    locd = {}
    for o in ops:
        if o[0] == "l":
            locd[o[2]] = locd.get(o[2], 0) + 1
    if any(v > 1 for v in locd.values()):
        lab.append("F/several-on-one-location")
    if any(o[0] == "g" for o in ops) and locd:
        lab.append("F/global+local")
    for o in ops:
        if o[0] == "a":
            lab.append("F/fam%d" % o[1])
    return sorted(set(lab))


def signature(s, o):
    t = s.split()
    if o.startswith("!"):
        fam = sorted(set(t[i + 1] for i, x in enumerate(t) if x in (":a", ":m")))
        return "%s crash %s families=%s" % (t[0], o.split("@")[0].strip()[:60], ",".join(fam))
    if t[0] == ":C":
        return ":C custom=%s countdown=%s oom=%s" % (t[1], ":d" in t, ":o" in t)
    ops = pparse(s)
    locs = [o_[2] for o_ in ops if o_[0] == "l"]
    return ":F global=%s local=%s same-location=%s clear=%s" % (any(x[0] == "g" for x in ops), bool(locs), len(locs) != len(set(locs)),
                                                               any(x[0] == "c" for x in ops))


def shrink(s):
    t = s.split()
    if t[0] == ":C":
        items, i = [], 2
        while i < len(t):
            n = 2 if t[i] in (":d", ":m") else 1
            items.append(" ".join(t[i:i + n])); i += n
        for k in range(len(items)):
            yield " ".join(t[:2] + items[:k] + items[k + 1:])
        return
    ops = pparse(s)
    for k in range(len(ops)):
        c = ops[:k] + ops[k + 1:]
        if valid_ops(c):
            yield ptext(c)
    for k, o in enumerate(ops):          # smaller numbers / simpler family
        if o[0] == "a" and o[1] != 0 and o[1] not in (7, 8):
            yield ptext(ops[:k] + [("a", 0, o[2])] + ops[k + 1:])


LEVEL_TEXT = ("Machine-checked (Coq) theorems over an executable model of FailableMemoryAllocator (pending list with head insertion, "
              "shouldFail, the walk of alloc_memory with its counters, checkAllFailedAllocsWereDone, clearFailedAllocs) and of the C-level "
              "countdown / set_out_of_memory / saved allocator: for all designation sets that denote pairwise different allocations and all "
              "allocation histories the failing allocations are exactly the designated ones (designated = defined by counting the history, "
              "independent of the list), the never-done check raises iff a designation still waits and names one that does, clear restores "
              "the fresh behaviour, countdown n fails exactly the allocations i with 0<=n<=i until reset and reset restores the saved "
              "allocator, failed allocations are delivered as NULL/bad_alloc. Tied to the code by a differential run of the extracted model "
              "against the real classes with every allocation point of generated workloads designated in turn, the extracted spec judging "
              "the implementation's observations.")
LEVEL_NOTE = ("Trusted: Coq kernel, extraction (ExtrOcamlBasic), harness and generators. Modelled not verified: the C++ itself; int overflow of "
              "the counters (needs 2^31 allocations) and NULL file names are excluded by assumption. The pre-repair code (D6 global fall-through "
              "of location nodes, D7 walk stopping at the first firing node, D5 strdup/strndup copying into NULL) is kept as *_old with "
              "refutation lemmas. strdup/strndup under out-of-memory are exercised only when ENABLE_STRDUP_OOM is set (after the D5 repair).")
TECHNIQUE = "Coq proof (simulation invariant between the pending list and a counting definition of 'designated') over a hand-written executable model + extracted-model/implementation correspondence check with fault enumeration over every allocation point"
PER_TIMEOUT = 20.0
CRASH_IS_VIOLATION = True
READY = True
