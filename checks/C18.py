"""C18 -- string buffer cache never aliases live buffers and gives everything back.
Scenario:  <via> op*   with  op ::= :a <n> | :d <k> <n> | :f <k> <n> | :cc | :ca
  :a n      alloc(n)                       :d k n   dealloc(pointer returned by the k-th :a, n)
  :f k n    dealloc(foreign buffer k, n)   :cc      clearCache        :ca   clearAllIncludingCurrentlyUsedMemory
  via = 1 routes alloc/dealloc through SimpleStringCacheAllocator.  Construction precedes, destruction follows the ops.
Observation: one item per step (construction, each op, destruction):
  :i <nev> (:A <id> <sz> | :F <id> <sz>)* (~ | :r <id> <off>) <warn>"""
ID = "C18"
FLAVOURS = ["asan"]
HARNESS_SRCS = ["harness/C18.cpp"]
CLASSES = [32, 64, 96, 128, 256]      # only steers the generator; the model reads sizes and bound from the source
BOUND = 256
EDGE = [0, 1, 31, 32, 33, 63, 64, 65, 95, 96, 97, 127, 128, 129, 255, 256, 257, 1024]
RULE = ("histories of 1-300 operations over sizes {0,1,31,32,33,63,64,65,95,96,97,127,128,129,255,256,257,1024} + random 0..1100: "
        "phases that fill one or two size classes (or the non-cached list) with 2-8 live buffers, release them in random order "
        "(head, interior, last), re-allocate (reuse), with releases of a wrong size in the same class, in another class, across the "
        "cached bound, double releases, releases of dangling pointers (after clearCache/clearAll/non-cached release) and of foreign "
        "buffers, clearCache / clearAll interleaved; plus exhaustive small histories (every release order of 3 and 4 buffers of one "
        "class, every boundary size pair).  non-trivial = at least two allocs and one release or clear")
ASSUMPTIONS = ["a released pointer refers to readable NUL-terminated memory (the one-time warning prints it with %s by design); the harness keeps "
               "blocks given back to the underlying allocator readable for exactly such a release and poisons them otherwise",
               "the underlying allocator never fails and never returns an address twice within a history (pointer equality = block identity)",
               "an owner clears the cache before destroying it (as GlobalSimpleStringCache does): the bare destructor gives back only the node array",
               "the size argument seen by the underlying free of the node array is not observable at the PlatformSpecificFree seam"]
CRASH_IS_VIOLATION = True
PER_TIMEOUT = 30.0


def cls(n):
    if n > BOUND:
        return len(CLASSES)
    for i, s in enumerate(CLASSES):
        if n <= s:
            return i
    return len(CLASSES)


def size_in_class(rng, c):
    if c >= len(CLASSES):
        return rng.choice([BOUND + 1, BOUND + 2, 300, 1024, rng.randrange(BOUND + 1, 1100)])
    lo = 0 if c == 0 else CLASSES[c - 1] + 1
    hi = CLASSES[c]
    return rng.choice([lo, hi, hi - 1, lo + 1, rng.randrange(lo, hi + 1)])


class Ref:
    """textbook cache used to steer generation and to name the first divergence in signatures (ids = allocation ordinals)"""

    def __init__(self):
        self.free = [[] for _ in CLASSES]
        self.used = [[] for _ in CLASSES]
        self.non = []
        self.warned = False
        self.nx = 1
        self.ptrs = []          # per :a the block id
        self.req = []           # per :a the requested size

    def new(self):
        b = self.nx + 1
        self.nx += 2
        return b

    def alloc(self, n):
        c = cls(n)
        if c < len(CLASSES):
            if self.free[c]:
                b = self.free[c].pop(0)
            else:
                b = self.new()
            self.used[c].insert(0, b)
        else:
            b = self.new()
            self.non.insert(0, b)
        self.ptrs.append(b)
        self.req.append(n)
        return b

    def dealloc(self, b, n):
        """-> 'head' | 'interior' | 'unknown'"""
        c = cls(n)
        lst = self.used[c] if c < len(CLASSES) else self.non
        if b is not None and b in lst:
            pos = lst.index(b)
            lst.remove(b)
            if c < len(CLASSES):
                self.free[c].insert(0, b)
            return "head" if pos == 0 else "interior"
        self.warned = True
        return "unknown"

    def clear_cache(self):
        self.free = [[] for _ in CLASSES]

    def clear_all(self):
        self.free = [[] for _ in CLASSES]
        self.used = [[] for _ in CLASSES]
        self.non = []

    def live(self):
        return [b for u in self.used for b in u] + list(self.non)


def gen_history(rng, nops, focus=None):
    r = Ref()
    ops = []
    if focus is None:
        k = rng.choice([1, 1, 2, 2, 3, 6])
        focus = rng.sample(range(len(CLASSES) + 1), k)

    def pick_size():
        if rng.random() < 0.15:
            return rng.choice(EDGE + [rng.randrange(0, 1100)])
        return size_in_class(rng, rng.choice(focus))

    def live_allocs():
        lv = set(r.live())
        # the latest :a that returned each live block
        last = {}
        for i, b in enumerate(r.ptrs):
            if b in lv:
                last[b] = i
        return sorted(last.values())

    while len(ops) < nops:
        c = rng.random()
        la = live_allocs()
        if c < 0.42 or not r.ptrs:
            for _ in range(rng.choice([1, 1, 1, 2, 3, 5])):
                n = pick_size()
                r.alloc(n)
                ops.append(":a %x" % n)
        elif c < 0.80 and la:
            for _ in range(rng.choice([1, 1, 2, 3, 4])):
                la = live_allocs()
                if not la:
                    break
                k = rng.choice(la)
                n0 = r.req[k]
                m = rng.random()
                if m < 0.55:
                    n = n0
                elif m < 0.80:
                    n = size_in_class(rng, cls(n0))                  # wrong size, same class
                elif m < 0.92:
                    n = size_in_class(rng, rng.randrange(len(CLASSES) + 1))   # any class
                else:
                    n = rng.choice(EDGE)
                r.dealloc(r.ptrs[k], n)
                ops.append(":d %x %x" % (k, n))
        elif c < 0.86:
            k = rng.randrange(len(r.ptrs))                           # any earlier pointer: double release, dangling, stale
            n = r.req[k] if rng.random() < 0.7 else pick_size()
            r.dealloc(r.ptrs[k] if r.ptrs[k] in r.live() else None, n)
            ops.append(":d %x %x" % (k, n))
        elif c < 0.91:
            n = pick_size()
            r.dealloc(None, n)
            ops.append(":f %x %x" % (rng.randrange(4), n))
        elif c < 0.96:
            r.clear_cache()
            ops.append(":cc")
        else:
            r.clear_all()
            ops.append(":ca")
    if rng.random() < 0.6:
        ops.append(":ca")
    return "%x %s" % (rng.randrange(2), " ".join(ops[:nops + 1]))


def exhaustive():
    import itertools
    out = []
    # every release order of 3 and 4 buffers of one class, then as many allocs again (reuse order), in two classes and non-cached
    for sz in (10, 64, 256, 300):
        for k in (1, 2, 3, 4):
            for perm in itertools.permutations(range(k)):
                ops = [":a %x" % sz] * k + [":d %x %x" % (i, sz) for i in perm] + [":a %x" % sz] * k
                out.append("0 " + " ".join(ops))
                out.append("1 " + " ".join(ops + [":cc"]))
            # release only one position, then clearAll
            for i in range(k):
                out.append("0 " + " ".join([":a %x" % sz] * k + [":d %x %x" % (i, sz), ":cc", ":ca"]))
    # every boundary size alone and released with every boundary size
    for a in EDGE:
        out.append("0 :a %x" % a)
        out.append("1 :a %x :ca" % a)
        for d in EDGE:
            out.append("0 :a %x :d 0 %x :a %x :ca" % (a, d, a))
    # foreign buffers: first and second unknown release, small and large size
    for n in (0, 32, 123, 256, 257, 12345):
        out.append("0 :f 0 %x :f 0 %x :f 1 %x" % (n, n, n))
        out.append("1 :a 20 :f 2 %x :d 0 20 :f 3 %x :ca" % (n, n))
    return out


def generate(tier, rng):
    out = exhaustive()
    if tier == "quick":
        plan = [(900, 1, 14), (500, 10, 40), (60, 60, 300)]
    else:
        plan = [(30000, 1, 14), (30000, 8, 40), (15000, 30, 90), (1500, 100, 300)]
    for count, lo, hi in plan:
        for _ in range(count):
            out.append(gen_history(rng, rng.randrange(lo, hi + 1)))
    return out


def split_ops(s):
    t = s.split()
    ops, cur = [], []
    for x in t[1:]:
        if x.startswith(":") and cur:
            ops.append(cur)
            cur = []
        cur.append(x)
    if cur:
        ops.append(cur)
    return t[0], ops


def nontrivial(s):
    _, ops = split_ops(s)
    return sum(1 for o in ops if o[0] == ":a") >= 2 and any(o[0] in (":d", ":f", ":cc", ":ca") for o in ops)


def replay_ref(s):
    """-> list of (op, kind) with kind in alloc-new / alloc-reuse / head / interior / unknown-first / unknown-again / cc / ca"""
    _, ops = split_ops(s)
    r = Ref()
    res = []
    for o in ops:
        if o[0] == ":a":
            n = int(o[1], 16)
            c = cls(n)
            reuse = c < len(CLASSES) and bool(r.free[c])
            r.alloc(n)
            res.append((o, "alloc-reuse" if reuse else ("alloc-new" if c < len(CLASSES) else "alloc-noncached")))
        elif o[0] in (":d", ":f"):
            n = int(o[2], 16)
            b = None
            if o[0] == ":d":
                k = int(o[1], 16)
                b = r.ptrs[k] if k < len(r.ptrs) else None
            w = r.warned
            kind = r.dealloc(b, n)
            if kind == "unknown":
                kind = "unknown-again" if w else "unknown-first"
            elif cls(n) >= len(CLASSES):
                kind += "-noncached"
            res.append((o, kind))
        elif o[0] == ":cc":
            r.clear_cache()
            res.append((o, "cc"))
        elif o[0] == ":ca":
            r.clear_all()
            res.append((o, "ca"))
    return res


def classify(s):
    via, ops = split_ops(s)
    lab = ["via:" + via]
    n = len(ops)
    lab.append("ops:" + ("1-5" if n <= 5 else "6-20" if n <= 20 else "21-60" if n <= 60 else ">60"))
    kinds = set(k for _, k in replay_ref(s))
    lab += sorted(kinds)
    sizes = set(int(o[1], 16) for o in ops if o[0] == ":a")
    if sizes & set(CLASSES):
        lab.append("size=class-size")
    if sizes & set(x + 1 for x in CLASSES):
        lab.append("size=class-size+1")
    if 0 in sizes:
        lab.append("size=0")
    return lab


def items(o):
    res, cur = [], []
    for x in o.split():
        if x == ":i" and cur:
            res.append(cur)
            cur = []
        cur.append(x)
    if cur:
        res.append(cur)
    return res


def signature(s, o):
    """coarse: the kind of the first operation whose observation departs from the textbook cache"""
    if o.startswith("!"):
        return "crash " + o[:70]
    try:
        its = items(o)
        rr = replay_ref(s)
        # textbook expectation per op, compared on (has events, returned id, warn)
        r = Ref()
        for i, (op, kind) in enumerate(rr):
            it = its[i + 1]
            nev = int(it[1], 16)
            tail = it[2 + 3 * nev:]
            warn = tail[-1]
            if op[0] == ":a":
                b = r.alloc(int(op[1], 16))
                if tail[0] != ":r" or int(tail[1], 16) != b or int(tail[2], 16) != 0 or (nev != 0) != kind.startswith("alloc-n"):
                    return "first divergence at %s" % kind
            else:
                if op[0] in (":d", ":f"):
                    bb = None
                    if op[0] == ":d":
                        bb = r.ptrs[int(op[1], 16)]
                    r.dealloc(bb, int(op[2], 16))
                    if (warn == "1") != (kind == "unknown-first"):
                        return "first divergence at %s (warning)" % kind
                    if (nev != 0) != kind.endswith("-noncached"):
                        return "first divergence at %s (allocator calls)" % kind
                elif op[0] == ":cc":
                    r.clear_cache()
                else:
                    r.clear_all()
        return "later effect (balance / clear / destruction)"
    except Exception:
        return "malformed observation"


def fmt(via, ops):
    return (via + " " + " ".join(" ".join(o) for o in ops)).strip()


def shrink(s):
    via, ops = split_ops(s)
    # drop one op (dropping an :a renumbers later releases and drops the releases of that alloc)
    for i in range(len(ops) - 1, -1, -1):
        if ops[i][0] != ":a":
            yield fmt(via, ops[:i] + ops[i + 1:])
        else:
            k = sum(1 for o in ops[:i] if o[0] == ":a")
            new = []
            for j, o in enumerate(ops):
                if j == i:
                    continue
                if o[0] == ":d":
                    kk = int(o[1], 16)
                    if kk == k:
                        continue
                    if kk > k:
                        o = [":d", "%x" % (kk - 1), o[2]]
                new.append(o)
            yield fmt(via, new)
    if via != "0":
        yield fmt("0", ops)


LEVEL_TEXT = ("Machine-checked (Coq) theorems over an executable model of SimpleStringInternalCache (five size classes read from the source, "
              "free/used lists with head insertion, head/interior unlink, non-cached list, one-time warning flag, clearCache, clearAll, "
              "constructor/destructor) with the underlying allocator as an oracle of fresh block ids: for every history, all blocks in all "
              "lists are distinct, an alloc never returns a buffer in use, capacity >= request, reuse only within the size class, an unknown "
              "release changes nothing and warns once, and after clearAll (+destruction) every block obtained has been given back exactly "
              "once with its size. Tied to the code by a differential run against the real cache over a recording allocator, judged by the "
              "extracted model-free spec.")
LEVEL_NOTE = ("Partial for memory safety: real accesses are seen only by ASan (blocks given back are poisoned). Trusted: Coq kernel, extraction, "
              "harness, generator. Modelled not verified: the C++ itself. Class sizes, bound, node count and struct sizes are re-read from the "
              "source on every run. The bare destructor does not walk the lists (documented limit: owners clear first).")
TECHNIQUE = "Coq proof over hand-written executable model + extracted-model/implementation correspondence check (differential, exhaustive small histories)"
READY = True
