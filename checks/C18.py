"""C18 -- string buffer cache never aliases live buffers and gives everything back.
Scenario:  <via> op*   with  op ::= :a <n> | :d <k> <n> | :f <k> <n> | :cc | :ca
  :a n      alloc(n)                       :d k n   dealloc(pointer returned by the k-th :a, n)
  :f k n    dealloc(foreign buffer k, n)   :cc      clearCache        :ca   clearAllIncludingCurrentlyUsedMemory
  via = 1 routes alloc/dealloc through SimpleStringCacheAllocator.  Construction precedes, destruction follows the ops.
Observation: one item per step (construction, each op, destruction):
  :i <nev> (:A <id> <sz> | :F <id> <sz>)* (~ | :r <id> <off>) <warn>

Installed scenarios (first token 2; coq/C18_ModelG.v):  2 gop*  with
  gop ::= :a <n> | :s <n> | :d <k> <n> | :f <k> <n> | :cc | :ca | :gi | :go
  :gi constructs a GlobalSimpleStringCache on top of what is installed, :go destroys the most recent one (objects still alive at
  the end are destroyed innermost first); :a / :d / :f go to the string allocator in force (the recording allocator when nothing
  is installed), :s n is a SimpleString with a buffer of n bytes, :cc / :ca clear the innermost object's cache.
Observation: one item per op and per final destruction:
  :j <nev> (:A <id> <sz> | :F <id> <sz>)* (~ | :r <id> <off>) <warn> <out> <dbl>
  events = calls on the recording allocator; out / dbl = pointers the innermost object's cache holds of its underlying allocator /
  returns of pointers that were not outstanding, counted by a forwarding recorder below the object.

Environment scenarios (first token 3; coq/C18_ModelE.v):  3 <rf|~> <ra|~> eop*  with
  eop ::= :mi <k> | :gi | :ci | :go | :ti | :tr | :a <n> | :s <n> | :d <k>
  one cache object at a time (:gi GlobalSimpleStringCache, :ci cache + adaptor wired by hand, :go destroys it; alive at the end = destroyed)
  over the base string allocator U, which builds a string with an rf-byte buffer inside free_memory and an ra-byte buffer inside
  alloc_memory through the string allocator in force at that moment; :mi k makes the default malloc allocator (0) / M1 / M2 current;
  :ti installs the string allocator T on top of what is in force, :tr takes it out if it is still current; :a / :s request from, :d k
  returns (with its size) the k-th request's buffer to, the string allocator in force.
Observation: one item per op (and per final destruction):
  :k <nev> (:A <who> <id> <sz> | :F <who> <id> <sz> | :R <id> <off> <n>)* (~ | :r <id> <off>) <warn>
  who = 0 defaultMallocAllocator, 1 M1, 2 M2, 3 U, 4 T; ids = ordinals over all allocators; :R = where U's own string got its buffer.

Warning scenarios (first token 4; coq/C18_ModelW.v):  4 <pre> <c0> <g> wop*  with  wop ::= :a <n> | :d <k> | :f <j> <n> | :p
  a cache behind its adaptor; the current test's output requests a buffer g bytes larger and releases its old one at every print
  (what StringBufferTestOutput's `output += text` does), first buffer c0 bytes, allocated before the cache came (pre = 1: foreign
  to it) or by it; :f releases a foreign buffer with size n (the first unknown release prints the warning INTO that output),
  :d k releases the k-th request with its size, :p = the test prints.  Closing: output's buffer back, clearAll, destruction.
Observation: one :i item per call made on the cache in the order the calls begin (the output's calls included), then
  :x <deepest nesting of the output's print> <number of times it was entered>   (cut off and reported at nesting depth 3)."""
ID = "C18"
FLAVOURS = ["asan"]
HARNESS_SRCS = ["harness/C18.cpp"]
CLASSES = [32, 64, 96, 128, 256]      # only steers the generator; the model reads sizes and bound from the source
BOUND = 256
EDGE = [0, 1, 31, 32, 33, 63, 64, 65, 95, 96, 97, 127, 128, 129, 255, 256, 257, 1024]
RULE = ("histories of 1-300 operations over sizes {0,1,31,32,33,63,64,65,95,96,97,127,128,129,255,256,257,1024} + random 0..1100: "
        "phases that fill one or two size classes (or the non-cached list) with 2-8 live buffers, release them in random order "
        "(head, interior, last), re-allocate (reuse), with releases of a wrong size in the same class, in another class, across the "
        "cached bound, double releases, releases of dangling pointers (after clearCache/clearAll/non-cached release) and of foreign "
        "buffers, clearCache / clearAll interleaved; plus exhaustive small histories (every release order of 3 and 4 buffers of one "
        "class, every boundary size pair).  non-trivial = at least two allocs and one release or clear.  "
        "INSTALLED histories (GlobalSimpleStringCache over the recording allocator as SimpleString allocator): one to four objects, one after "
        "the other and nested up to depth 3, each phase requesting raw buffers and strings of cached and non-cached sizes, releasing some "
        "(right size, wrong size, foreign), with 0-4 buffers of either kind STILL IN USE when the object is destroyed or cleared, clearCache / "
        "clearAll before the destruction, buffers obtained before any installation or under an earlier / outer object released under the "
        "next / inner one and after it, objects left to the implicit destruction at the end; plus every combination of {cached, non-cached, "
        "string, released, in use} x {clearCache, clearAll, nothing} before the destruction of a single and of a nested object.  "
        "ENVIRONMENT histories (one object at a time over a base string allocator that RE-ENTERS the string allocator from inside free_memory / "
        "alloc_memory with a string of rf / ra bytes; five allocators with their own books): every combination of {malloc allocator current at "
        "construction: default, M1, M2} x {changed in between: no, default, M1, M2} x {GlobalSimpleStringCache, cache + adaptor by hand} x {nothing "
        "on top, another string allocator on top at destruction (removed afterwards or not), installed and removed before} x {rf, ra: none, in the "
        "class of the buffers used, in another class, above the bound} x {nothing, released, in use, both} for cached and non-cached buffers; random "
        "lives of one to three objects with requests focused on the classes of rf / ra, releases in any order, episodes with the other string "
        "allocator on top (its own requests and releases), requests straight at the base allocator before / between / after the objects, "
        "changes of the malloc allocator at every point, objects left to the implicit destruction.  WARNING histories (the one-time warning "
        "printed into an output that requests and releases buffers on the cache while it prints): {output's buffer allocated before the cache "
        "(foreign release inside the print), by the cache} x {buffer in every class, non-cached, growing across a boundary} x {one foreign "
        "release of sizes 0,1,20,32,33,...,256,257,300,1024; two and three in a row; after / before prints of the test; between requests and "
        "releases}; random histories of 1-25 requests, releases, foreign releases and prints")
ASSUMPTIONS = ["a released pointer refers to readable NUL-terminated memory (the one-time warning prints it with %s by design); the harness keeps "
               "blocks given back to the underlying allocator readable for exactly such a release and poisons them otherwise",
               "the underlying allocator never fails and never returns an address twice within a history (pointer equality = block identity)",
               "an owner clears the cache before destroying it (as GlobalSimpleStringCache does): the bare destructor gives back only the node array",
               "the size argument seen by the underlying free of the node array is not observable at the PlatformSpecificFree seam",
               "installed scenarios: the strings the one-time warning builds for itself (their sizes depend on the wording and on the path of the "
               "source file) are served outside the cache by the harness; the node array of an installed object's cache comes from the malloc "
               "allocator and is not in the recording allocator's books; objects are destroyed in the reverse order of their construction; with "
               "nothing installed a scenario releases only what it obtained with nothing installed, once, with its size",
               "environment scenarios: one object at a time, constructed while the base string allocator is the current one; a buffer goes back, "
               "with its size, to the allocator that served it while that allocator is in force (no unknown releases: those are the other two "
               "modes); clearCache / clearAll are not called on an installed cache from outside (GlobalSimpleStringCache offers no such call); the "
               "adaptor object itself (operator new / delete) is outside the books; the re-entering allocator does not re-enter while it is "
               "already building its string"]
CRASH_IS_VIOLATION = True
PER_TIMEOUT = 30.0


def cls(n):
    if n > BOUND:
        return len(CLASSES)
    for i, s in enumerate(CLASSES):
        if n <= s:
            return i
    return len(CLASSES)


def size_in_class(rng, c):
    if c >= len(CLASSES):
        return rng.choice([BOUND + 1, BOUND + 2, 300, 1024, rng.randrange(BOUND + 1, 1100)])
    lo = 0 if c == 0 else CLASSES[c - 1] + 1
    hi = CLASSES[c]
    return rng.choice([lo, hi, hi - 1, lo + 1, rng.randrange(lo, hi + 1)])


class Ref:
    """textbook cache used to steer generation and to name the first divergence in signatures (ids = allocation ordinals)"""

    def __init__(self):
        self.free = [[] for _ in CLASSES]
        self.used = [[] for _ in CLASSES]
        self.non = []
        self.warned = False
        self.nx = 1
        self.ptrs = []          # per :a the block id
        self.req = []           # per :a the requested size

    def new(self):
        b = self.nx + 1
        self.nx += 2
        return b

    def alloc(self, n):
        c = cls(n)
        if c < len(CLASSES):
            if self.free[c]:
                b = self.free[c].pop(0)
            else:
                b = self.new()
            self.used[c].insert(0, b)
        else:
            b = self.new()
            self.non.insert(0, b)
        self.ptrs.append(b)
        self.req.append(n)
        return b

    def dealloc(self, b, n):
        """-> 'head' | 'interior' | 'unknown'"""
        c = cls(n)
        lst = self.used[c] if c < len(CLASSES) else self.non
        if b is not None and b in lst:
            pos = lst.index(b)
            lst.remove(b)
            if c < len(CLASSES):
                self.free[c].insert(0, b)
            return "head" if pos == 0 else "interior"
        self.warned = True
        return "unknown"

    def clear_cache(self):
        self.free = [[] for _ in CLASSES]

    def clear_all(self):
        self.free = [[] for _ in CLASSES]
        self.used = [[] for _ in CLASSES]
        self.non = []

    def live(self):
        return [b for u in self.used for b in u] + list(self.non)


def gen_history(rng, nops, focus=None):
    r = Ref()
    ops = []
    if focus is None:
        k = rng.choice([1, 1, 2, 2, 3, 6])
        focus = rng.sample(range(len(CLASSES) + 1), k)

    def pick_size():
        if rng.random() < 0.15:
            return rng.choice(EDGE + [rng.randrange(0, 1100)])
        return size_in_class(rng, rng.choice(focus))

    def live_allocs():
        lv = set(r.live())
        # the latest :a that returned each live block
        last = {}
        for i, b in enumerate(r.ptrs):
            if b in lv:
                last[b] = i
        return sorted(last.values())

    while len(ops) < nops:
        c = rng.random()
        la = live_allocs()
        if c < 0.42 or not r.ptrs:
            for _ in range(rng.choice([1, 1, 1, 2, 3, 5])):
                n = pick_size()
                r.alloc(n)
                ops.append(":a %x" % n)
        elif c < 0.80 and la:
            for _ in range(rng.choice([1, 1, 2, 3, 4])):
                la = live_allocs()
                if not la:
                    break
                k = rng.choice(la)
                n0 = r.req[k]
                m = rng.random()
                if m < 0.55:
                    n = n0
                elif m < 0.80:
                    n = size_in_class(rng, cls(n0))                  # wrong size, same class
                elif m < 0.92:
                    n = size_in_class(rng, rng.randrange(len(CLASSES) + 1))   # any class
                else:
                    n = rng.choice(EDGE)
                r.dealloc(r.ptrs[k], n)
                ops.append(":d %x %x" % (k, n))
        elif c < 0.86:
            k = rng.randrange(len(r.ptrs))                           # any earlier pointer: double release, dangling, stale
            n = r.req[k] if rng.random() < 0.7 else pick_size()
            r.dealloc(r.ptrs[k] if r.ptrs[k] in r.live() else None, n)
            ops.append(":d %x %x" % (k, n))
        elif c < 0.91:
            n = pick_size()
            r.dealloc(None, n)
            ops.append(":f %x %x" % (rng.randrange(4), n))
        elif c < 0.96:
            r.clear_cache()
            ops.append(":cc")
        else:
            r.clear_all()
            ops.append(":ca")
    if rng.random() < 0.6:
        ops.append(":ca")
    return "%x %s" % (rng.randrange(2), " ".join(ops[:nops + 1]))


def exhaustive():
    import itertools
    out = []
    # every release order of 3 and 4 buffers of one class, then as many allocs again (reuse order), in two classes and non-cached
    for sz in (10, 64, 256, 300):
        for k in (1, 2, 3, 4):
            for perm in itertools.permutations(range(k)):
                ops = [":a %x" % sz] * k + [":d %x %x" % (i, sz) for i in perm] + [":a %x" % sz] * k
                out.append("0 " + " ".join(ops))
                out.append("1 " + " ".join(ops + [":cc"]))
            # release only one position, then clearAll
            for i in range(k):
                out.append("0 " + " ".join([":a %x" % sz] * k + [":d %x %x" % (i, sz), ":cc", ":ca"]))
    # every boundary size alone and released with every boundary size
    for a in EDGE:
        out.append("0 :a %x" % a)
        out.append("1 :a %x :ca" % a)
        for d in EDGE:
            out.append("0 :a %x :d 0 %x :a %x :ca" % (a, d, a))
    # foreign buffers: first and second unknown release, small and large size
    for n in (0, 32, 123, 256, 257, 12345):
        out.append("0 :f 0 %x :f 0 %x :f 1 %x" % (n, n, n))
        out.append("1 :a 20 :f 2 %x :d 0 20 :f 3 %x :ca" % (n, n))
    return out



# ------------------------------------------------------------------------------------------------ installed scenarios
class GRef:
    """who owns what in an installed scenario (steers generation, validity, classification); not a cache"""

    def __init__(self):
        self.depth = 0
        self.ser = 0
        self.stack = []         # serials, outermost first
        self.allocs = []        # dict(size, owner serial (0 = nothing installed), live (not knowingly released / object alive), string)

    def live_of(self, ser):
        return [i for i, a in enumerate(self.allocs) if a["live"] and a["owner"] == ser]

    def top(self):
        return self.stack[-1] if self.stack else 0


def gvalid(ops):
    depth = 0
    direct = []
    for o in ops:
        if o[0] in (":a", ":s"):
            direct.append(int(o[1], 16) if depth == 0 else None)
        elif o[0] == ":d":
            k, n = int(o[1], 16), int(o[2], 16)
            if k >= len(direct):
                return False
            if depth == 0:
                if direct[k] is None or direct[k] != n:
                    return False
                direct[k] = None
        elif o[0] in (":f", ":cc", ":ca"):
            if depth == 0:
                return False
        elif o[0] == ":gi":
            depth += 1
        elif o[0] == ":go":
            if depth == 0:
                return False
            depth -= 1
        else:
            return False
    return True


def gen_installed(rng, budget):
    r = GRef()
    ops = []

    def size(kind=None):
        kind = kind or rng.choice(["c", "c", "c", "n", "n", "e"])
        if kind == "c":
            return max(1, size_in_class(rng, rng.randrange(len(CLASSES))))
        if kind == "n":
            return size_in_class(rng, len(CLASSES))
        return max(1, rng.choice(EDGE))

    def alloc(kind=None):
        n = size(kind)
        st = rng.random() < 0.4
        ops.append((":s" if st else ":a") + " %x" % n)
        r.allocs.append({"size": n, "owner": r.top(), "live": True, "string": st})

    def release(k, n=None):
        a = r.allocs[k]
        n = a["size"] if n is None else n
        if r.depth == 0:
            if not (a["owner"] == 0 and a["live"]):
                return
            n = a["size"]
            a["live"] = False
        elif a["owner"] == r.top() and a["live"] and cls(n) == cls(a["size"]):
            a["live"] = False
        ops.append(":d %x %x" % (k, n))

    def wipe(pop):
        top = r.top()
        for i in r.live_of(top):
            a = r.allocs[i]
            if r.depth >= 2 and cls(a["size"]) >= len(CLASSES):
                a["owner"] = r.stack[-2]        # the outer cache goes on holding it
            else:
                a["live"] = False
        if pop:
            r.stack.pop()
            r.depth -= 1

    def phase():
        """one object's life: requests, some releases, what is left in use, clears, maybe a nested object, destruction"""
        ops.append(":gi")
        r.ser += 1
        r.stack.append(r.ser)
        r.depth += 1
        me = r.ser
        for _ in range(rng.choice([0, 1, 2, 3, 5, 8])):
            alloc()
        # release some of mine, keep some in use
        mine = r.live_of(me)
        rng.shuffle(mine)
        keep = rng.choice([0, 0, 1, 2, 3, 4])
        for k in mine[keep:]:
            m = rng.random()
            if m < 0.75:
                release(k)
            elif m < 0.9:
                release(k, size_in_class(rng, cls(r.allocs[k]["size"])))
            else:
                release(k, rng.choice(EDGE))
        # something that does not belong to this object
        if r.allocs and rng.random() < 0.45:
            others = [i for i, a in enumerate(r.allocs) if a["owner"] != me]
            if others:
                k = rng.choice(others)
                release(k, r.allocs[k]["size"] if rng.random() < 0.8 else rng.choice(EDGE))
                if rng.random() < 0.3:
                    release(k, r.allocs[k]["size"])
        if rng.random() < 0.15:
            ops.append(":f %x %x" % (rng.randrange(4), size()))
        if rng.random() < 0.3 and r.depth < 3 and len(ops) < budget:
            phase()
            for _ in range(rng.choice([0, 1, 2])):
                alloc()
            if rng.random() < 0.5 and r.live_of(me):
                release(rng.choice(r.live_of(me)))
        c = rng.random()
        if c < 0.25:
            ops.append(":cc")
        elif c < 0.4:
            ops.append(":ca")
            wipe(False)
        elif c < 0.5:
            ops.append(":cc")
            for _ in range(rng.choice([1, 2])):
                alloc()
        if rng.random() < 0.2:
            return "open"                 # left to the implicit destruction at the end of the scenario
        ops.append(":go")
        wipe(True)
        return "closed"

    for _ in range(rng.choice([0, 0, 1, 2])):            # buffers obtained before anything is installed
        alloc()
    nph = rng.choice([1, 1, 2, 2, 3, 4])
    for _ in range(nph):
        if len(ops) >= budget:
            break
        if phase() == "open":
            break
        if r.depth == 0:
            d = [i for i, a in enumerate(r.allocs) if a["owner"] == 0 and a["live"]]
            if d and rng.random() < 0.4:
                release(rng.choice(d))
            if rng.random() < 0.3:
                alloc()
    s = "2 " + " ".join(ops)
    assert gvalid([o.split() for o in ops_split(s)[1]]), s
    return s


def ops_split(s):
    via, ops = split_ops(s)
    return via, [" ".join(o) for o in ops]


def exhaustive_installed():
    out = []
    kinds = {"c": ":a 14", "C": ":a 100", "n": ":a 12c", "s": ":s 14", "S": ":s 190"}
    sizes = {"c": 0x14, "C": 0x100, "n": 0x12c, "s": 0x14, "S": 0x190}
    import itertools
    # one object: every pair of buffers, each released or in use, every clear before the destruction
    for a, b in itertools.product("cCnsS", repeat=2):
        for rel in ((), (0,), (1,), (0, 1)):
            for clr in ("", ":cc", ":ca"):
                ops = [":gi", kinds[a], kinds[b]] + [":d %x %x" % (i, sizes[(a, b)[i]]) for i in rel] + ([clr] if clr else [])
                out.append("2 " + " ".join(ops + [":go"]))
    # nested: the inner object dies with buffers in use, then the outer one
    for a in "cCnsS":
        for b in "cns":
            for clr in ("", ":cc", ":ca"):
                out.append("2 :gi %s :gi %s %s :go :go" % (kinds[a], kinds[b], clr))
                out.append("2 :gi %s :gi %s %s" % (kinds[a], kinds[b], clr))
                out.append("2 :gi :gi %s %s :go %s :f 0 5 :go" % (kinds[b], clr, kinds[a]))
    # one after the other: a buffer of the first object released under the second and after it
    for a in "cns":
        out.append("2 :gi %s :go :gi :d 0 %x :d 0 %x %s :go" % (kinds[a], sizes[a], sizes[a], kinds[a]))
        out.append("2 %s :gi %s :d 0 %x :d 1 %x :go :d 0 %x" % (kinds[a], kinds[a], sizes[a], sizes[a], sizes[a]))
        out.append("2 :gi %s :d 0 %x :go :gi %s :go" % (kinds[a], sizes[a], kinds[a]))
    return out


# ------------------------------------------------------------------------------------------------ environment scenarios
class EnvRef:
    """the script of the environment as coq/C18_ModelE.v reads it off a scenario (env_step / evalid_ops): who is in force, who served what"""

    def __init__(self):
        self.cur, self.tsv, self.obj, self.nser = "U", "U", None, 0
        self.reqs = []          # per request: tag while in use (0 U, 1 T, 2+serial the object) or None
        self.sizes = []

    def tag(self):
        if self.cur == "U":
            return 0
        if self.cur == "T":
            return 1
        return 2 + self.obj if self.obj is not None else 0

    def step(self, o):
        """-> False if the op is not valid here"""
        k = o[0]
        if k == ":mi":
            return int(o[1], 16) <= 2
        if k in (":gi", ":ci"):
            if self.obj is not None or self.cur != "U":
                return False
            self.obj, self.nser, self.cur = self.nser, self.nser + 1, "C"
            return True
        if k == ":go":
            if self.obj is None:
                return False
            t = 2 + self.obj
            self.reqs = [None if r == t else r for r in self.reqs]
            self.obj, self.cur = None, "U"
            return True
        if k == ":ti":
            if self.cur == "T":
                return False
            self.tsv, self.cur = self.cur, "T"
            return True
        if k == ":tr":
            if self.cur == "T":
                self.cur = self.tsv
            return True
        if k in (":a", ":s"):
            if k == ":s" and int(o[1], 16) == 0:
                return False
            self.reqs.append(self.tag())
            self.sizes.append(int(o[1], 16))
            return True
        if k == ":d":
            i = int(o[1], 16)
            if i >= len(self.reqs) or self.reqs[i] is None or self.reqs[i] != self.tag():
                return False
            self.reqs[i] = None
            return True
        return False

    def releasable(self):
        t = self.tag()
        return [i for i, r in enumerate(self.reqs) if r == t]


def evalid(head, ops):
    if len(head) != 2:
        return False
    r = EnvRef()
    return all(r.step(o) for o in ops)


def env_split(s):
    t = s.split()
    ops, cur = [], []
    for x in t[3:]:
        if x.startswith(":") and cur:
            ops.append(cur)
            cur = []
        cur.append(x)
    if cur:
        ops.append(cur)
    return t[1:3], ops


def env_fmt(head, ops):
    return ("3 %s %s " % (head[0], head[1]) + " ".join(" ".join(o) for o in ops)).strip()


def optx(v):
    return "~" if v is None else "%x" % v


def gen_env(rng, budget):
    focus = rng.sample(range(len(CLASSES) + 1), rng.choice([1, 1, 2]))

    def size():
        if rng.random() < 0.1:
            return max(1, rng.choice(EDGE))
        return max(1, size_in_class(rng, rng.choice(focus)))

    def rsize():
        m = rng.random()
        if m < 0.3:
            return None
        if m < 0.75:
            return max(1, size_in_class(rng, rng.choice(focus)))      # in a class the scenario uses
        return max(1, size_in_class(rng, rng.randrange(len(CLASSES) + 1)))
    rf, ra = rsize(), rsize()
    if rng.random() < 0.25:
        ra = None
    r = EnvRef()
    ops = []

    def emit(o):
        o = o.split()
        assert r.step(o), (ops, o)
        ops.append(o)

    def request():
        emit((":s" if rng.random() < 0.35 else ":a") + " %x" % size())

    def release_some(keep):
        rel = r.releasable()
        rng.shuffle(rel)
        for i in rel[keep:]:
            emit(":d %x" % i)

    def maybe_mal(p):
        if rng.random() < p:
            emit(":mi %x" % rng.choice([0, 1, 1, 2]))

    def top_episode():
        emit(":ti")
        for _ in range(rng.choice([0, 1, 2])):
            request()
        if rng.random() < 0.7:
            release_some(rng.choice([0, 0, 1]))

    for _ in range(rng.choice([0, 0, 1, 2])):        # straight at the base allocator
        request()
    maybe_mal(0.5)
    if rng.random() < 0.3 and r.releasable():
        release_some(rng.choice([0, 1]))
    if rng.random() < 0.15:                            # the other allocator over the base allocator, gone before the object comes
        top_episode()
        emit(":tr")
    for ph in range(rng.choice([1, 1, 2, 3])):
        if len(ops) >= budget:
            break
        maybe_mal(0.3)
        emit(rng.choice([":gi", ":gi", ":ci"]))
        for _ in range(rng.choice([0, 1, 2, 3, 5, 8])):
            request()
        maybe_mal(0.3)
        release_some(rng.choice([0, 0, 1, 2, 3]))
        if rng.random() < 0.4:
            for _ in range(rng.choice([1, 2, 3])):
                request()
            if rng.random() < 0.6:
                release_some(rng.choice([0, 1, 2]))
        if rng.random() < 0.3:                         # the other allocator comes and goes
            top_episode()
            emit(":tr")
            if rng.random() < 0.5:
                request()
        at_top = rng.random() < 0.4                    # ... or is on top when the object dies
        if at_top:
            top_episode()
        maybe_mal(0.3)
        if rng.random() < 0.15:
            break                                       # left to the implicit destruction
        emit(":go")
        if at_top and rng.random() < 0.6:
            emit(":tr")
        if rng.random() < 0.4:
            request()
        if rng.random() < 0.4:
            release_some(rng.choice([0, 1]))
        if r.cur == "T" and rng.random() < 0.8:
            emit(":tr")
    return env_fmt([optx(rf), optx(ra)], ops)


def exhaustive_env():
    import itertools
    out = []
    uses = {"-": [], "rel": [":a 14", ":d 0"], "use": [":a 14"], "both": [":a 14", ":a 14", ":d 0"], "two": [":a 14", ":a 14", ":d 1", ":d 0"],
            "nrel": [":a 12c", ":d 0"], "nuse": [":s 12c"], "mix": [":s 14", ":a 12c", ":a 50", ":d 2", ":d 1"]}
    # the malloc allocator at construction / in between x the kind of object x what is on top when it dies
    for m0, m1, kind, top in itertools.product(("", ":mi 1", ":mi 2"), ("", ":mi 0", ":mi 1", ":mi 2"), (":gi", ":ci"), ("", "t", "tr", "gone")):
        for u in ("use", "both"):
            ops = ([m0] if m0 else []) + [kind] + uses[u] + ([m1] if m1 else [])
            if top in ("t", "tr"):
                ops += [":ti", ":a 20"]
            if top == "gone":
                ops += [":ti", ":a 20", ":d %x" % (len([x for x in uses[u] if x[1] in "as"])), ":tr"]
            ops.append(":go")
            if top == "tr":
                ops.append(":tr")
            out.append("3 ~ ~ " + " ".join(ops))
    # the re-entering allocator: its string in the class of the buffers, in another class, above the bound x what the cache holds
    for rf, ra, kind, u, top in itertools.product((None, 0xa, 0x28, 0x12c), (None, 0xa, 0x12c), (":gi", ":ci"), sorted(uses), ("", "t")):
        if rf is None and ra is None and not top:
            continue
        ops = [kind] + uses[u] + ([":ti"] if top else []) + [":go"]
        out.append("3 %s %s " % (optx(rf), optx(ra)) + " ".join(ops))
    # straight at the base allocator, before and after an object
    for rf, ra in ((0xa, None), (None, 0xa), (0x14, 0x14)):
        out.append("3 %s %s :a 14 :gi :a 14 :go :d 0 :a 14 :d 2" % (optx(rf), optx(ra)))
    for o in out:
        h, ops = env_split(o)
        assert evalid(h, ops), o
    return out


def classify_env(s):
    head, ops = env_split(s)
    lab = ["environment"]
    rf = None if head[0] == "~" else int(head[0], 16)
    ra = None if head[1] == "~" else int(head[1], 16)
    lab.append("re-enters-on-free:" + ("no" if rf is None else "class%d" % cls(rf)))
    lab.append("re-enters-on-alloc:" + ("no" if ra is None else "class%d" % cls(ra)))
    r = EnvRef()
    mal = 0
    mal_at_ctor = None
    idle = {}            # request index -> class of a buffer given back to the object's cache
    for o in ops + [[":go"]]:
        k = o[0]
        if k == ":go" and r.obj is None:
            break
        if k == ":mi":
            mal = int(o[1], 16)
            if r.obj is not None and mal != mal_at_ctor:
                lab.append("malloc-allocator:changed-while-object-alive")
        if k in (":gi", ":ci"):
            mal_at_ctor = mal
            lab.append("malloc-allocator-at-construction:" + ("default" if mal == 0 else "recording"))
            lab.append("object:" + ("global" if k == ":gi" else "by-hand"))
            idle = {}
        if k == ":d" and r.cur == "C":
            idle[int(o[1], 16)] = cls(r.sizes[int(o[1], 16)])
        if k == ":go":
            if mal != mal_at_ctor:
                lab.append("malloc-allocator-at-destruction:other-than-at-construction")
            if r.cur == "T":
                lab.append("other-string-allocator-on-top-at-destruction")
            t = 2 + r.obj
            if any(x == t for x in r.reqs):
                lab.append("destroyed-with-in-use")
            if rf is not None and cls(rf) in idle.values():
                lab.append("destroyed-with-idle-block-of-the-re-entering-class")
            elif idle:
                lab.append("destroyed-with-idle-block")
        if k == ":ti":
            lab.append("other-string-allocator:" + ("over-the-cache" if r.cur == "C" else "over-the-base"))
        if k in (":a", ":s") and r.cur == "U":
            lab.append("request-straight-at-the-base-allocator")
        if k in (":a", ":s") and r.cur == "C" and ra is not None:
            lab.append("request-at-the-cache-under-re-entering-alloc")
        if k == ":d" and r.cur == "C" and rf is not None and cls(r.sizes[int(o[1], 16)]) >= len(CLASSES):
            lab.append("non-cached-release-under-re-entering-free")
        r.step(o)
    lab.append("objects:%d" % r.nser)
    return sorted(set(lab))


def eitems(o):
    res, cur = [], []
    for x in o.split():
        if x == ":k" and cur:
            res.append(cur)
            cur = []
        cur.append(x)
    if cur:
        res.append(cur)
    return res


def signature_env(s, o):
    """coarse: what the books of the allocators show first"""
    try:
        own, freed = {}, set()
        _, ops = env_split(s)
        r = EnvRef()
        ptr = []                  # per request the block its buffer lies in
        for i, it in enumerate(eitems(o)):
            op = ops[i] if i < len(ops) else [":go"]
            j = 2
            for _ in range(int(it[1], 16)):
                k = it[j]
                a, b = int(it[j + 1], 16), int(it[j + 2], 16)
                j += 4
                if k == ":A":
                    own[b] = a
                elif k == ":F":
                    if b not in own:
                        return "environment: a block returned that nobody handed out (at %s)" % op[0]
                    if own[b] != a:
                        return "environment: a block of allocator %d returned to allocator %d (at %s)" % (own[b], a, op[0])
                    if b in freed:
                        return "environment: a block returned twice (at %s)" % op[0]
                    freed.add(b)
                elif k == ":R":
                    if a in freed or a not in own:
                        return "environment: the re-entering allocator's string served from memory already returned (at %s)" % op[0]
            if it[j] == ":r":
                ptr.append(int(it[j + 1], 16))
                if ptr[-1] in freed or ptr[-1] not in own:
                    return "environment: a buffer handed out inside memory already returned (at %s)" % op[0]
            if it[-1] == "1":
                return "environment: warning (at %s)" % op[0]
            r.step(op)
            if op[0] == ":go":
                direct = set(ptr[n] for n, t in enumerate(r.reqs) if t is not None and n < len(ptr))
                left = sorted(set(own[b] for b in own if b not in freed and b not in direct))
                if left:
                    return "environment: blocks of allocator(s) %s still out after the destruction" % left
        return "environment: other (events / returned pointer)"
    except Exception:
        return "environment: malformed observation"


def shrink_env(s):
    head, ops = env_split(s)

    def emit(h, new):
        if evalid(h, new):
            yield env_fmt(h, new)

    for i in range(len(ops) - 1, -1, -1):
        o = ops[i]
        if o[0] in (":a", ":s"):
            k = sum(1 for x in ops[:i] if x[0] in (":a", ":s"))
            new = []
            for j, x in enumerate(ops):
                if j == i:
                    continue
                if x[0] == ":d":
                    kk = int(x[1], 16)
                    if kk == k:
                        continue
                    if kk > k:
                        x = [":d", "%x" % (kk - 1)]
                new.append(x)
            yield from emit(head, new)
        elif o[0] == ":go" and i == len(ops) - 1:
            yield from emit(head, ops[:i])
        else:
            yield from emit(head, ops[:i] + ops[i + 1:])
    # an object together with its destruction
    for i, o in enumerate(ops):
        if o[0] in (":gi", ":ci"):
            m = next((j for j in range(i + 1, len(ops)) if ops[j][0] == ":go"), None)
            yield from emit(head, [x for j, x in enumerate(ops) if j != i and j != m])
    if head[0] != "~":
        yield from emit(["~", head[1]], ops)
    if head[1] != "~":
        yield from emit([head[0], "~"], ops)
    for i, o in enumerate(ops):
        if o[0] == ":s":
            yield from emit(head, ops[:i] + [[":a", o[1]]] + ops[i + 1:])
        if o[0] == ":ci":
            yield from emit(head, ops[:i] + [[":gi"]] + ops[i + 1:])
    for hi in (0, 1):
        if head[hi] not in ("~", "a"):
            h2 = list(head)
            h2[hi] = "a"
            yield from emit(h2, ops)

# ------------------------------------------------------------------ mode 4: the warning printed through the cache (coq/C18_ModelW.v)
def is_warn(s):
    return s.split()[0] == "4"


def warn_split(s):
    t = s.split()
    ops, cur = [], []
    for x in t[4:]:
        if x.startswith(":") and cur:
            ops.append(cur)
            cur = []
        cur.append(x)
    if cur:
        ops.append(cur)
    return t[1:4], ops


def warn_fmt(head, ops):
    return ("4 " + " ".join(head) + " " + " ".join(" ".join(o) for o in ops)).strip()


def wvalid(head, ops):
    if int(head[1], 16) == 0:
        return False
    na, rel = 0, set()
    for o in ops:
        if o[0] == ":a":
            na += 1
        elif o[0] == ":d":
            k = int(o[1], 16)
            if k >= na or k in rel:
                return False
            rel.add(k)
    return True


W_FOREIGN = [0, 1, 20, 32, 33, 64, 65, 96, 97, 128, 129, 256, 257, 300, 1024]


def exhaustive_warn():
    out = []
    # one foreign release of every class / non-cached size x the output's buffer before / after the installation, in every
    # class (and non-cached), growing inside its class or across a boundary; then a second and a third foreign release
    for pre in ("1", "0"):
        for c0, g in ((16, 8), (30, 8), (60, 40), (120, 10), (250, 10), (300, 40), (1, 0)):
            head = [pre, "%x" % c0, "%x" % g]
            for n in W_FOREIGN:
                out.append(warn_fmt(head, [[":f", "0", "%x" % n]]))
            for n, m in ((20, 20), (20, 300), (300, 20), (300, 300), (100, 40)):
                out.append(warn_fmt(head, [[":f", "0", "%x" % n], [":f", "1", "%x" % m]]))
                out.append(warn_fmt(head, [[":f", "0", "%x" % n], [":f", "0", "%x" % n], [":f", "2", "%x" % m]]))
                out.append(warn_fmt(head, [[":p"], [":f", "0", "%x" % n], [":f", "1", "%x" % m]]))
                out.append(warn_fmt(head, [[":f", "0", "%x" % n], [":p"], [":f", "1", "%x" % m], [":p"]]))
                out.append(warn_fmt(head, [[":a", "%x" % n], [":f", "0", "%x" % m], [":d", "0"], [":f", "1", "%x" % n]]))
                out.append(warn_fmt(head, [[":a", "%x" % n], [":a", "%x" % m], [":d", "0"], [":f", "0", "%x" % m], [":a", "%x" % n], [":p"]]))
            out.append(warn_fmt(head, []))
            out.append(warn_fmt(head, [[":p"]]))
            out.append(warn_fmt(head, [[":p"], [":p"], [":p"]]))
    return out


def gen_warn(rng, budget):
    pre = rng.choice(["1", "1", "0"])
    c0 = rng.choice([1, 16, 31, 32, 33, 60, 64, 100, 128, 200, 250, 256, 257, 300, 600]) if rng.random() < 0.7 else rng.randrange(1, 700)
    g = rng.choice([0, 1, 8, 30, 40, 100, 300]) if rng.random() < 0.8 else rng.randrange(0, 120)
    ops, na, rel = [], 0, set()
    first_f = rng.random() < 0.5      # a foreign release early (the warning is drawn by the test) or late (maybe by a print)
    for i in range(rng.randrange(1, budget + 1)):
        r = rng.random()
        if (first_f and i == 0) or r < 0.30:
            n = rng.choice(W_FOREIGN) if rng.random() < 0.8 else rng.randrange(0, 1100)
            ops.append([":f", "%x" % rng.randrange(0, 8), "%x" % n])
        elif r < 0.55:
            n = rng.choice(EDGE) if rng.random() < 0.6 else rng.randrange(0, 1100)
            ops.append([":a", "%x" % n])
            na += 1
        elif r < 0.75 and na > len(rel):
            k = rng.choice([k for k in range(na) if k not in rel])
            rel.add(k)
            ops.append([":d", "%x" % k])
        else:
            ops.append([":p"])
    return warn_fmt([pre, "%x" % c0, "%x" % g], ops)


def classify_warn(s):
    head, ops = warn_split(s)
    lab = ["mode:warning-printed-through-the-cache", "output-buffer:" + ("foreign(before the cache)" if head[0] != "0" else "from the cache")]
    c0 = int(head[1], 16)
    lab.append("output-buffer-size:" + ("non-cached" if c0 > BOUND else "class %d" % cls(c0)))
    nf = sum(1 for o in ops if o[0] == ":f")
    lab.append("foreign releases by the test:" + ("0" if nf == 0 else "1" if nf == 1 else "2" if nf == 2 else ">2"))
    for o in ops:
        if o[0] == ":f":
            n = int(o[2], 16)
            lab.append("foreign size:" + ("non-cached" if n > BOUND else "class %d" % cls(n)))
    kinds = [o[0] for o in ops if o[0] in (":f", ":p")]
    if kinds:
        if head[0] != "0" and kinds[0] == ":p":
            lab.append("warning drawn by the release a PRINT makes (nested print)")
        elif ":f" in kinds:
            lab.append("warning drawn by the test's release" + (", print releases the foreign buffer" if head[0] != "0" and kinds[0] == ":f" else ""))
    if ":p" in kinds:
        lab.append("test prints")
    return lab


def signature_warn(s, o):
    try:
        t = o.split()
        if ":x" not in t:
            return "warning mode: malformed observation"
        d, p = int(t[-2], 16), int(t[-1], 16)
        if d >= 3:
            return "warning mode: printing nested 3 deep (unbounded recursion cut off)"
        nw = 0
        for it in items(" ".join(t[:t.index(":x")])):
            if it[-1] == "1":
                nw += 1
        if nw > 1:
            return "warning mode: %d warnings" % nw
        return "warning mode: books / calls differ (prints %d, depth %d)" % (p, d)
    except Exception:
        return "warning mode: malformed observation"


def shrink_warn(s):
    head, ops = warn_split(s)
    for i in range(len(ops) - 1, -1, -1):
        if ops[i][0] != ":a":
            new = ops[:i] + ops[i + 1:]
        else:
            k = sum(1 for o in ops[:i] if o[0] == ":a")
            new = []
            for j, o in enumerate(ops):
                if j == i:
                    continue
                if o[0] == ":d":
                    kk = int(o[1], 16)
                    if kk == k:
                        continue
                    if kk > k:
                        o = [":d", "%x" % (kk - 1)]
                new.append(o)
        if wvalid(head, new):
            yield warn_fmt(head, new)
    for c0, g in ((0x28, 0x1e), (0x10, 8), (1, 0)):
        h = [head[0], "%x" % c0, "%x" % g]
        if h != head:
            yield warn_fmt(h, ops)
    for i, o in enumerate(ops):
        if o[0] == ":f" and (o[1] != "0" or o[2] != "14"):
            yield warn_fmt(head, ops[:i] + [[":f", "0", "14"]] + ops[i + 1:])
        if o[0] == ":a" and o[1] != "14":
            yield warn_fmt(head, ops[:i] + [[":a", "14"]] + ops[i + 1:])


def generate(tier, rng):
    out = exhaustive() + exhaustive_installed() + exhaustive_env() + exhaustive_warn()
    for _ in range(600 if tier == "quick" else 30000):
        out.append(gen_warn(rng, rng.choice([3, 6, 12, 25])))
    if tier == "quick":
        plan = [(900, 1, 14), (500, 10, 40), (60, 60, 300)]
    else:
        plan = [(30000, 1, 14), (30000, 8, 40), (15000, 30, 90), (1500, 100, 300)]
    for count, lo, hi in plan:
        for _ in range(count):
            out.append(gen_history(rng, rng.randrange(lo, hi + 1)))
    for _ in range(1500 if tier == "quick" else 60000):
        out.append(gen_installed(rng, rng.choice([6, 12, 25, 60])))
    for _ in range(1500 if tier == "quick" else 50000):
        out.append(gen_env(rng, rng.choice([8, 15, 30, 60])))
    return out


def split_ops(s):
    t = s.split()
    ops, cur = [], []
    for x in t[1:]:
        if x.startswith(":") and cur:
            ops.append(cur)
            cur = []
        cur.append(x)
    if cur:
        ops.append(cur)
    return t[0], ops


def is_installed(s):
    return s.split()[0] == "2"


def is_env(s):
    return s.split()[0] == "3"


def nontrivial(s):
    if is_warn(s):
        _, wops = warn_split(s)
        return any(o[0] in (":f", ":p") for o in wops)
    if is_env(s):
        _, eops = env_split(s)
        return any(o[0] in (":gi", ":ci") for o in eops) and any(o[0] in (":a", ":s") for o in eops)
    _, ops = split_ops(s)
    if is_installed(s):
        return any(o[0] == ":gi" for o in ops) and any(o[0] in (":a", ":s") for o in ops)
    return sum(1 for o in ops if o[0] == ":a") >= 2 and any(o[0] in (":d", ":f", ":cc", ":ca") for o in ops)


def replay_ref(s):
    """-> list of (op, kind) with kind in alloc-new / alloc-reuse / head / interior / unknown-first / unknown-again / cc / ca"""
    _, ops = split_ops(s)
    r = Ref()
    res = []
    for o in ops:
        if o[0] == ":a":
            n = int(o[1], 16)
            c = cls(n)
            reuse = c < len(CLASSES) and bool(r.free[c])
            r.alloc(n)
            res.append((o, "alloc-reuse" if reuse else ("alloc-new" if c < len(CLASSES) else "alloc-noncached")))
        elif o[0] in (":d", ":f"):
            n = int(o[2], 16)
            b = None
            if o[0] == ":d":
                k = int(o[1], 16)
                b = r.ptrs[k] if k < len(r.ptrs) else None
            w = r.warned
            kind = r.dealloc(b, n)
            if kind == "unknown":
                kind = "unknown-again" if w else "unknown-first"
            elif cls(n) >= len(CLASSES):
                kind += "-noncached"
            res.append((o, kind))
        elif o[0] == ":cc":
            r.clear_cache()
            res.append((o, "cc"))
        elif o[0] == ":ca":
            r.clear_all()
            res.append((o, "ca"))
    return res


def classify_installed(s):
    _, ops = split_ops(s)
    lab = ["installed"]
    depth = mx = 0
    npush = 0
    owner = []          # per request: (depth index of the owning object in `stack`, size) ; stack of serials
    stack = []
    ser = 0
    alive = {}
    inuse_at_pop = set()
    for o in ops + [[":go"]] * 8:
        if o[0] == ":gi":
            ser += 1
            stack.append(ser)
            npush += 1
            mx = max(mx, len(stack))
        elif o[0] in (":a", ":s"):
            owner.append([stack[-1] if stack else 0, int(o[1], 16), True])
            if o[0] == ":s":
                lab.append("string")
        elif o[0] == ":d":
            k, n = int(o[1], 16), int(o[2], 16)
            top = stack[-1] if stack else 0
            a = owner[k]
            if a[2] and a[0] == top and (top == 0 or cls(n) == cls(a[1])):
                a[2] = False
            else:
                if not stack:
                    pass
                elif a[0] == 0:
                    lab.append("release-under-object:obtained-before-installation")
                elif a[0] not in stack:
                    lab.append("release-under-object:of-a-destroyed-object")
                elif a[0] != top:
                    lab.append("release-under-object:of-an-outer-object")
                else:
                    lab.append("release-under-object:unknown")
        elif o[0] in (":ca", ":go"):
            if not stack:
                break
            top = stack[-1]
            for a in owner:
                if a[2] and a[0] == top:
                    kind = "non-cached" if cls(a[1]) >= len(CLASSES) else "cached"
                    lab.append(("destroyed" if o[0] == ":go" else "cleared") + "-with-in-use:" + kind + (":nested" if len(stack) >= 2 else ""))
                    if len(stack) >= 2 and kind == "non-cached":
                        a[0] = stack[-2]
                    else:
                        a[2] = False
            if o[0] == ":go":
                stack.pop()
        elif o[0] == ":cc":
            lab.append("clearCache")
        elif o[0] == ":f":
            lab.append("foreign")
    lab.append("objects:%d" % npush)
    lab.append("depth:%d" % mx)
    if ops and ops[-1][0] != ":go" and any(o[0] == ":gi" for o in ops):
        n_open = sum(1 for o in ops if o[0] == ":gi") - sum(1 for o in ops if o[0] == ":go")
        if n_open > 0:
            lab.append("implicit-destruction")
    return sorted(set(lab))


def classify(s):
    if is_warn(s):
        return classify_warn(s)
    if is_env(s):
        return classify_env(s)
    if is_installed(s):
        return classify_installed(s)
    via, ops = split_ops(s)
    lab = ["via:" + via]
    n = len(ops)
    lab.append("ops:" + ("1-5" if n <= 5 else "6-20" if n <= 20 else "21-60" if n <= 60 else ">60"))
    kinds = set(k for _, k in replay_ref(s))
    lab += sorted(kinds)
    sizes = set(int(o[1], 16) for o in ops if o[0] == ":a")
    if sizes & set(CLASSES):
        lab.append("size=class-size")
    if sizes & set(x + 1 for x in CLASSES):
        lab.append("size=class-size+1")
    if 0 in sizes:
        lab.append("size=0")
    return lab


def items(o):
    res, cur = [], []
    for x in o.split():
        if x == ":i" and cur:
            res.append(cur)
            cur = []
        cur.append(x)
    if cur:
        res.append(cur)
    return res


def signature(s, o):
    """coarse: the kind of the first operation whose observation departs from the textbook cache"""
    if o.startswith("!"):
        return "crash " + o[:70]
    if is_warn(s):
        return signature_warn(s, o)
    if is_env(s):
        return signature_env(s, o)
    if is_installed(s):
        return signature_installed(s, o)
    try:
        its = items(o)
        rr = replay_ref(s)
        # textbook expectation per op, compared on (has events, returned id, warn)
        r = Ref()
        for i, (op, kind) in enumerate(rr):
            it = its[i + 1]
            nev = int(it[1], 16)
            tail = it[2 + 3 * nev:]
            warn = tail[-1]
            if op[0] == ":a":
                b = r.alloc(int(op[1], 16))
                if tail[0] != ":r" or int(tail[1], 16) != b or int(tail[2], 16) != 0 or (nev != 0) != kind.startswith("alloc-n"):
                    return "first divergence at %s" % kind
            else:
                if op[0] in (":d", ":f"):
                    bb = None
                    if op[0] == ":d":
                        bb = r.ptrs[int(op[1], 16)]
                    r.dealloc(bb, int(op[2], 16))
                    if (warn == "1") != (kind == "unknown-first"):
                        return "first divergence at %s (warning)" % kind
                    if (nev != 0) != kind.endswith("-noncached"):
                        return "first divergence at %s (allocator calls)" % kind
                elif op[0] == ":cc":
                    r.clear_cache()
                else:
                    r.clear_all()
        return "later effect (balance / clear / destruction)"
    except Exception:
        return "malformed observation"


def gitems(o):
    res, cur = [], []
    for x in o.split():
        if x == ":j" and cur:
            res.append(cur)
            cur = []
        cur.append(x)
    if cur:
        res.append(cur)
    return res


def signature_installed(s, o):
    """coarse: what the forwarding recorder / the recording allocator show first"""
    try:
        _, ops = split_ops(s)
        its = gitems(o)
        depth = 0
        for i, it in enumerate(its):
            op = ops[i][0] if i < len(ops) else ":go"
            out, dbl = int(it[-2], 16), int(it[-1], 16)
            if dbl:
                return "installed: a pointer returned that was not outstanding (at %s)" % op
            if op in (":ca", ":go") and out:
                return "installed: %s leaves memory of the underlying allocator unreturned (%s)" % (op, "nested" if depth >= 2 else "outermost")
            if op == ":gi":
                depth += 1
            if op == ":go":
                depth -= 1
        return "installed: other (events / returned pointer / warning)"
    except Exception:
        return "installed: malformed observation"


def shrink_installed(s):
    _, ops = split_ops(s)

    def emit(new):
        if gvalid(new):
            yield "2 " + " ".join(" ".join(o) for o in new)

    for i in range(len(ops) - 1, -1, -1):
        o = ops[i]
        if o[0] in (":a", ":s"):
            k = sum(1 for x in ops[:i] if x[0] in (":a", ":s"))
            new = []
            for j, x in enumerate(ops):
                if j == i:
                    continue
                if x[0] == ":d":
                    kk = int(x[1], 16)
                    if kk == k:
                        continue
                    if kk > k:
                        x = [":d", "%x" % (kk - 1), x[2]]
                new.append(x)
            yield from emit(new)
        elif o[0] == ":gi":
            # drop the object: its :gi and the matching :go (if any)
            d = 0
            m = None
            for j in range(i + 1, len(ops)):
                if ops[j][0] == ":gi":
                    d += 1
                elif ops[j][0] == ":go":
                    if d == 0:
                        m = j
                        break
                    d -= 1
            yield from emit([x for j, x in enumerate(ops) if j != i and j != m])
        elif o[0] == ":go":
            if i == len(ops) - 1:
                yield from emit(ops[:i])          # left to the implicit destruction
        else:
            yield from emit(ops[:i] + ops[i + 1:])
    for i, o in enumerate(ops):
        if o[0] == ":s":
            yield from emit(ops[:i] + [[":a", o[1]]] + ops[i + 1:])


def fmt(via, ops):
    return (via + " " + " ".join(" ".join(o) for o in ops)).strip()


def shrink(s):
    if is_warn(s):
        yield from shrink_warn(s)
        return
    if is_env(s):
        yield from shrink_env(s)
        return
    if is_installed(s):
        yield from shrink_installed(s)
        return
    via, ops = split_ops(s)
    # drop one op (dropping an :a renumbers later releases and drops the releases of that alloc)
    for i in range(len(ops) - 1, -1, -1):
        if ops[i][0] != ":a":
            yield fmt(via, ops[:i] + ops[i + 1:])
        else:
            k = sum(1 for o in ops[:i] if o[0] == ":a")
            new = []
            for j, o in enumerate(ops):
                if j == i:
                    continue
                if o[0] == ":d":
                    kk = int(o[1], 16)
                    if kk == k:
                        continue
                    if kk > k:
                        o = [":d", "%x" % (kk - 1), o[2]]
                new.append(o)
            yield fmt(via, new)
    if via != "0":
        yield fmt("0", ops)


LEVEL_TEXT = ("Machine-checked (Coq) theorems over an executable model of SimpleStringInternalCache (five size classes read from the source, "
              "free/used lists with head insertion, head/interior unlink, non-cached list, one-time warning flag, clearCache, clearAll, "
              "constructor/destructor) with the underlying allocator as an oracle of fresh block ids: for every history, all blocks in all "
              "lists are distinct, an alloc never returns a buffer in use, capacity >= request, reuse only within the size class, an unknown "
              "release changes nothing and warns once, and after clearAll (+destruction) every block obtained has been given back exactly "
              "once with its size. Tied to the code by a differential run against the real cache over a recording allocator, judged by the "
              "extracted model-free spec. INSTALLED cache (coq/C18_ModelG.v): the life cycle of GlobalSimpleStringCache objects (constructor "
              "installs the cache allocator over what is installed, destructor uninstalls and clears everything) as a stack of the same cache "
              "model over the recording string allocator, nested to any depth; proved for every valid history: the model's observation meets "
              "the model-free statement (recorder's books legal, exactly once, with the size; no overlap with any buffer in use; one-time "
              "warning per object; after clearAll / DESTRUCTION the object holds nothing of its underlying allocator and, outermost, every "
              "recorder block obtained since its construction is back), the final books are balanced, one installed object IS the cache "
              "model, and the destructor that only calls clearCache is refuted. Observed on real GlobalSimpleStringCache objects with "
              "forwarding recorders between the levels. ENVIRONMENT of one object (coq/C18_ModelE.v): five allocators with their own books (default "
              "malloc allocator, two recording malloc allocators made current at any point, the base string allocator U, a string allocator T "
              "installed on top), U building a string of its own inside free_memory / alloc_memory through whatever string allocator is in force; "
              "proved for every valid history: every block goes back only to the allocator it came from, at most once, with its size; every buffer "
              "handed out (to the scenario or to U's own string) lies in a block obtained and not given back and overlaps no buffer in use; when "
              "the object is gone every block of every allocator obtained since its construction began is back (the whole trace is legal in the "
              "allocators' own books); without re-entry the mode's operations are alloc / dealloc / clear_all of the cache model; the three "
              "round-5 red-team variants (table from the current malloc allocator, guarded destructor, clear before uninstall) are refuted. "
              "WARNING PRINTED THROUGH THE CACHE (coq/C18_ModelW.v): the current test's output requests / releases buffers on the cache while it "
              "prints, its first buffer foreign to the cache or not; the history of all calls (the output's included, which follow the release "
              "that warned because the print is the last thing dealloc does) is run by the cache model and judged by the bare cache's oracle plus "
              "the number and nesting of the output's entries; proved: run meets spec, the release that warns leaves the flag set so that no "
              "history of calls after it warns again, a foreign pointer is unknown in every state, at most one warning in every history, nesting "
              "at most 2; the round-7 variant (flag set after the print) is refuted.")
LEVEL_NOTE = ("Partial for memory safety: real accesses are seen only by ASan (blocks given back are poisoned). Trusted: Coq kernel, extraction, "
              "harness, generator. Modelled not verified: the C++ itself. Class sizes, bound, node count and struct sizes are re-read from the "
              "source on every run. The bare destructor does not walk the lists (documented limit: owners clear first). Installed scenarios: "
              "the node array (malloc allocator) is outside the recorder's books; the strings the warning builds for itself are served outside "
              "the cache by the harness; an object nested in another returns buffers above the bound with size 0, which the outer cache keeps "
              "(one spurious warning) until it dies -- modelled and judged as such, not counted as a violation. Environment scenarios: one "
              "object at a time, no unknown releases, no explicit clear of an installed cache (GlobalSimpleStringCache offers none; on the "
              "unchanged tree an explicit clearCache of an installed cache over a re-entering allocator serves the allocator's string from a "
              "block just returned -- documented in docs/asbuilt/C18_addendum.md, outside the language); the adaptor object (new / delete) is "
              "outside the books; the re-entering allocator is the harness' own (guarded against re-entering itself).")
TECHNIQUE = "Coq proof over hand-written executable model + extracted-model/implementation correspondence check (differential, exhaustive small histories)"
READY = True
