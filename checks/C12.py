"""C12 -- command line: every argv is parsed safely and means what the help text says.
Scenario:  <time ms> <n> <arg>*n <nopts> <opt>*      (args as byte strings incl. argv[0]; the opt list is the claim
           "this vector spells these documented options", judged only when the claim is true)
  opt ::= :h :v :vv :c :p :b :lg :ln :ll :ri :f :e :ci | :r ~|<digits> | :s ~|<digits> | :g <k> <v> | :n <k> <v>
        | :t <k> <g> <n> | :T <ignored 0|1> <g> <n> | :o <0 normal|1 eclipse|2 junit|3 teamcity> | :k <v>      k: 0 -x 1 -sx 2 -xx 3 -xsx
Observation: :rej <help> <tests run> <printed> | :ok <flags..> <seed> <repeat> <out> <pkg> <group filters> <name filters> <selection of 14 probes> <applied>
  <applied> ::= :skip (repeat count > 6) | :app <outputs created: kind pkg level colour> <listing text> <repetitions: level colour seeds started ran sep>
  = what recording outputs and 18 recording probe tests see of the real CommandLineTestRunner run on the same vector (harness/C12.cpp)
Second scenario kind, SEQUENCES of vectors given to the static CommandLineTestRunner::RunAllTests(ac, av) in one process on the current registry:
  :seq <time ms> <np> (<plugin name id> <kind>)*np <fail mask> <k> (<n> <arg>*n)*k (<nopts> <opt>*)*k
  name id: 0 MemoryLeakPlugin 1 SetPointerPlugin (the runner's own names) 2 ok 3 other 4 px; kind: 0 takes nothing, 1 takes -pok..., 2 takes -px...
  fail mask: bit i = probe test i of the 18 fails.   Observation: :seq (<call>)* :end|:hang|:died
  <call> ::= :big | :c <printed 0 neither|1 usage|2 help|3 usage/help and more> <srand calls> <n> ran* <m> plugin-tag*   (tags of the chain after the call)"""
from vlib import tb
ID = "C12"
FLAVOURS = ["asan"]
HARNESS_SRCS = ["harness/C12.cpp"]
CRASH_IS_VIOLATION = True
RULE = ("(a) meaning: sequences of 0-8 documented options (single-option vectors, the ones judged against the help sentences, are a fifth), "
        "each spelled attached or separated at random, any order and multiplicity, "
        "values from an identifier pool that interacts with the probe registry and includes prefixes of option names, numbers, "
        "option-like texts and the shapes the compound forms exclude; time source 0 / 2^32 / random; -h at random positions.  (b) safety: arbitrary byte strings 0-40 bytes, every "
        "dispatch literal truncated at every length and extended with junk, value options as last argument, TEST(/IGNORE_TEST( forms "
        "with missing comma/bracket/space, -t values with 0-3 dots, numeric edge values for -r/-s, ac 0-12.  (c) applying: 1-10 documented "
        "options drawn with multiplicity from the ones the runner acts on (-v -vv -c -b -ri -p -lg -ln -ll, -r with 1..7 / none, -s with and "
        "without seed, -o kinds, -k, filters over the 18 runner probes incl. the 4 ignored ones), shuffled order, with forced combinations: "
        "-v and -vv both present (each 1-3 times, any order), -b with a repeat count >= 2, list mode with -r/-b/-s/-v, -ri with filters that "
        "select ignored probes, -p with -r, junit with/without verbosity and -k; every accepted vector with repeat count <= 6 is run through "
        "the real runner.  (d) sequences: 1-6 vectors handed one after the other to the static CommandLineTestRunner::RunAllTests in one "
        "(forked) process on the current registry, with 0-3 user plugins installed beforehand (taking -pok..., -px..., nothing; now and then "
        "named like the runner's own plugins) and a mask of failing probe tests: rejected vectors (unknown option, -h, bad -o/-t/-s values, junk), "
        "plugin options -p<x> alone and among other options, documented vectors that run tests (annotated; -b, -ri, -r2..3, filters that "
        "select nothing, list modes), the same vector again later; forced patterns: rejected then -p<x>, rejected then a run, a run with "
        "failing tests then -p<x> / a run / a rejected vector, a clean run then the others, one vector three times, -h then a rejected "
        "vector, two runs with different repeat counts.  "
        "non-trivial = at least one argument after argv[0]")
ASSUMPTIONS = ["arguments are C strings (no NUL inside)",
               "no argument starts (after blanks and a sign, also counted from its third character) with more than 9 digits: AtoI's int would overflow (atoi's contract); the same bound is put on the digits AtoU reads, so its wrap-around is not exercised",
               "an argument is shorter than 4 GiB",
               "LP64; the plugin passed to parse() accepts exactly the arguments starting with -pok",
               "sequences: the user's plugins take exactly the arguments starting with -pok / -px (by kind) and do nothing else; 'the registry as it found it' is judged on the plugin chain (identity and order of the installed plugins); when a user plugin carries one of the two names the runner removes its own plugins by, only 'nothing of the runner is left' is judged",
               "sequences: a vector asking for more than 6 repetitions is not handed to the runner (observation :big)"]

FLAGS = [":h", ":v", ":vv", ":c", ":p", ":b", ":lg", ":ln", ":ll", ":ri", ":f", ":e", ":ci"]
FLAG_TEXT = {":h": "-h", ":v": "-v", ":vv": "-vv", ":c": "-c", ":p": "-p", ":b": "-b", ":lg": "-lg", ":ln": "-ln", ":ll": "-ll",
             ":ri": "-ri", ":f": "-f", ":e": "-e", ":ci": "-ci"}
PRE_G = ["-g", "-sg", "-xg", "-xsg"]
PRE_N = ["-n", "-sn", "-xn", "-xsn"]
PRE_T = ["-t", "-st", "-xt", "-xst"]
OUTS = ["normal", "eclipse", "junit", "teamcity"]
IDENTS = [b"grp", b"name", b"ame", b"gr", b"Group", b"Test", b"a", b"b", b"ab", b"ba", b"G", b"T", b"mygrp", b"myname", b"x", b"y", b"g1", b"t1",
          b"other", b"name2", b"grp2", b"1", b"007", b"12", b"r", b"s", b"t", b"g", b"n", b"xg", b"st", b"v", b"-v", b"-h", b"ok", b"i", b"o",
          b"junit", b"TEST(", b"p", b"e", b" ", b"a b", b"_", b"Z9_", b"\xff", b"k", b"-", b"+5", b"0",
          # shapes some forms exclude (then only safety / well-formedness is judged): separators of the compound forms, empty
          b"a.b", b"x,y", b"q)", b"gr.", b",", b")", b"",
          # self-overlapping patterns against the probes aaab / xababac / Looop / TestTestTests (a match inside a failed partial match)
          b"aab", b"abac", b"oop", b"TestTests", b"aaab", b"ab", b"oo", b"Looop", b"bab",
          # the ignored probes of the runner registry
          b"ign", b"ig", b"z", b"TestIgn"]
LITERALS = ["-h", "-v", "-vv", "-c", "-p", "-b", "-lg", "-ln", "-ll", "-ri", "-f", "-e", "-ci", "-r", "-g", "-t", "-st", "-xt", "-xst", "-sg",
            "-xg", "-xsg", "-n", "-sn", "-xn", "-xsn", "-s", "TEST(", "IGNORE_TEST(", "-o", "-p", "-k", "-pok"]
TIMES = [0, 1, 1 << 32, (1 << 32) + 5, 0xfffffffff, 12345]


def line(tm, argv, opts=()):
    return "%x %x %s %x %s" % (tm, len(argv), " ".join(tb(a) for a in argv), len(opts), " ".join(opts))


def line_clean(tm, argv, opts=()):
    return " ".join(line(tm, argv, opts).split())


# ------------------------------------------------------------------ documented options
def gen_opt(rng):
    c = rng.random()
    ident = lambda: rng.choice(IDENTS)
    if c < 0.3:
        f = rng.choice(FLAGS[1:]) if rng.random() < 0.97 else ":h"
        return (f, [FLAG_TEXT[f].encode()], [FLAG_TEXT[f].encode()])
    if c < 0.38:
        if rng.random() < 0.4:
            return (":r ~", [b"-r"], [b"-r"])
        d = str(rng.choice([1, 2, 3, 9, 10, 999999999, rng.randrange(1, 10 ** rng.randrange(1, 10))])).encode()
        if rng.random() < 0.15:
            d = b"0" * rng.randrange(1, 3) + d
            d = d[:9] if int(d[:9]) else b"1"
        return (":r " + tb(d), [b"-r" + d], [b"-r", d])
    if c < 0.46:
        if rng.random() < 0.4:
            return (":s ~", [b"-s"], [b"-s"])
        d = str(rng.choice([1, 2, 99, 999999999, rng.randrange(1, 10 ** rng.randrange(1, 10))])).encode()
        return (":s " + tb(d), [b"-s" + d], [b"-s", d])
    if c < 0.58:
        k = rng.randrange(4)
        v = ident()
        return (":g %x %s" % (k, tb(v)), [PRE_G[k].encode() + v], [PRE_G[k].encode(), v])
    if c < 0.7:
        k = rng.randrange(4)
        v = ident()
        return (":n %x %s" % (k, tb(v)), [PRE_N[k].encode() + v], [PRE_N[k].encode(), v])
    if c < 0.8:
        k = rng.randrange(4)
        g, n = ident(), ident()
        return (":t %x %s %s" % (k, tb(g), tb(n)), [PRE_T[k].encode() + g + b"." + n], [PRE_T[k].encode(), g + b"." + n])
    if c < 0.88:
        ig = rng.randrange(2)
        g, n = ident(), ident()
        a = (b"IGNORE_TEST(" if ig else b"TEST(") + g + b", " + n + b")"
        return (":T %x %s %s" % (ig, tb(g), tb(n)), [a], [a])
    if c < 0.94:
        o = rng.randrange(4)
        return (":o %x" % o, [b"-o" + OUTS[o].encode()], [b"-o", OUTS[o].encode()])
    v = ident()
    return (":k " + tb(v), [b"-k" + v], [b"-k", v])


def doc_scenario(rng):
    k = rng.choice([0, 1, 1, 2, 2, 3, 4, 5, 6, 8])
    opts, argv = [], [rng.choice([b"prog", b"", b"./tests", b"-v"])]
    for _ in range(k):
        o, att, sep = gen_opt(rng)
        opts.append(o)
        argv += att if rng.random() < 0.5 else sep
    return line_clean(rng.choice(TIMES) if rng.random() < 0.7 else rng.getrandbits(40), argv, opts)


# ------------------------------------------------------------------ what the runner does with the configuration
APPLY_IDENTS = [b"grp", b"name", b"Group", b"Test", b"a", b"b", b"x", b"y", b"z", b"ign", b"ig", b"TestIgn", b"other", b"g", b"n", b"e", b"G", b"T",
                b"g1", b"t1", b"myname", b"aab", b"oop", b"nomatch"]


def flag(f):
    return (f, [FLAG_TEXT[f].encode()], [FLAG_TEXT[f].encode()])


def rep_opt(rng, lo=1, hi=6):
    if rng.random() < 0.2:
        return (":r ~", [b"-r"], [b"-r"])
    d = str(rng.choice([lo, 2, 2, 3, 3, 4, 5, hi, rng.randrange(lo, hi + 1)])).encode()
    if rng.random() < 0.1:
        d = b"0" + d
    return (":r " + tb(d), [b"-r" + d], [b"-r", d])


def apply_opt(rng):
    c = rng.random()
    ident = lambda: rng.choice(APPLY_IDENTS)
    if c < 0.42:
        return flag(rng.choice([":v", ":v", ":vv", ":vv", ":c", ":b", ":b", ":b", ":ri", ":ri", ":p", ":p", ":f", ":e", ":ci"]))
    if c < 0.47:
        return flag(rng.choice([":lg", ":ln", ":ll"]))
    if c < 0.60:
        return rep_opt(rng, 1, 7 if rng.random() < 0.15 else 6)
    if c < 0.68:
        if rng.random() < 0.4:
            return (":s ~", [b"-s"], [b"-s"])
        d = str(rng.choice([1, 2, 7, 99, 4294967295 % 10 ** 9, rng.randrange(1, 1000)])).encode()
        return (":s " + tb(d), [b"-s" + d], [b"-s", d])
    if c < 0.76:
        k = rng.randrange(4)
        v = ident()
        return (":g %x %s" % (k, tb(v)), [PRE_G[k].encode() + v], [PRE_G[k].encode(), v])
    if c < 0.83:
        k = rng.randrange(4)
        v = ident()
        return (":n %x %s" % (k, tb(v)), [PRE_N[k].encode() + v], [PRE_N[k].encode(), v])
    if c < 0.87:
        k = rng.randrange(4)
        g, n = ident(), ident()
        return (":t %x %s %s" % (k, tb(g), tb(n)), [PRE_T[k].encode() + g + b"." + n], [PRE_T[k].encode(), g + b"." + n])
    if c < 0.90:
        ig = rng.randrange(2)
        g, n = rng.choice([(b"grp", b"ign"), (b"x", b"z"), (b"grp", b"name"), (b"Group", b"TestIgn"), (b"ig", b"name"), (b"a", b"b")])
        a = (b"IGNORE_TEST(" if ig else b"TEST(") + g + b", " + n + b")"
        return (":T %x %s %s" % (ig, tb(g), tb(n)), [a], [a])
    if c < 0.96:
        o = rng.randrange(4)
        return (":o %x" % o, [b"-o" + OUTS[o].encode()], [b"-o", OUTS[o].encode()])
    v = rng.choice([b"pkg", b"p", b"a.b", b"x y"])
    return (":k " + tb(v), [b"-k" + v], [b"-k", v])


def apply_scenario(rng):
    picks = [apply_opt(rng) for _ in range(rng.choice([0, 1, 1, 2, 2, 3, 3, 4, 5, 6, 8]))]
    c = rng.random()
    if c < 0.25:      # -v together with -vv: any order, any multiplicity, other options in between
        picks += [flag(":v")] * rng.choice([1, 1, 2, 3]) + [flag(":vv")] * rng.choice([1, 1, 2, 3])
    elif c < 0.5:     # -b with a repeat count of at least 2
        picks += [flag(":b")] * rng.choice([1, 1, 1, 2, 3]) + [rep_opt(rng, 2, 6)]
    elif c < 0.58:    # a list mode with options that would otherwise act
        picks += [flag(rng.choice([":lg", ":ln", ":ll"])), rng.choice([flag(":b"), flag(":v"), rep_opt(rng, 2, 4), flag(":ri")])]
    elif c < 0.68:    # ignored probes selected, with and without -ri, repeated
        picks += [rng.choice([(":g 0 " + tb(b"ig"), [b"-gig"], [b"-g", b"ig"]), (":n 0 " + tb(b"ign"), [b"-nign"], [b"-n", b"ign"]),
                              (":g 1 " + tb(b"x"), [b"-sgx"], [b"-sg", b"x"]), (":n 2 " + tb(b"name"), [b"-xnname"], [b"-xn", b"name"])])]
        picks += [flag(":ri")] * rng.choice([0, 1, 2]) + ([rep_opt(rng, 2, 3)] if rng.random() < 0.5 else [])
    elif c < 0.76:    # separate process, repeated
        picks += [flag(":p")] * rng.choice([1, 2]) + ([rep_opt(rng, 2, 4)] if rng.random() < 0.6 else [])
    elif c < 0.86:    # output kinds with / without verbosity and a package name
        o = rng.randrange(4)
        picks += [(":o %x" % o, [b"-o" + OUTS[o].encode()], [b"-o", OUTS[o].encode()])]
        picks += rng.choice([[], [flag(":v")], [flag(":vv")], [flag(":c")], [(":k " + tb(b"pkg"), [b"-kpkg"], [b"-k", b"pkg"])], [flag(":vv"), flag(":c"), (":k " + tb(b"pk"), [b"-kpk"], [b"-k", b"pk"])]])
    elif c < 0.94:    # shuffling with a repeat count, with and without -b
        d = str(rng.choice([1, 3, 7, 12345])).encode()
        picks += [rng.choice([(":s ~", [b"-s"], [b"-s"]), (":s " + tb(d), [b"-s" + d], [b"-s", d])]), rep_opt(rng, 1, 4)] + ([flag(":b")] if rng.random() < 0.4 else [])
    rng.shuffle(picks)
    opts, argv = [], [b"prog"]
    for o, att, sep in picks:
        opts.append(o)
        argv += att if rng.random() < 0.5 else sep
    return line_clean(rng.choice(TIMES) if rng.random() < 0.7 else rng.getrandbits(40), argv, opts)


# ------------------------------------------------------------------ safety stream
def junk(rng, n):
    c = rng.random()
    if c < 0.4:
        return bytes(rng.randrange(1, 256) for _ in range(n))
    if c < 0.7:
        return bytes(rng.choice(b"-.,() 0123456789TESTIGNORE_abgnstxrvokp+\t") for _ in range(n))
    return bytes(rng.choice(b"abc.,)( ") for _ in range(n))


def py_digit_run(s):
    n = 0
    for c in s:
        if 48 <= c <= 57:
            n += 1
        else:
            break
    return n


def py_atoi_digits(s):
    i = 0
    while i < len(s) and (s[i] == 32 or 8 < s[i] < 14):
        i += 1
    s = s[i:]
    if s and s[0] in (45, 43):
        s = s[1:]
    return s


def arg_ok(a):
    return 0 not in a and py_digit_run(py_atoi_digits(a)) <= 9 and py_digit_run(py_atoi_digits(a[2:])) <= 9


def tame(a):
    """make an argument valid: cut NULs, break digit runs AtoI could be handed"""
    a = bytes(c for c in a if c != 0)
    while not arg_ok(a):
        # drop one digit of the first long run
        for start in (0, 2):
            d = py_atoi_digits(a[start:])
            if py_digit_run(d) > 9:
                pos = len(a) - len(d)
                a = a[:pos] + a[pos + 1:]
                break
    return a


def verbose_forms(rng):
    g, n = rng.choice(IDENTS), rng.choice(IDENTS)
    pre = rng.choice([b"TEST(", b"IGNORE_TEST("])
    forms = [pre, pre + g, pre + g + b",", pre + g + b", ", pre + g + b", " + n, pre + g + b"," + n + b")", pre + g + b" " + n + b")",
             pre + b")", pre + b",", pre + b",)", pre + b", )", pre + g + b")", pre + g + b")," + n, pre + b"," + n + b")", pre + g + b", " + n + b"))",
             pre + g + b",, " + n + b")", pre + g + b", " + n + b")" + g, pre[:-1], pre + pre + g + b", " + n + b")"]
    return rng.choice(forms)


def dotted_forms(rng):
    g, n = rng.choice(IDENTS), rng.choice(IDENTS)
    v = rng.choice([b"", b".", b"..", g, g + b".", b"." + n, g + b"." + n, g + b"." + n + b".", g + b".." + n, g + b"." + n + b"." + g, b"..." + n,
                    g + b"." + n + b".."])
    p = rng.choice(PRE_T).encode()
    return [p + v] if rng.random() < 0.5 else [p, v]


def numeric_forms(rng):
    p = rng.choice([b"-r", b"-s"])
    v = rng.choice([b"", b"0", b"00", b"1", b"-1", b"+1", b" 7", b"\t\n 8", b"3x", b"x3", b"999999999", b"-999999999", b"4294967295", b"4294967296",
                    b"4294967297", b"99999999999999999999", b"18446744073709551616", b"0x10", b"- 1", b"+-1", b"1 2", b"2147483647", b"i", b"t1", b"g", b"n"])
    return [p + v] if rng.random() < 0.5 else [p, v]


def safety_scenario(rng):
    n = rng.choice([0, 0, 1, 1, 2, 2, 3, 4, 6, 9, 11])
    argv = [b"prog"] if rng.random() < 0.8 else []
    while len(argv) < n + 1 and len(argv) < 12:
        c = rng.random()
        if c < 0.2:
            argv.append(junk(rng, rng.randrange(0, 41)))
        elif c < 0.4:
            argv.append(rng.choice(LITERALS).encode() + junk(rng, rng.randrange(0, 6)))
        elif c < 0.5:
            argv.append(verbose_forms(rng))
        elif c < 0.6:
            argv += dotted_forms(rng)
        elif c < 0.7:
            argv += numeric_forms(rng)
        elif c < 0.8:
            lit = rng.choice(LITERALS)
            argv.append(lit[:rng.randrange(len(lit) + 1)].encode())
        elif c < 0.9:
            o, att, sep = gen_opt(rng)
            argv += att if rng.random() < 0.5 else sep
        else:
            argv.append(rng.choice([b"-o", b"-k", b"-g", b"-xsn", b"-t", b"-onormal", b"-oJUnit", b"-o", b"junit", b"-pok", b"-pokx", b"-pno", b"-po"]))
    if rng.random() < 0.3:    # a value option as the very last argument
        argv.append(rng.choice(["-g", "-sg", "-xg", "-xsg", "-n", "-sn", "-xn", "-xsn", "-t", "-st", "-xt", "-xst", "-o", "-k", "-r", "-s", "TEST(",
                                "IGNORE_TEST("]).encode())
    argv = [tame(a) for a in argv[:12]]
    return line_clean(rng.choice(TIMES), argv)


# ------------------------------------------------------------------ sequences through the static RunAllTests(ac, av)
REJECTED = [[b"-zz"], [b"-h"], [b"-ounknown"], [b"-o"], [b"-tnodot"], [b"-t", b"a.b.c"], [b"-s0"], [b"-s", b"0"], [b"zz"], [b"-"], [b"-v", b"-h"],
            [b"-ggrp", b"-q"], [b"-pfoo"], [b"-pno"], [b"-po"], [b"-v", b"-pfoo"], [b"-xq"], [b"-vvv"], [b"-st"], [b"-k"][:1] + [b"x", b"-y"]]
PLUGIN_OPTS = [b"-pok", b"-pokx", b"-pok=1", b"-px", b"-px1", b"-pfoo", b"-po", b"-pxok", b"-pp", b"-p1"]
PLUGIN_SETS = [[], [], [], [(2, 1)], [(2, 1)], [(3, 0)], [(4, 2)], [(3, 0), (2, 1)], [(2, 1), (4, 2)], [(4, 2), (3, 0), (2, 1)], [(3, 1), (3, 2)],
               [(2, 0)], [(3, 0), (3, 0)]]
CLASH_SETS = [[(0, 0)], [(1, 0)], [(0, 1)], [(2, 1), (1, 0)], [(0, 0), (3, 0), (0, 2)], [(1, 1), (0, 0)]]
FAIL_MASKS = [0, 0, 1, 2, 0x3ffff, 0x10, 0x8000, 0x401, 0x2a5a5]


def seq_line(tm, plugins, mask, calls):
    """calls: list of (argv, opts)"""
    t = [":seq", "%x" % tm, "%x" % len(plugins)] + ["%x %x" % p for p in plugins] + ["%x" % mask, "%x" % len(calls)]
    for argv, _ in calls:
        t += ["%x" % len(argv)] + [tb(a) for a in argv]
    for _, opts in calls:
        t += ["%x" % len(opts)] + list(opts)
    return " ".join(" ".join(t).split())


def seq_run_vector(rng):
    """a documented vector the runner accepts and runs (repeat count <= 6, now and then 7: not handed to the runner)"""
    picks = [apply_opt(rng) for _ in range(rng.choice([0, 0, 1, 1, 1, 2, 2, 3, 4]))]
    picks = [p for p in picks if p[0] != ":h" and not (p[0].split()[0] == ":r" and p[0] != ":r ~" and int(unb(p[0].split()[1])) > 7)]
    c = rng.random()
    if c < 0.2:
        picks.append(flag(":b"))
    elif c < 0.3:
        picks.append(flag(":ri"))
    elif c < 0.4:
        picks.append(rep_opt(rng, 2, 3))
    elif c < 0.5:
        picks.append(rng.choice([(":g 0 " + tb(b"nomatch"), [b"-gnomatch"], [b"-g", b"nomatch"]), (":n 1 " + tb(b"zz"), [b"-snzz"], [b"-sn", b"zz"])]))   # nothing runs: non-zero too
    elif c < 0.55:
        picks.append(flag(rng.choice([":lg", ":ln", ":ll"])))
    rng.shuffle(picks)
    opts, argv = [], [b"prog"]
    for o, att, sep in picks:
        opts.append(o)
        argv += att if rng.random() < 0.5 else sep
    return argv, opts


def seq_vector(rng, earlier):
    c = rng.random()
    if earlier and c < 0.25:          # the same vector again: must come out the same
        return rng.choice(earlier)
    if c < 0.45:
        return [b"prog"] + list(rng.choice(REJECTED)), []
    if c < 0.65:                      # a plugin option, alone or among others
        a = rng.choice(PLUGIN_OPTS)
        if rng.random() < 0.6:
            return [b"prog", a], []
        extra = rng.choice([[b"-v"], [b"-ggrp"], [b"-r2"], [b"-b"], [b"-zz"], [rng.choice(PLUGIN_OPTS)], [b"-g"]])
        return ([b"prog", a] + extra if rng.random() < 0.5 else [b"prog"] + extra + [a]), []
    if c < 0.70:
        return [tame(a) for a in parse_line(safety_scenario(rng))[1]], []
    return seq_run_vector(rng)


def seq_scenario(rng):
    plugins = list(rng.choice(CLASH_SETS)) if rng.random() < 0.1 else list(rng.choice(PLUGIN_SETS))
    mask = rng.choice(FAIL_MASKS) if rng.random() < 0.8 else rng.getrandbits(18)
    c = rng.random()
    calls = []
    rej = lambda: ([b"prog"] + list(rng.choice(REJECTED)), [])
    plug = lambda: ([b"prog", rng.choice(PLUGIN_OPTS)], [])
    if c < 0.12:      # a rejected vector, then a plugin option (offered to the whole chain)
        calls = [rej(), plug()]
    elif c < 0.22:    # a rejected vector, then a run
        calls = [rej(), seq_run_vector(rng)]
    elif c < 0.32:    # a run with failing tests (non-zero for the other reason), then a plugin option / a run / a rejected one
        mask = mask or rng.choice([1, 0x3ffff, 0x12])
        calls = [seq_run_vector(rng), rng.choice([plug, rej, lambda: seq_run_vector(rng)])()]
    elif c < 0.40:    # a clean run (result 0), then the others
        mask = 0
        calls = [([b"prog"], []), rng.choice([plug, rej])(), ([b"prog"], [])]
    elif c < 0.46:    # the same vector three times
        v = seq_vector(rng, [])
        calls = [v, v, v]
    elif c < 0.52:    # help, then a vector that is rejected without asking for help; or the other way round
        h = ([b"prog"] + rng.choice([[b"-h"], [b"-v", b"-h"], [b"-h", b"-zz"]]), [])
        calls = [h, rej()] if rng.random() < 0.7 else [rej(), h, rej()]
    elif c < 0.58:    # two runs asking for different numbers of repetitions / different filters
        calls = [seq_run_vector(rng), ([b"prog"], []), seq_run_vector(rng)][:rng.choice([2, 3])]
    while len(calls) < rng.choice([1, 2, 2, 3, 3, 4, 5, 6]):
        calls.insert(rng.randrange(len(calls) + 1), seq_vector(rng, calls))
    calls = [([tame(a) for a in argv], opts) for argv, opts in calls[:6]]
    return seq_line(rng.choice(TIMES) if rng.random() < 0.7 else rng.getrandbits(40), plugins, mask, calls)


def parse_seq(s):
    """-> tm, plugins, mask, calls [(argv, [opt token lists])]"""
    t = s.split()
    assert t[0] == ":seq"
    tm, np_ = int(t[1], 16), int(t[2], 16)
    plugins = [(int(t[3 + 2 * i], 16), int(t[4 + 2 * i], 16)) for i in range(np_)]
    i = 3 + 2 * np_
    mask, k = int(t[i], 16), int(t[i + 1], 16)
    i += 2
    vs = []
    for _ in range(k):
        n = int(t[i], 16)
        vs.append([bytes.fromhex(x[1:]) for x in t[i + 1:i + 1 + n]])
        i += 1 + n
    anns = []
    rest = t[i:]
    if rest:
        j = 0
        for _ in range(k):
            n = int(rest[j], 16)
            j += 1
            cur = []
            for _o in range(n):
                ar = OPT_ARITY.get(rest[j], 0)
                cur.append(rest[j:j + 1 + ar])
                j += 1 + ar
            anns.append(cur)
    else:
        anns = [[] for _ in vs]
    return tm, plugins, mask, list(zip(vs, anns))


OPT_ARITY = {":r": 1, ":s": 1, ":g": 2, ":n": 2, ":t": 3, ":T": 3, ":o": 1, ":k": 1}


def truncations():
    out = []
    for lit in sorted(set(LITERALS)):
        for k in range(len(lit) + 1):
            out.append(line_clean(5, [b"prog", lit[:k].encode()]))
            out.append(line_clean(5, [b"prog", lit[:k].encode(), b"value"]))
            out.append(line_clean(5, [b"prog", lit.encode() + b"value"[:k]]))
    for pre in (b"TEST(", b"IGNORE_TEST("):
        full = pre + b"grp, name)"
        for k in range(len(full) + 1):
            out.append(line_clean(5, [b"prog", full[:k]]))
            out.append(line_clean(5, [b"prog", full[:k], b"grp, name)"]))
    for n in range(0, 4):
        out.append(line_clean(0, [b"prog"][:n]))
    return out


def generate(tier, rng):
    out = truncations()
    n = 2500 if tier == "quick" else 120000
    for _ in range(n):
        out.append(doc_scenario(rng))
    for _ in range(n):
        out.append(safety_scenario(rng))
    for _ in range(n if tier == "quick" else n // 2):
        out.append(apply_scenario(rng))
    for _ in range(1500 if tier == "quick" else 12000):
        out.append(seq_scenario(rng))
    return out


def parse_line(s):
    t = s.split()
    n = int(t[1], 16)
    argv = [bytes.fromhex(x[1:]) for x in t[2:2 + n]]
    rest = t[2 + n:]
    return int(t[0], 16), argv, rest


def nontrivial(s):
    if s.startswith(":seq"):
        return any(len(v) >= 2 for v, _ in parse_seq(s)[3])
    return int(s.split()[1], 16) >= 2


def vector_kind(argv):
    """coarse kind of one vector of a sequence (for the input distribution only)"""
    args = argv[1:]
    if any(a.startswith(b"-p") and len(a) > 2 for a in args):
        return "plugin-option"
    if any(a in (b"-h",) for a in args):
        return "help"
    known = ("-v", "-vv", "-c", "-p", "-b", "-lg", "-ln", "-ll", "-ri", "-f", "-e", "-ci")
    pref = ("-r", "-g", "-t", "-st", "-xt", "-xst", "-sg", "-xg", "-xsg", "-n", "-sn", "-xn", "-xsn", "-s", "TEST(", "IGNORE_TEST(", "-o", "-k")
    if all(a.decode("latin1") in known or any(a.startswith(q.encode()) for q in pref) for a in args):
        return "run?"
    return "rejected"


def classify_seq(s):
    tm, plugins, mask, calls = parse_seq(s)
    kinds = [vector_kind(v) for v, _ in calls]
    lab = ["seq", "seq:calls:%d" % len(calls), "seq:user-plugins:%d" % len(plugins)]
    if any(n in (0, 1) for n, _ in plugins):
        lab.append("seq:user plugin named like the runner's")
    if mask:
        lab.append("seq:failing tests")
    for a, b in zip(kinds, kinds[1:]):
        lab.append("seq:%s then %s" % (a, b))
    vs = [tuple(v) for v, _ in calls]
    if len(set(vs)) < len(vs):
        lab.append("seq:same vector again")
    if any(o for _, o in calls):
        lab.append("seq:annotated vector")
    return sorted(set(lab))


def classify(s):
    if s.startswith(":seq"):
        return classify_seq(s)
    tm, argv, rest = parse_line(s)
    lab = ["ac:%d" % min(len(argv), 12)]
    nopts = int(rest[0], 16) if rest else 0
    lab.append("documented-options:%d" % nopts if nopts else "unannotated")
    if nopts:
        heads = [o[0] for o in split_opts(rest[1:])]
        reps = [o for o in split_opts(rest[1:]) if o[0] == ":r"]
        many = bool(reps) and (reps[-1][1] == "~" or int(unb(reps[-1][1])) >= 2)
        if ":h" not in heads:
            if ":v" in heads and ":vv" in heads:
                lab.append("apply:-v with -vv (%s last)" % ("-v" if [h for h in heads if h in (":v", ":vv")][-1] == ":v" else "-vv"))
            if ":b" in heads and many:
                lab.append("apply:-b repeated")
            if many:
                lab.append("apply:repeat>=2")
            for h, name in ((":lg", "list"), (":ln", "list"), (":ll", "list"), (":s", "shuffle"), (":p", "separate process"), (":ri", "run ignored"),
                            (":c", "colour"), (":o", "output kind"), (":k", "package")):
                if h in heads:
                    lab.append("apply:" + name)
    for a in argv[1:]:
        for lit in ("TEST(", "IGNORE_TEST(", "-r", "-s", "-t", "-st", "-xt", "-xst", "-o", "-k", "-p", "-h"):
            if a.startswith(lit.encode()):
                lab.append("arg:" + lit)
                break
    return sorted(set(lab))


def seq_calls(o):
    """observation of a sequence -> ([None for :big | (printed, seeds, ran, tags)], finish)"""
    t = o.split()
    i, calls = 1, []
    while i < len(t) and t[i] in (":c", ":big"):
        if t[i] == ":big":
            calls.append(None)
            i += 1
            continue
        pr, seeds, n = t[i + 1], int(t[i + 2], 16), int(t[i + 3], 16)
        ran = t[i + 4:i + 4 + n]
        i += 4 + n
        m = int(t[i], 16)
        tags = t[i + 1:i + 1 + m]
        i += 1 + m
        calls.append((pr, seeds, ran, tags))
    return calls, (t[i] if i < len(t) else "?")


def signature_seq(s, o):
    if o.startswith("!"):
        return "sequence: crash " + o[:70]
    try:
        tm, plugins, mask, vs = parse_seq(s)
        calls, fin = seq_calls(o)
        k = len(calls)
        kind = vector_kind(vs[k][0]) if k < len(vs) else "?"
        if fin == ":hang":
            return "sequence: a call does not return (%s vector, after %d call(s))" % (kind, k)
        if fin != ":end":
            return "sequence: the process died in a call (%s vector, after %d call(s))" % (kind, k)
        init = ["%x" % (i + 1) for i in range(len(plugins))]
        for c in calls:
            if c and "0" in c[3]:
                return "sequence: a plugin of the runner is still installed after the call returned"
        for c in calls:
            if c and c[3] != init and not any(n in (0, 1) for n, _ in plugins):
                return "sequence: the user's plugins are not as before the call"
        for c in calls:
            if c and (c[0] == "3" or (c[0] in ("1", "2") and c[2])):
                return "sequence: a rejected vector is not rejected cleanly"
        return "sequence: a vector is accepted / rejected / run differently from what it says or from the same vector earlier"
    except (ValueError, IndexError):
        return "sequence: unreadable observation"


def signature(s, o):
    if s.startswith(":seq"):
        return signature_seq(s, o)
    tm, argv, rest = parse_line(s)
    if o.startswith("!"):
        return "crash " + o[:70]
    asp = applied_aspect(o)
    if asp:
        return "runner applies: " + asp
    heads = sorted(set((a[:2] if a[:1] == b"-" else a[:5]).decode("latin1") for a in argv[1:]))
    return ("accepted" if o.startswith(":ok") else "rejected") + " with " + ",".join(heads)[:80]


def applied_aspect(o):
    """only for grouping failures into signatures (the judge is the extracted spec): which part of the applied observation looks off"""
    t = o.split()
    if not o.startswith(":ok") or ":app" not in t:
        return None
    try:
        v, vv, c, p, lg, ln, ll, ri, b = [x != "0" for x in t[1:10]]
        shuf, rep, kind = t[12] != "0", int(t[14], 16), t[15]
        i = t.index(":app") + 1
        nouts = int(t[i], 16)
        outs = [t[i + 1 + 4 * k:i + 5 + 4 * k] for k in range(nouts)]
        i += 1 + 4 * nouts + 1
        nreps = int(t[i], 16)
        i += 1
        reps = []
        for _ in range(nreps):
            r = {"level": t[i], "colour": t[i + 1]}
            i += 2
            for key in ("seeds", "started", "ran", "sep"):
                n = int(t[i], 16)
                r[key] = t[i + 1:i + 1 + n]
                i += 1 + n
            reps.append(r)
        level = "2" if vv else "1" if v else "0"
        if not outs or outs[0][0] != kind:
            return "output kind"
        if any(x[2] != level for x in outs) or any(r["level"] != level for r in reps):
            return "verbosity level"
        if any((x[3] != "0") != c for x in outs) or any((r["colour"] != "0") != c for r in reps):
            return "colour"
        if lg or ln or ll:
            return "list mode runs tests" if reps else "listing"
        if nreps != rep:
            return "number of repetitions"
        if any(bool(r["seeds"]) != shuf for r in reps):
            return "shuffle seed"
        if any(r["sep"] != (r["started"] if p else []) for r in reps):
            return "separate process"
        if any(r["started"] != reps[0]["started"] for r in reps) and not shuf:
            return "order differs between repetitions"
        seed = int(t[13], 16) % (1 << 32)
        if any(int(x, 16) != seed for r in reps for x in r["seeds"]):
            return "shuffle seed"
        ign = ("2", "5", "9", "e")
        if any(r["ran"] != [x for x in r["started"] if ri or x not in ign] for r in reps):
            return "ignored tests"
        if not shuf:
            for r in reps:
                ids = [int(x, 16) for x in r["started"]]
                if ids != sorted(ids, reverse=b):
                    return "order"
        return None
    except (ValueError, IndexError):
        return "unreadable"


def shrink_seq(s):
    tm, plugins, mask, calls = parse_seq(s)
    calls = [(v, [" ".join(o) for o in a]) for v, a in calls]
    for i in range(len(calls)):                       # one call less
        yield seq_line(tm, plugins, mask, calls[:i] + calls[i + 1:])
    for i in range(len(plugins)):                     # one plugin less
        yield seq_line(tm, plugins[:i] + plugins[i + 1:], mask, calls)
    if mask:
        yield seq_line(tm, plugins, 0, calls)
        for b in range(18):
            if mask >> b & 1 and mask != 1 << b:
                yield seq_line(tm, plugins, mask & ~(1 << b), calls)
    if tm != 5:
        yield seq_line(5, plugins, mask, calls)
    for i, (v, a) in enumerate(calls):
        if a:                                         # without the annotation
            yield seq_line(tm, plugins, mask, calls[:i] + [(v, [])] + calls[i + 1:])
        for j in range(1, len(v)):                    # one argument less (the annotation no longer holds)
            yield seq_line(tm, plugins, mask, calls[:i] + [(v[:j] + v[j + 1:], [])] + calls[i + 1:])
    for i, (v, a) in enumerate(calls):
        for j in range(1, len(v)):
            for k in range(len(v[j])):
                yield seq_line(tm, plugins, mask, calls[:i] + [(v[:j] + [v[j][:k] + v[j][k + 1:]] + v[j + 1:], [])] + calls[i + 1:])


def shrink(s):
    if s.startswith(":seq"):
        yield from shrink_seq(s)
        return
    tm, argv, rest = parse_line(s)
    nopts = int(rest[0], 16) if rest else 0
    if nopts == 0:
        for i in range(1, len(argv)):
            yield line_clean(tm, argv[:i] + argv[i + 1:])
        for i in range(1, len(argv)):
            a = argv[i]
            for k in range(len(a)):
                yield line_clean(tm, argv[:i] + [a[:k] + a[k + 1:]] + argv[i + 1:])
    else:
        # annotated: the vector without its annotation (well-formedness only), then one option less in either spelling
        yield line_clean(tm, argv)
        opts = split_opts(rest[1:])
        for j in range(len(opts)):
            keep = opts[:j] + opts[j + 1:]
            for form in (0, 1):
                av = [argv[0]]
                for o in keep:
                    av += spell(o, form)
                yield line_clean(tm, av, [" ".join(o) for o in keep])


def project(o, flavour):
    """the order in which a shuffled repetition runs its tests is not part of the observation compared between model and code
    (the model's shuffle is the identity; spec asks for a permutation of the selected tests): ids of a repetition that called srand are sorted"""
    t = o.split()
    if t and t[0] == ":seq":
        return project_seq(o)
    if ":app" not in t:
        return o
    try:
        k = t.index(":app")
        i = k + 1
        nouts = int(t[i], 16)
        i += 1 + 4 * nouts + 1
        nreps = int(t[i], 16)
        i += 1
        for _ in range(nreps):
            i += 2
            nseeds = int(t[i], 16)
            i += 1 + nseeds
            for _l in range(3):
                n = int(t[i], 16)
                if nseeds:
                    t[i + 1:i + 1 + n] = sorted(t[i + 1:i + 1 + n], key=lambda x: int(x, 16))
                i += 1 + n
        return " ".join(t)
    except (ValueError, IndexError):
        return o


def project_seq(o):
    """once a call of the sequence has shuffled the registry (srand called), the order of the tests in that call and in every later one
    is the shuffle's business (C02): their ran lists are compared sorted; of the srand calls only 'any / none' is compared"""
    try:
        calls, fin = seq_calls(o)
        out, shuffled = [":seq"], False
        for c in calls:
            if c is None:
                out.append(":big")
                continue
            pr, seeds, ran, tags = c
            shuffled = shuffled or seeds > 0
            if shuffled:
                ran = sorted(ran, key=lambda x: int(x, 16))
            out += [":c", pr, "1" if seeds else "0", "%x" % len(ran)] + ran + ["%x" % len(tags)] + tags      # how often srand is called: not compared
        return " ".join(out + [fin])
    except (ValueError, IndexError):
        return o


def split_opts(toks):
    res, cur = [], []
    for x in toks:
        if x.startswith(":") and cur:
            res.append(cur)
            cur = []
        cur.append(x)
    if cur:
        res.append(cur)
    return res


def unb(tok):
    return bytes.fromhex(tok[1:])


def spell(o, form):
    k = o[0]
    if k in FLAG_TEXT:
        return [FLAG_TEXT[k].encode()]
    if k in (":r", ":s"):
        p = b"-r" if k == ":r" else b"-s"
        if o[1] == "~":
            return [p]
        return [p + unb(o[1])] if form == 0 else [p, unb(o[1])]
    if k in (":g", ":n"):
        p = (PRE_G if k == ":g" else PRE_N)[int(o[1], 16)].encode()
        return [p + unb(o[2])] if form == 0 else [p, unb(o[2])]
    if k == ":t":
        p = PRE_T[int(o[1], 16)].encode()
        v = unb(o[2]) + b"." + unb(o[3])
        return [p + v] if form == 0 else [p, v]
    if k == ":T":
        return [(b"IGNORE_TEST(" if o[1] != "0" else b"TEST(") + unb(o[2]) + b", " + unb(o[3]) + b")"]
    if k == ":o":
        v = OUTS[int(o[1], 16)].encode()
        return [b"-o" + v] if form == 0 else [b"-o", v]
    if k == ":k":
        return [b"-k" + unb(o[1])] if form == 0 else [b"-k", unb(o[1])]
    raise ValueError(k)


LEVEL_TEXT = ("Machine-checked (Coq) theorems over an executable model of CommandLineArguments::parse that walks the dispatch table re-read from "
              "the source (a reordering of the else-if chain re-checks every theorem), with getParameterField, setRepeatCount, setShuffle, the "
              "group.name and TEST(group, name) slicing, output type and package: (1) totality -- structural recursion over argv, every dispatch "
              "rule has an action, result is reject or configuration; (2) memory safety -- the same parser written over C buffers with the "
              "bounds-checked SimpleString primitives of the C13 model (pointer steps av[i]+2 / +len, av[i+1], at(0), subString, split, AtoI, "
              "AtoU) returns Ok of the list-level result for EVERY valid argv (the pre-a2ff8a1 subString is refuted on 'TEST('); (3) meaning -- "
              "for every sequence of documented options, every attached/separated spelling, values of the stated shapes, parse = documented "
              "configuration (-h anywhere: help); (4) reject => usage/help printed and runAllTests not called (the deciding lines of "
              "CommandLineTestRunner); (5) filters: each kind accepts exactly substring/equal/negations, and a vector that is one "
              "test-selection option selects exactly what its sentence in help() -- re-read from the source -- names; (6) the runner applies "
              "the configuration: a mirror of parseArguments' accepted branch, initializeTestRun and runAllTests over an 18-test probe registry "
              "(config -> outputs created with level/colour, listing text, list of repetitions each with level, colour, srand seeds, tests "
              "started / run / switched to separate-process mode) is proved, for EVERY configuration and for every spelling of every documented "
              "option sequence, to be the documented meaning: highest verbosity asked for wins in any order/multiplicity, -b reverses every "
              "repetition, repeat count n gives n alike repetitions, ignored tests run exactly under -ri, -p reaches every started test, the "
              "output is of the configured kind with the package name, list modes print their listing and run nothing, srand gets the configured "
              "seed.  Tied to the code by a "
              "differential run on exact-size heap argv under ASan/UBSan with the extracted spec as judge; every accepted vector (repeat count "
              "<= 6) is also run through the real CommandLineTestRunner with recording outputs, recording probe tests and a logging srand.  "
              "(7) sequences of vectors through the static RunAllTests(ac, av) on the current registry, the plugin chain and the registry being state "
              "of the model across the calls (install leak plugin, install pointer plugin, parse with the chain as it is, run on the registry as it "
              "is, remove both by name): every call returns; the chain after a call is the chain before it -- accepted, rejected, tests failing, "
              "nothing selected: whatever the result (proved for every state; the early-return runner of red team C12-2 is refuted); after ANY "
              "sequence of earlier calls and with ANY user plugins a documented vector is rejected with help or accepted and runs the selected "
              "tests as often as asked (documented options are never handed to the plugin chain), a -p<x> vector is accepted exactly when a "
              "user plugin takes it, and the same vector has the same outcome.  Tied to the code by running every sequence in a forked child "
              "(CPU-time limit + alarm: a call that does not return is an observation, not a wait) with the real console output captured at the "
              "PlatformSpecificFPuts seam, 18 probe tests some of which fail, user plugins, and a walk of the plugin chain after every call.")
LEVEL_NOTE = ("Partial for memory safety: the Coq statement is about the bounds-checked model (Oob/NoFuel/Ub are results it can return and "
              "provably does not); real heap accesses are seen only by the sanitizers on the generated vectors. Trusted: Coq kernel, "
              "extraction, harness, generator, tools/gen/C12.py (dispatch chain, output names, help sentences by anchored regexes). "
              "Excluded by precondition: NUL inside an argument, arguments of 4 GiB or more, AtoI on more than 9 digits (atoi's contract). "
              "Modelled not verified: the C++ itself; the plugin is the harness's (-pok...); the help text gives no rule for combining "
              "several selection options (modelled as the code does: OR inside the group list and inside the name list, AND between "
              "them -- two -xg therefore do not both exclude); of the runner: the order after a shuffle (the model's shuffle is the identity, "
              "the oracle asks for a permutation of the selected tests and the configured seed at srand; C02 models the permutation), repeat "
              "counts above 6 (not run), -f/-e/-ci (parsed, not observed at the runner), what the real Console/JUnit/TeamCity outputs print "
              "(C16/C20), failure counting and exit value (C01); in sequences: the registry's sticky switches (-ri, -p stay on, -b / -s leave "
              "the order changed for the next call: modelled as the code does, the oracle only fixes the tests that are not IGNORE_TESTs and, "
              "under -ri, all of them), crash-on-fail (-f stays on in the library; the crash method is a no-op in the harness), what the "
              "leak plugin reports, user plugins that act on tests.")
TECHNIQUE = "Coq proof over hand-written executable models (list level + bounds-checked buffer level) driven by source-extracted dispatch/help tables + differential check under sanitizers"
READY = True
