"""C16 -- JUnit report is well-formed XML and faithful to the run.
Scenario:  <package> <ntests> { <group> <name> <file> <line> <ignored> <nstmts> { :p <text> | :f <file> <line> <msg> | :x <file> <line> <msg> } }
           (:p = TestResult::print, :f = addFailure and continue, :x = fail() and leave the test; tests run in the order given)
Observation: <nfiles> { <filename> <content> } -- every file JUnitTestOutput wrote through the PlatformSpecificFOpen/FPuts/FClose seams.
Judges: the extracted Coq `spec` (xml_parse + property) and, independently, Python's expat + a property check written here."""
import xml.parsers.expat as expat
from vlib import tb

ID = "C16"
FLAVOURS = ["asan"]
HARNESS_SRCS = ["harness/C16.cpp"]
RULE = ("runs of 1-6 groups x 1-8 scripted tests (pass / fail once / fail several times / fail() then unreachable statements / ignored / printing), "
        "package empty or not; every text (package, group, test name, source path, failure path, message, printed text) drawn from printable "
        "ASCII + CR + LF weighted to & < > \" ' ] and to fragments such as &amp; &#10; ]]> <!-- </testcase> \"/> ; group and package names also "
        "weighted to the characters encodeFileName replaces. A hand-written corpus puts each special character alone into each field. "
        "non-trivial = some text contains a character with XML meaning, or the run has a failure, an ignored test or more than one group")
ASSUMPTIONS = ["texts are over printable ASCII (0x20-0x7e) plus CR and LF; TAB and bytes >= 0x80 are outside the property's quantifier",
               "line numbers and counts fit in int (they are printed through (int) casts with %d)",
               "tests of a group run consecutively, no filters (every registered test runs)",
               "the clock seams return constants (time attributes are not constrained by the property)"]
PER_TIMEOUT = 30.0
CRASH_IS_VIOLATION = True

SPECIAL = b"&<>\"'\r\n]"
FRAGS = [b"&amp;", b"&lt;", b"&#10;", b"&#13;", b"&quot;", b"]]>", b"<!--", b"-->", b"<![CDATA[", b"</testcase>", b"\"/>", b"\" x=\"", b"\r\n", b"&&", b"<>",
         b"&#", b"&;", b"&amp", b" ", b"  ", b"''", b"\"\"", b"</system-out>", b"<a", b"?>", b"<?", b"&gt;&gt;", b"\n\n", b"\r"]
FORBIDDEN = b"/\\?%*:|\"<>"


def text(rng, maxlen=12, p_special=0.35, extra=b""):
    if rng.random() < 0.08:
        return b""
    out = b""
    n = rng.randrange(1, maxlen + 1)
    while len(out) < n:
        c = rng.random()
        if c < p_special:
            out += bytes([rng.choice(SPECIAL + extra)])
        elif c < p_special + 0.12:
            out += rng.choice(FRAGS)
        else:
            out += bytes([rng.randrange(0x20, 0x7f)])
    return out


def plain(rng, maxlen=8):
    return bytes(rng.choice(b"abcxyzGT_019.") for _ in range(rng.randrange(1, maxlen + 1)))


def ser_stmt(st):
    if st[0] == "p":
        return ":p " + tb(st[1])
    return ":%s %s %x %s" % (st[0], tb(st[1]), st[2], tb(st[3]))


def ser(pkg, tests):
    out = [tb(pkg), "%x" % len(tests)]
    for (g, n, f, l, ign, body) in tests:
        out += [tb(g), tb(n), tb(f), "%x" % l, "1" if ign else "0", "%x" % len(body)] + [ser_stmt(s) for s in body]
    return " ".join(out)


def unb(tok):
    return bytes.fromhex(tok[1:])


def parse_scn(s):
    t = s.split()
    i = 0
    pkg = unb(t[0]); n = int(t[1], 16); i = 2
    tests = []
    for _ in range(n):
        g, nm, f, l, ign, m = unb(t[i]), unb(t[i + 1]), unb(t[i + 2]), int(t[i + 3], 16), t[i + 4] != "0", int(t[i + 5], 16)
        i += 6
        body = []
        for _ in range(m):
            tag = t[i][1:]
            if tag == "p":
                body.append(("p", unb(t[i + 1]))); i += 2
            else:
                body.append((tag, unb(t[i + 1]), int(t[i + 2], 16), unb(t[i + 3]))); i += 4
        tests.append((g, nm, f, l, ign, body))
    return pkg, tests


def gen_run(rng, special=True, big=False):
    tx = (lambda m=12, extra=b"": text(rng, m, extra=extra)) if special else (lambda m=12, extra=b"": plain(rng))
    pkg = b"" if rng.random() < 0.5 else tx(8, FORBIDDEN)
    ngroups = rng.randrange(1, 7 if not big else 10)
    tests = []
    prev = None
    for _ in range(ngroups):
        g = tx(8, FORBIDDEN)
        while g == prev:
            g = g + b"x"
        prev = g
        tfile = tx(10)
        for _ in range(rng.randrange(1, 9 if not big else 14) if rng.random() < 0.7 else 1):
            name = tx(10)
            f = tfile if rng.random() < 0.7 else tx(10)
            line = rng.choice([0, 1, 9, 10, 99, 100, 12345, 2147483647, rng.randrange(1, 100000)])
            kind = rng.random()
            body = []
            if kind < 0.15:
                tests.append((g, name, f, line, True, [("p", tx())] if rng.random() < 0.3 else []))
                continue
            for _ in range(rng.choice([0, 0, 1, 1, 2, 3, 5])):
                c = rng.random()
                if c < 0.4:
                    body.append(("p", tx(16)))
                else:
                    ff = f if rng.random() < 0.5 else tx(10)
                    ll = rng.choice([0, 7, 10, 4294967, 2147483647, rng.randrange(1, 5000)])
                    body.append(("f" if c < 0.75 else "x", ff, ll, tx(20)))
            tests.append((g, name, f, line, False, body))
    return ser(pkg, tests)


def corpus_like():
    """each special character alone in each field, one field at a time"""
    out = []
    chars = [b"&", b"<", b">", b"\"", b"'", b"\r", b"\n", b"]]>", b"&amp;", b"/", b"\\", b"?", b"%", b"*", b":", b"|", b" ", b""]
    for ch in chars:
        for field in range(8):
            v = [b"p", b"G", b"t", b"a.cpp", b"b.cpp", b"msg", b"out", b"H"]
            v[field] = b"a" + ch + b"b" if ch else b""
            tests = [(v[1], v[2], v[3], 10, False, [("p", v[6]), ("f", v[4], 12, v[5]), ("f", v[4], 13, b"second")]),
                     (v[1], b"t2", v[3], 20, True, []),
                     (v[7], b"t3", v[3], 30, False, [("x", v[3], 31, v[5]), ("p", b"unreachable")]),
                     (v[7], b"t4", v[3], 40, False, [])]
            out.append(ser(v[0], tests))
            out.append(ser(b"", tests[:1]))
    return out


def generate(tier, rng):
    out = corpus_like()
    n = 450 if tier == "quick" else 30000
    for k in range(n):
        out.append(gen_run(rng, special=(k % 10 != 0), big=(tier != "quick" and k % 50 == 0)))
    return out


def _texts(s):
    pkg, tests = parse_scn(s)
    names = [pkg] + [x for t in tests for x in (t[0], t[1], t[2])] + [st[1] for t in tests for st in t[5] if st[0] != "p"]
    msgs = [st[3] for t in tests for st in t[5] if st[0] != "p"]
    prints = [st[1] for t in tests for st in t[5] if st[0] == "p"]
    return pkg, tests, names, msgs, prints


def _has(bs, chars=b"&<>\"'\r\n"):
    return any(c in chars for b in bs for c in b)


def nontrivial(s):
    pkg, tests, names, msgs, prints = _texts(s)
    return (_has(names) or _has(msgs) or _has(prints) or len(set(t[0] for t in tests)) > 1
            or any(t[4] for t in tests) or any(st[0] != "p" for t in tests for st in t[5]))


def classify(s):
    pkg, tests, names, msgs, prints = _texts(s)
    lab = ["groups=%d" % min(6, len(segments(tests))), "tests=%s" % ("1" if len(tests) == 1 else "2-5" if len(tests) <= 5 else "6-15" if len(tests) <= 15 else "16+")]
    if pkg: lab.append("package")
    if any(t[4] for t in tests): lab.append("ignored test")
    nf = [sum(1 for st in t[5] if st[0] != "p") for t in tests]
    if any(x == 1 for x in nf): lab.append("test failing once")
    if any(x > 1 for x in nf): lab.append("test failing several times")
    if any(st[0] == "x" for t in tests for st in t[5]): lab.append("fail() terminates test")
    if _has(names): lab.append("markup char in a name/path")
    if _has(msgs): lab.append("markup char in a message")
    if _has(prints): lab.append("markup char in printed text")
    if _has(names + msgs + prints, b"\r\n"): lab.append("CR/LF")
    if any(c in FORBIDDEN for b in [pkg] + [t[0] for t in tests] for c in b): lab.append("file-name-forbidden char in group/package")
    return lab


# ------------------------------------------------------------------ independent judge: expat + the property, in Python
def segments(tests):
    segs = []
    for t in tests:
        if segs and segs[-1][0][0] == t[0]:
            segs[-1].append(t)
        else:
            segs.append([t])
    return segs


def expat_tree(data):
    """-> nested [name, attrs(dict of bytes->bytes), children] with text children as bytes; raises ExpatError"""
    p = expat.ParserCreate()
    p.buffer_text = True
    root = ["#doc", {}, []]
    stack = [root]
    def start(name, attrs):
        e = [name, attrs, []]
        stack[-1][2].append(e)
        stack.append(e)
    def end(name):
        stack.pop()
    def chars(d):
        if stack[-1][2] and isinstance(stack[-1][2][-1], str):
            stack[-1][2][-1] += d
        else:
            stack[-1][2].append(d)
    p.StartElementHandler = start
    p.EndElementHandler = end
    p.CharacterDataHandler = chars
    p.Parse(data, True)
    return root[2][0]


def reached(body):
    out = []
    for st in body:
        out.append(st)
        if st[0] == "x":
            break
    return out


def expected_filename(pkg, group):
    n = b"cpputest_" + ((pkg + b"_") if pkg else b"") + group
    return bytes(0x5f if c in FORBIDDEN else c for c in n) + b".xml"


def judge_file(g, content, printed_all, printed_own):
    """None or text of what is wrong with the report of group g (list of tests)"""
    try:
        root = expat_tree(content)
    except expat.ExpatError as e:
        return "ill-formed XML (expat: %s)" % e
    L = lambda b: b.decode("latin-1")
    if root[0] != "testsuite":
        return "root element is not testsuite"
    a = root[1]
    if a.get("name") != L(g[0][0]):
        return "suite name"
    try:
        if int(a.get("tests", "x")) != len(g):
            return "suite tests count"
        nfail = sum(1 for t in g if not t[4] and any(st[0] != "p" for st in reached(t[5])))
        if int(a.get("failures", "x")) != nfail:
            return "suite failures count"
    except ValueError:
        return "suite counts are not numbers"
    tcs = [k for k in root[2] if not isinstance(k, str) and k[0] == "testcase"]
    if len(tcs) != len(g):
        return "number of testcase elements"
    for t, tc in zip(g, tcs):
        at = tc[1]
        if at.get("name") != L(t[1]):
            return "testcase name"
        if at.get("file") != L(t[2]):
            return "testcase file"
        if at.get("line") != str(t[3]):
            return "testcase line"
        kids = [k for k in tc[2] if not isinstance(k, str)]
        if any(k[0] == "skipped" for k in kids) != t[4]:
            return "skipped marker"
        fl = [k for k in kids if k[0] == "failure"]
        fs = [] if t[4] else [st for st in reached(t[5]) if st[0] != "p"]
        if bool(fl) != bool(fs) or len(fl) > 1:
            return "failure element presence"
        if fs and fl[0][1].get("message") != L(fs[0][1]) + ":" + str(fs[0][2]) + ": " + L(fs[0][3]):
            return "failure message"
    so = [k for k in root[2] if not isinstance(k, str) and k[0] == "system-out"]
    if len(so) != 1:
        return "system-out element"
    txt = "".join(k for k in so[0][2] if isinstance(k, str))
    if txt != L(printed_all) and txt != L(printed_own):
        return "system-out text"
    return None


def obs_files(obs):
    t = obs.split()
    n = int(t[0], 16)
    return [(unb(t[1 + 2 * i]), unb(t[2 + 2 * i])) for i in range(n)]


def judge(s, obs):
    pkg, tests = parse_scn(s)
    segs = segments(tests)
    files = obs_files(obs)
    if len(files) != len(segs):
        return "number of files written (%d) differs from the number of groups (%d)" % (len(files), len(segs))
    printed = b""
    for k, (g, (fn, content)) in enumerate(zip(segs, files)):
        own = b"".join(st[1] for t in g if not t[4] for st in reached(t[5]) if st[0] == "p")
        printed += own
        if fn != expected_filename(pkg, g[0][0]):
            return "file name of group %d" % k
        w = judge_file(g, content, printed, own)
        if w:
            return "group %d: %s" % (k, w)
    return None


def extra_oracle(s, obs, flavour):
    w = judge(s, obs)
    return ("independent judge (Python expat): " + w) if w else None


def project(obs, flavour):
    """only what the property constrains: file names + the expat tree reduced to the constrained fields"""
    try:
        files = obs_files(obs)
    except Exception:
        return obs
    out = []
    for fn, content in files:
        try:
            r = expat_tree(content)
        except expat.ExpatError:
            out.append((fn, "ILL-FORMED"))
            continue
        tcs = []
        for k in r[2]:
            if not isinstance(k, str) and k[0] == "testcase":
                kids = [x for x in k[2] if not isinstance(x, str)]
                tcs.append((k[1].get("name"), k[1].get("file"), k[1].get("line"), any(x[0] == "skipped" for x in kids),
                            [x[1].get("message") for x in kids if x[0] == "failure"]))
        so = ["".join(x for x in k[2] if isinstance(x, str)) for k in r[2] if not isinstance(k, str) and k[0] == "system-out"]
        out.append((fn, r[0], r[1].get("name"), r[1].get("tests"), r[1].get("failures"), tcs, so))
    return repr(out)


def signature(s, obs):
    if obs.startswith("!"):
        return "crash " + obs[:60]
    w = judge(s, obs) or "coq spec only"
    import re
    w = re.sub(r"group \d+: ", "", w)
    w = re.sub(r"\(expat: [^)]*\)", "", w).strip()
    pkg, tests, names, msgs, prints = _texts(s)
    where = []
    if _has(names): where.append("name/path")
    return "%s [markup char in: %s]" % (w, ",".join(where) or "-")


def shrink(s):
    pkg, tests = parse_scn(s)
    if pkg:
        yield ser(b"", tests)
    for i in range(len(tests)):
        if len(tests) > 1:
            yield ser(pkg, tests[:i] + tests[i + 1:])
    for i, t in enumerate(tests):
        g, n, f, l, ign, body = t
        for j in range(len(body)):
            yield ser(pkg, tests[:i] + [(g, n, f, l, ign, body[:j] + body[j + 1:])] + tests[i + 1:])
    def shorter(b):
        if len(b) > 1:
            yield b[:len(b) // 2]
            yield b[len(b) // 2:]
        if len(b) > 0:
            for k in range(len(b)):
                yield b[:k] + b[k + 1:]
    for c in shorter(pkg):
        yield ser(c, tests)
    for i, t in enumerate(tests):
        g, n, f, l, ign, body = t
        for fld in range(3):
            for c in shorter(t[fld]):
                if fld == 0:
                    # keep the group structure: rename every test of this name
                    yield ser(pkg, [((c,) + x[1:]) if x[0] == g else x for x in tests])
                else:
                    tt = list(t); tt[fld] = c
                    yield ser(pkg, tests[:i] + [tuple(tt)] + tests[i + 1:])
        if l > 1:
            yield ser(pkg, tests[:i] + [(g, n, f, 1, ign, body)] + tests[i + 1:])
        for j, st in enumerate(body):
            for fld in ([1] if st[0] == "p" else [1, 3]):
                for c in shorter(st[fld]):
                    ss = list(st); ss[fld] = c
                    yield ser(pkg, tests[:i] + [(g, n, f, l, ign, body[:j] + [tuple(ss)] + body[j + 1:])] + tests[i + 1:])


LEVEL_TEXT = ("Machine-checked (Coq) theorems over an executable model of JUnitTestOutput driven by the callback order of TestRegistry::runAllTests: "
              "the six sequential replace passes of encodeXmlText collapse to a per-byte escape table; escaped text contains no markup; unescape(escape s) = s "
              "for all s; for every run over printable text the report of each group, parsed by an XML parser written in Coq, yields exactly the tree that "
              "states the property (one file per group, true counts, one testcase per test in order with name/file/line, skipped iff ignored, failure iff failed "
              "with file:line: first message, system-out = printed text); file-name rule. Tied to the code by a differential run of the extracted model against a "
              "real JUnitTestOutput (files captured at the platform seams), judged by the extracted spec and independently by Python's expat.")
LEVEL_NOTE = ("Trusted: Coq kernel, extraction, harness, generators, Python expat. Modelled not verified: the C++ itself; StringFromFormat/vsnprintf content "
              "(%d, %s copying) is modelled; time attributes are constants supplied by the harness; the XML parser covers the subset of XML 1.0 the writer can "
              "emit (no DTD, comments, CDATA, PIs, non-ASCII).")
TECHNIQUE = "Coq proof over hand-written executable model (writer + XML parser round trip) + extracted-model/implementation correspondence check with an independent XML parser as second judge"
READY = True
