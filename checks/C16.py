"""C16 -- JUnit report is well-formed XML and faithful to the run.
Scenario:  <ntests> { <nops> { op } <group> <name> <file> <line> <ignored> <nstmts> { :p <text> | :f <file> <line> <msg> | :x <file> <line> <msg> } } <npost> { op }
           (:p = TestResult::print, :f = addFailure and continue, :x = fail() and leave the test; tests run in the order given)
           op = :k <package> (setPackageName) | :n <group> (createFileName, the answer is observed).  The ops in front of a test are made on the
           output object just before its printCurrentTestStarted callback, the trailing ones after runAllTests returned; no :k = package never set.
           Optional tail  :F <run-ignored> <ngroupfilters> { <pattern> <strict> <invert> } <nnamefilters> { <pattern> <strict> <invert> }  = -ri and the
           group / name filters (-g -sg -xg -xsg / -n -sn -xn -xsn) installed in the real TestRegistry; a test that is filtered out gets no callback (its
           ops are never made), but the registry still sends group started / ended for a stretch none of whose tests is selected.
Observation: <nfiles> { <filename> <content> } <nnames> { <answer> } -- the files that EXIST AT THE END of the run (written through the
           PlatformSpecificFOpen/FPuts/FClose seams into a map name -> content: a second open of a name replaces what was there), in the order of the
           first opens, and what each createFileName call answered.
Judges: the extracted Coq `spec` (xml_parse + property) and, independently, Python's expat + a property check written here."""
import xml.parsers.expat as expat
from vlib import tb

ID = "C16"
FLAVOURS = ["asan"]
HARNESS_SRCS = ["harness/C16.cpp"]
RULE = ("runs of 1-6 groups x 1-8 scripted tests (pass / fail once / fail several times / fail() then unreachable statements / ignored / printing); "
        "every text (package, group, test name, source path, failure path, message, printed text) drawn from printable "
        "ASCII + CR + LF weighted to & < > \" ' ] and to fragments such as &amp; &#10; ]]> <!-- </testcase> \"/> ; group and package names also "
        "weighted to the characters encodeFileName replaces. A hand-written corpus puts each special character alone into each field. "
        "Package: set once before the run / never / late (after createFileName was asked, after the first group, inside a group) / changed before "
        "each group / set twice / set to empty again, with createFileName asked before, between and after (random runs, plus an exhaustive family: "
        "every triple of short op sequences in front of group 1, in front of group 2 and after a two-group run). "
        "Long texts: captured output and failure messages of 1023..1025, 2047..2049, 3071..3073, 4095..4097, 5000, 10 k, 20 k, 40 k characters "
        "(thorough: up to 100 k), printed at once, in chunks, or accumulated over several groups, with characters needing escaping on and around "
        "every multiple of 1024. Filtered runs through the real TestRegistry (setGroupFilters / setNameFilters / setRunIgnored): eleven registry layouts "
        "(2-5 stretches; the same group name in two stretches; one name containing another; two groups sharing a file name; a group with the empty name) "
        "x eleven group filter lists (strict, substring, inverted, two filters, nothing matching) x six name filter lists, -ri with ignored tests, outside "
        "calls attached to filtered tests; plus random runs with filters cut from their own group / test names: stretches fully filtered before, between "
        "and after groups that ran, groups partially filtered (first / middle / last test), nothing selected. non-trivial = some text contains a character with XML meaning, or the run has a failure, an ignored test, an "
        "outside call, a filter or more than one group")
ASSUMPTIONS = ["texts are over printable ASCII (0x20-0x7e) plus CR and LF; TAB and bytes >= 0x80 are outside the property's quantifier",
               "line numbers and counts fit in int (they are printed through (int) casts with %d)",
               "tests of a group are registered consecutively (the default order); group = a maximal stretch of equally named tests in the registry; with filters, "
               "a group 'ran' when at least one of its tests is selected, and only its selected tests are its tests",
               "two stretches that map to one file name (the same group name twice = outside the property's quantifier; 'a/b' and 'a_b' = the naming rule itself): "
               "only the later one is judged",
               "the file the code writes for a stretch none of whose tests is selected (an empty suite under cpputest_[package_].xml) is not judged; a group with the "
               "EMPTY name that ran and is followed by such a stretch loses its report to it in the unchanged code -- reported as an observation, not judged",
               "the clock seams return constants (time attributes are not constrained by the property)",
               "setPackageName / createFileName are called between callbacks (before a test's start callback, before or after the run), not from inside a writer function",
               "system-out of a group may carry either the text captured so far in the whole run (what the code does: the capture is never cleared) or the group's own text"]
PER_TIMEOUT = 30.0
CRASH_IS_VIOLATION = True

SPECIAL = b"&<>\"'\r\n]"
FRAGS = [b"&amp;", b"&lt;", b"&#10;", b"&#13;", b"&quot;", b"]]>", b"<!--", b"-->", b"<![CDATA[", b"</testcase>", b"\"/>", b"\" x=\"", b"\r\n", b"&&", b"<>",
         b"&#", b"&;", b"&amp", b" ", b"  ", b"''", b"\"\"", b"</system-out>", b"<a", b"?>", b"<?", b"&gt;&gt;", b"\n\n", b"\r"]
FORBIDDEN = b"/\\?%*:|\"<>"


def text(rng, maxlen=12, p_special=0.35, extra=b""):
    if rng.random() < 0.08:
        return b""
    out = b""
    n = rng.randrange(1, maxlen + 1)
    while len(out) < n:
        c = rng.random()
        if c < p_special:
            out += bytes([rng.choice(SPECIAL + extra)])
        elif c < p_special + 0.12:
            out += rng.choice(FRAGS)
        else:
            out += bytes([rng.randrange(0x20, 0x7f)])
    return out


def plain(rng, maxlen=8):
    return bytes(rng.choice(b"abcxyzGT_019.") for _ in range(rng.randrange(1, maxlen + 1)))


def long_text(rng, n, mode):
    """exactly n characters; mode 0 = letters only, 1 = characters needing escaping on and around every multiple of 1024 (and 1000), 2 = special everywhere"""
    if mode == 0:
        return bytes(0x61 + (i // 7) % 26 for i in range(n))
    b = bytearray(rng.randrange(0x20, 0x7f) if rng.random() < 0.9 else rng.choice(SPECIAL) for _ in range(n)) if mode == 2 \
        else bytearray(0x41 + (i // 11) % 26 for i in range(n))
    for base in list(range(0, n + 1, 1024)) + list(range(0, n + 1, 1000)):
        for d in (-2, -1, 0, 1):
            if 0 <= base + d < n and rng.random() < 0.8:
                b[base + d] = rng.choice(b"&<>\"\r\n'")
    return bytes(b)


# ---- scenario <-> text.  test = (ops, group, name, file, line, ignored, body); op = ("k", package) | ("n", group)
def ser_stmt(st):
    if st[0] == "p":
        return ":p " + tb(st[1])
    return ":%s %s %x %s" % (st[0], tb(st[1]), st[2], tb(st[3]))


def ser_ops(ops):
    return ["%x" % len(ops)] + [":%s %s" % (k, tb(v)) for k, v in ops]


def ser(tests, post=(), flt=None):
    """flt = None | (run_ignored, [group filter], [name filter]) with filter = (pattern, strict, invert)"""
    out = ["%x" % len(tests)]
    for (ops, g, n, f, l, ign, body) in tests:
        out += ser_ops(ops) + [tb(g), tb(n), tb(f), "%x" % l, "1" if ign else "0", "%x" % len(body)] + [ser_stmt(s) for s in body]
    out += ser_ops(list(post))
    if flt is not None and (flt[0] or flt[1] or flt[2]):
        out += [":F", "1" if flt[0] else "0"]
        for fs in (flt[1], flt[2]):
            out += ["%x" % len(fs)] + ["%s %d %d" % (tb(p), 1 if st else 0, 1 if inv else 0) for p, st, inv in fs]
    return " ".join(out)


def with_pkg(pkg, plain_tests, post=()):
    """the old form: the package set once before anything else ('' = never set)"""
    ts = [((), ) + tuple(t) for t in plain_tests]
    if pkg and ts:
        ts[0] = ((("k", pkg),),) + ts[0][1:]
    return ser(ts, post)


def unb(tok):
    return bytes.fromhex(tok[1:])


def parse_full(s):
    """-> tests, post, (run_ignored, group filters, name filters)"""
    t = s.split()
    pos = [0]
    def nxt():
        pos[0] += 1
        return t[pos[0] - 1]
    def ops():
        return [(nxt()[1:], unb(nxt())) for _ in range(int(nxt(), 16))]
    tests = []
    for _ in range(int(nxt(), 16)):
        o = ops()
        g, nm, f, l, ign, m = unb(nxt()), unb(nxt()), unb(nxt()), int(nxt(), 16), nxt() != "0", int(nxt(), 16)
        body = []
        for _ in range(m):
            tag = nxt()[1:]
            if tag == "p":
                body.append(("p", unb(nxt())))
            else:
                body.append((tag, unb(nxt()), int(nxt(), 16), unb(nxt())))
        tests.append((o, g, nm, f, l, ign, body))
    post = ops()
    flt = (False, [], [])
    if pos[0] < len(t):
        if nxt() != ":F":
            raise ValueError("tail")
        ri = nxt() != "0"
        fl = []
        for _ in range(2):
            fl.append([(unb(nxt()), nxt() != "0", nxt() != "0") for _ in range(int(nxt(), 16))])
        flt = (ri, fl[0], fl[1])
    return tests, post, flt


def parse_scn(s):
    tests, post, flt = parse_full(s)
    return tests, post


def f_match(f, target):
    pat, strict, invert = f
    return ((target == pat) if strict else (pat in target)) != invert


def fs_match(fs, target):
    return True if not fs else any(f_match(f, target) for f in fs)


def is_selected(flt, t):
    return fs_match(flt[1], t[1]) and fs_match(flt[2], t[2])


def armed(tests, flt):
    """-ri: every ignored test runs like a plain one"""
    return [(t[0], t[1], t[2], t[3], t[4], t[5] and not flt[0], t[6]) for t in tests]


def gen_ops(rng, tx, groups, never_empty=False):
    """a short sequence of outside calls"""
    out = []
    for _ in range(rng.choice([1, 1, 1, 2, 2, 3])):
        c = rng.random()
        if c < 0.55:
            out.append(("k", b"" if (rng.random() < 0.2 and not never_empty) else tx(8, FORBIDDEN)))
        else:
            out.append(("n", rng.choice(groups) if groups and rng.random() < 0.6 else tx(8, FORBIDDEN)))
    return out


def gen_run(rng, special=True, big=False, pkgmode=None):
    tx = (lambda m=12, extra=b"": text(rng, m, extra=extra)) if special else (lambda m=12, extra=b"": plain(rng))
    if pkgmode is None:
        pkgmode = rng.choice(["once", "once", "once", "never", "late", "late", "changing", "changing", "wild"])
    ngroups = rng.randrange(1, 7 if not big else 10)
    tests = []
    prev = None
    gnames = []
    for gi in range(ngroups):
        g = tx(8, FORBIDDEN)
        while g == prev:
            g = g + b"x"
        prev = g
        gnames.append(g)
        tfile = tx(10)
        ntests = rng.randrange(1, 9 if not big else 14) if rng.random() < 0.7 else 1
        for ti in range(ntests):
            name = tx(10)
            f = tfile if rng.random() < 0.7 else tx(10)
            line = rng.choice([0, 1, 9, 10, 99, 100, 12345, 2147483647, rng.randrange(1, 100000)])
            kind = rng.random()
            body = []
            if kind < 0.15:
                tests.append(([], g, name, f, line, True, [("p", tx())] if rng.random() < 0.3 else []))
                continue
            for _ in range(rng.choice([0, 0, 1, 1, 2, 3, 5])):
                c = rng.random()
                if c < 0.4:
                    body.append(("p", tx(16)))
                else:
                    ff = f if rng.random() < 0.5 else tx(10)
                    ll = rng.choice([0, 7, 10, 4294967, 2147483647, rng.randrange(1, 5000)])
                    body.append(("f" if c < 0.75 else "x", ff, ll, tx(20)))
            tests.append(([], g, name, f, line, False, body))
    # outside calls
    first_of_group = [i for i in range(len(tests)) if i == 0 or tests[i][1] != tests[i - 1][1]]
    post = []
    def put(i, ops):
        tests[i] = (tests[i][0] + ops,) + tests[i][1:]
    if pkgmode == "once":
        if rng.random() < 0.75:
            put(0, [("k", tx(8, FORBIDDEN))])
    elif pkgmode == "late":
        # a name is asked, or a group written, while there is no package yet; then the package is set
        if rng.random() < 0.6:
            put(0, [("n", rng.choice(gnames))] + ([("k", tx(8, FORBIDDEN))] if rng.random() < 0.5 else []))
        later = [i for i in range(1, len(tests))]
        if later and rng.random() < 0.85:
            i = rng.choice(first_of_group[1:]) if len(first_of_group) > 1 and rng.random() < 0.7 else rng.choice(later)
            put(i, [("k", tx(8, FORBIDDEN))])
        if rng.random() < 0.5:
            post = gen_ops(rng, tx, gnames)
    elif pkgmode == "changing":
        for i in first_of_group:
            if rng.random() < 0.7:
                put(i, gen_ops(rng, tx, gnames))
        if rng.random() < 0.5:
            post = gen_ops(rng, tx, gnames)
    elif pkgmode == "wild":
        for i in range(len(tests)):
            if rng.random() < 0.3:
                put(i, gen_ops(rng, tx, gnames))
        post = gen_ops(rng, tx, gnames) if rng.random() < 0.7 else []
    return ser(tests, post)


def corpus_like():
    """each special character alone in each field, one field at a time"""
    out = []
    chars = [b"&", b"<", b">", b"\"", b"'", b"\r", b"\n", b"]]>", b"&amp;", b"/", b"\\", b"?", b"%", b"*", b":", b"|", b" ", b""]
    for ch in chars:
        for field in range(8):
            v = [b"p", b"G", b"t", b"a.cpp", b"b.cpp", b"msg", b"out", b"H"]
            v[field] = b"a" + ch + b"b" if ch else b""
            tests = [(v[1], v[2], v[3], 10, False, [("p", v[6]), ("f", v[4], 12, v[5]), ("f", v[4], 13, b"second")]),
                     (v[1], b"t2", v[3], 20, True, []),
                     (v[7], b"t3", v[3], 30, False, [("x", v[3], 31, v[5]), ("p", b"unreachable")]),
                     (v[7], b"t4", v[3], 40, False, [])]
            out.append(with_pkg(v[0], tests))
            out.append(with_pkg(b"", tests[:1]))
    return out


def op_orders():
    """every triple (in front of group G, in front of group H, after the run) of short op sequences: package set late, changed between
    groups, set twice, set to empty, never set; createFileName asked before / between / after"""
    K = lambda p: ("k", p)
    N = lambda g: ("n", g)
    seqs = [[], [K(b"a")], [K(b"b:c")], [K(b"")], [N(b"G")], [N(b"H"), K(b"a")], [K(b"a"), N(b"H")], [K(b"a"), K(b"b:c")], [K(b"a"), K(b"")]]
    out = []
    for s1 in seqs:
        for s2 in seqs:
            for s3 in ([], [N(b"G")], [K(b"z"), N(b"H")]):
                t1 = (s1, b"G", b"t1", b"a.cpp", 1, False, [])
                t2 = (s2, b"H", b"t2", b"a.cpp", 2, False, [])
                out.append(ser([t1, t2], s3))
    # inside a group, and in front of an ignored test
    for s2 in seqs[1:]:
        out.append(ser([([], b"G", b"t1", b"a.cpp", 1, False, []), (s2, b"G", b"t2", b"a.cpp", 2, True, []), ([], b"H", b"t3", b"a.cpp", 3, False, [])], [N(b"G")]))
    return out


LONG_QUICK = [1023, 1024, 1025, 2047, 2048, 2049, 3071, 3072, 3073, 4095, 4096, 4097, 5000, 10000, 20000, 40000]


def gen_long(rng, n, shape, mode):
    """n characters of captured output / failure message"""
    T = lambda ops, g, nm, body, ign=False: (ops, g, nm, b"a.cpp", 7, ign, body)
    if shape == "print":        # one print, one group
        return ser([T([], b"G", b"t", [("p", long_text(rng, n, mode))])])
    if shape == "chunks":       # many prints of uneven size, two tests
        txt = long_text(rng, n, mode)
        cuts = sorted(set([0, n] + [rng.randrange(0, n + 1) for _ in range(rng.randrange(1, 12))]))
        body = [("p", txt[a:b]) for a, b in zip(cuts, cuts[1:])]
        h = len(body) // 2
        return ser([T([], b"G", b"t", body[:h]), T([], b"G", b"u", body[h:])])
    if shape == "groups":       # the capture grows over three groups (it is never cleared): the sizes of the three files straddle n
        a = n // 3
        return ser([T([], b"G", b"t", [("p", long_text(rng, a, mode))]), T([], b"H", b"t", [("p", long_text(rng, a, mode))]),
                    T([], b"I", b"t", [("p", long_text(rng, n - 2 * a, mode))])])
    if shape == "message":      # a failure message of that length (second failure of the test is long too but not reported)
        return ser([T([("k", b"p")], b"G", b"t", [("f", b"b.cpp", 12, long_text(rng, n, mode)), ("f", b"b.cpp", 13, long_text(rng, 50, mode))])])
    if shape == "fail-stop":    # fail() with a long message after a long print
        return ser([T([], b"G", b"t", [("p", long_text(rng, n // 2, mode)), ("x", b"b.cpp", 12, long_text(rng, n, mode)), ("p", b"unreachable")])])
    raise ValueError(shape)


def long_family(rng, tier):
    out = []
    sizes = LONG_QUICK if tier == "quick" else LONG_QUICK + [1, 512, 1000, 1536, 2500, 6143, 6144, 6145, 8191, 8192, 8193, 16384, 16385, 30000, 65536, 100000]
    for n in sizes:
        big = n > 5000
        for shape in ["print", "chunks", "groups", "message", "fail-stop"]:
            if tier == "quick" and big and shape in ("chunks", "fail-stop"):
                continue
            if tier == "quick" and n == 40000 and shape != "print":
                continue
            modes = [1] if (tier == "quick" or big) else [0, 1, 2]
            if tier == "quick" and shape == "print" and not big:
                modes = [0, 1]
            for mode in modes:
                out.append(gen_long(rng, n, shape, mode))
    return out


# ------------------------------------------------------------------ runs with filters / -ri
def _layout_tests(layout, ignored_at=(), ops_at=None):
    """layout = list of (group name, [test names]); tests get distinct lines; a failing and a printing test per stretch"""
    tests = []
    k = 0
    for g, names in layout:
        for j, nm in enumerate(names):
            body = []
            if j == 0:
                body.append(("p", b"o" + g[:1] + nm[-1:]))
            if j == 1:
                body.append(("f", b"b.cpp", 3 + k, b"m" + nm))
            ops = list(ops_at.get(k, [])) if ops_at else []
            tests.append((ops, g, nm, b"a.cpp", 10 + k, k in ignored_at, body))
            k += 1
    return tests


LAYOUTS = [
    [(b"G", [b"ta", b"tb"]), (b"H", [b"ta", b"tb"])],
    [(b"H", [b"ta"]), (b"G", [b"ta", b"tb"])],
    [(b"G", [b"ta", b"tb"]), (b"H", [b"ta"]), (b"I", [b"tb", b"ta"])],
    [(b"H", [b"tb"]), (b"G", [b"ta", b"tb"]), (b"I", [b"ta"])],
    [(b"G", [b"ta"]), (b"H", [b"ta", b"tb"]), (b"G", [b"tb", b"tc"])],                   # the same group name in two stretches
    [(b"G", [b"ta", b"tb"]), (b"H", [b"tb"]), (b"G", [b"ta"]), (b"H", [b"ta"])],
    [(b"G", [b"ta"]), (b"GH", [b"ta", b"tb"]), (b"H", [b"tb"])],                          # one name contains the other
    [(b"I", [b"tb"]), (b"H", [b"tb"]), (b"G", [b"ta", b"tb"]), (b"H2", [b"tb"]), (b"I2", [b"tb"])],
    [(b"G", [b"ta", b"tb", b"tc", b"ta2"])],
    [(b"G/x", [b"ta"]), (b"H", [b"tb"]), (b"G_x", [b"tb"]), (b"I", [b"tb"])],             # two groups that share a file name
    [(b"", [b"ta"]), (b"G", [b"ta", b"tb"]), (b"H", [b"tb"])],                            # a group with the empty name in front
]
S = lambda p: (p, True, False)       # -sg / -sn
C = lambda p: (p, False, False)      # -g / -n
XS = lambda p: (p, True, True)       # -xsg / -xsn
XC = lambda p: (p, False, True)      # -xg / -xn
GROUP_FILTERS = [[], [S(b"G")], [S(b"H")], [C(b"G")], [C(b"H")], [XS(b"G")], [XC(b"H")], [S(b"G"), S(b"I")], [S(b"Z")], [XC(b"")], [S(b"I"), XS(b"H")]]
NAME_FILTERS = [[], [C(b"a")], [S(b"tb")], [XC(b"a")], [S(b"zz")], [S(b"ta"), S(b"tc")]]


def filtered_family(rng, tier):
    """every layout x group filter x name filter (x -ri on a layout with ignored tests); quick: the whole family without name filters plus a
    sample of the rest"""
    out = []
    for li, layout in enumerate(LAYOUTS):
        ntests = sum(len(n) for _, n in layout)
        for gf in GROUP_FILTERS:
            for nf in NAME_FILTERS:
                if not gf and not nf:
                    continue
                if tier == "quick" and nf and rng.random() < 0.6:
                    continue
                out.append(ser(_layout_tests(layout), [], (False, gf, nf)))
        # -ri: ignored tests run like plain ones (no skipped marker, their failures count); alone and together with filters
        ign = set(k for k in range(ntests) if k % 2 == 1)
        for gf in [[], [S(b"G")], [XS(b"G")], [C(b"H")]]:
            for ri in (True, False):
                if not ri and not gf:
                    continue
                out.append(ser(_layout_tests(layout, ignored_at=ign), [], (ri, gf, [])))
        # outside calls attached to tests that are filtered out are never made: package set in front of the first test of every stretch
        first = []
        k = 0
        for g, names in layout:
            first.append(k)
            k += len(names)
        ops_at = {k: [("k", b"p%d" % i), ("n", b"G")] for i, k in enumerate(first)}
        for gf in [[S(b"G")], [S(b"H")], [XS(b"G")], [S(b"Z")]]:
            out.append(ser(_layout_tests(layout, ops_at=ops_at), [("n", b"H")], (False, gf, [])))
    return out


def gen_filtered_run(rng):
    """a random run (all the usual texts) with filters made from its own group / test names"""
    base = gen_run(rng, special=rng.random() < 0.6, pkgmode=rng.choice(["once", "never", "changing", "wild"]))
    tests, post, _ = parse_full(base)
    gnames = [t[1] for t in tests]
    tnames = [t[2] for t in tests]
    if rng.random() < 0.3 and len(tests) > 2:      # repeat an earlier group name in a later stretch
        i = rng.randrange(len(tests))
        j = rng.randrange(len(tests))
        tests[j] = (tests[j][0], tests[i][1]) + tests[j][2:]
    def piece(b):
        if not b or rng.random() < 0.5:
            return b
        i = rng.randrange(len(b))
        return b[i:rng.randrange(i, len(b)) + 1]
    def mk(pool):
        fs = []
        for _ in range(rng.choice([1, 1, 1, 2, 3])):
            src = rng.choice(pool) if rng.random() < 0.9 else plain(rng)
            strict = rng.random() < 0.5
            fs.append((src if strict else piece(src), strict, rng.random() < 0.3))
        return fs
    c = rng.random()
    gf = mk(gnames) if c < 0.75 else []
    nf = mk(tnames) if c > 0.55 else []
    return ser(tests, post, (rng.random() < 0.3, gf, nf))


def generate(tier, rng):
    out = corpus_like() + op_orders() + long_family(rng, tier) + filtered_family(rng, tier)
    n = 450 if tier == "quick" else 30000
    for k in range(n):
        out.append(gen_run(rng, special=(k % 10 != 0), big=(tier != "quick" and k % 50 == 0)))
    for k in range(250 if tier == "quick" else 12000):
        out.append(gen_filtered_run(rng))
    return out


def _texts(s):
    tests, post = parse_scn(s)
    ops = [o for t in tests for o in t[0]] + post
    names = [o[1] for o in ops] + [x for t in tests for x in (t[1], t[2], t[3])] + [st[1] for t in tests for st in t[6] if st[0] != "p"]
    msgs = [st[3] for t in tests for st in t[6] if st[0] != "p"]
    prints = [st[1] for t in tests for st in t[6] if st[0] == "p"]
    return tests, post, ops, names, msgs, prints


def _has(bs, chars=b"&<>\"'\r\n"):
    return any(c in chars for b in bs for c in b)


def nontrivial(s):
    tests, post, ops, names, msgs, prints = _texts(s)
    flt = parse_full(s)[2]
    return (_has(names) or _has(msgs) or _has(prints) or len(set(t[1] for t in tests)) > 1 or bool(ops)
            or any(t[5] for t in tests) or any(st[0] != "p" for t in tests for st in t[6]) or bool(flt[0] or flt[1] or flt[2]))


def _size_label(n):
    return None if n <= 1024 else "1025-2048" if n <= 2048 else "2049-4096" if n <= 4096 else "4097-16384" if n <= 16384 else "> 16384"


def classify(s):
    tests, post, ops, names, msgs, prints = _texts(s)
    segs = segments(tests)
    lab = ["groups=%d" % min(6, len(segs)), "tests=%s" % ("1" if len(tests) == 1 else "2-5" if len(tests) <= 5 else "6-15" if len(tests) <= 15 else "16+")]
    if any(t[5] for t in tests): lab.append("ignored test")
    nf = [sum(1 for st in t[6] if st[0] != "p") for t in tests]
    if any(x == 1 for x in nf): lab.append("test failing once")
    if any(x > 1 for x in nf): lab.append("test failing several times")
    if any(st[0] == "x" for t in tests for st in t[6]): lab.append("fail() terminates test")
    if _has(names): lab.append("markup char in a name/path")
    if _has(msgs): lab.append("markup char in a message")
    if _has(prints): lab.append("markup char in printed text")
    if _has(names + msgs + prints, b"\r\n"): lab.append("CR/LF")
    if any(c in FORBIDDEN for b in [o[1] for o in ops] + [t[1] for t in tests] for c in b): lab.append("file-name-forbidden char in group/package")
    # package history
    sets = [o for o in ops if o[0] == "k"]
    if not sets: lab.append("package never set")
    if len(sets) >= 2: lab.append("package set more than once")
    if any(o[1] == b"" for o in sets): lab.append("package set to empty")
    pk, at_end, seen_set, asked_before = b"", [], False, False
    for g in segs:
        for t in g:
            for o in t[0]:
                if o[0] == "k":
                    pk, seen_set = o[1], True
                elif not seen_set:
                    asked_before = True
        at_end.append(pk)
    if sets and (asked_before or (at_end and at_end[0] == b"" and any(at_end))): lab.append("package set late (after createFileName / a written group)")
    if len(set(at_end)) > 1: lab.append("package differs between group files")
    if any(o[0] == "k" for g in segs for t in g[1:] for o in t[0]): lab.append("package set inside a group")
    if any(o[0] == "n" for o in ops): lab.append("createFileName asked from outside")
    if any(o[0] == "n" for o in post): lab.append("createFileName asked after the run")
    flt = parse_full(s)[2]
    if flt[0]: lab.append("-ri")
    if flt[0] and any(t[5] for t in tests): lab.append("-ri with an ignored test")
    if len(set(g[0][1] for g in segs)) < len(segs): lab.append("same group name in two stretches")
    if flt[1] or flt[2]:
        lab.append("filters: " + "+".join((["group"] if flt[1] else []) + (["name"] if flt[2] else [])))
        if any(f[2] for f in flt[1] + flt[2]): lab.append("filters: inverted")
        if any(not f[1] for f in flt[1] + flt[2]): lab.append("filters: substring")
        if len(flt[1]) > 1 or len(flt[2]) > 1: lab.append("filters: several of a kind")
        sel = [[is_selected(flt, t) for t in g] for g in segs]
        ran = [any(x) for x in sel]
        if not any(ran): lab.append("filters select nothing")
        if all(all(x) for x in sel): lab.append("filters select everything")
        if any(any(x) and not all(x) for x in sel): lab.append("group partially filtered")
        if any(ran):
            fi, la = ran.index(True), len(ran) - 1 - ran[::-1].index(True)
            if fi > 0: lab.append("fully filtered stretch before the first group that ran")
            if la < len(ran) - 1: lab.append("fully filtered stretch after a group that ran")
            if not all(ran[fi:la + 1]): lab.append("fully filtered stretch between groups that ran")
            if any(r and g[0][1] == b"" for r, g in zip(ran, segs)): lab.append("group with the empty name ran under filters")
        if any(t[0] and not is_selected(flt, t) for t in tests): lab.append("outside calls attached to a filtered test (never made)")
    cap = _size_label(sum(len(x) for x in prints))
    if cap: lab.append("captured output " + cap)
    m = _size_label(max([len(x) for x in msgs] or [0]))
    if m: lab.append("failure message " + m)
    return lab


# ------------------------------------------------------------------ independent judge: expat + the property, in Python
def segments(tests):
    segs = []
    for t in tests:
        if segs and segs[-1][0][1] == t[1]:
            segs[-1].append(t)
        else:
            segs.append([t])
    return segs


def expat_tree(data):
    """-> nested [name, attrs(dict of bytes->bytes), children] with text children as bytes; raises ExpatError"""
    p = expat.ParserCreate()
    p.buffer_text = True
    root = ["#doc", {}, []]
    stack = [root]
    def start(name, attrs):
        e = [name, attrs, []]
        stack[-1][2].append(e)
        stack.append(e)
    def end(name):
        stack.pop()
    def chars(d):
        if stack[-1][2] and isinstance(stack[-1][2][-1], str):
            stack[-1][2][-1] += d
        else:
            stack[-1][2].append(d)
    p.StartElementHandler = start
    p.EndElementHandler = end
    p.CharacterDataHandler = chars
    p.Parse(data, True)
    return root[2][0]


def reached(body):
    out = []
    for st in body:
        out.append(st)
        if st[0] == "x":
            break
    return out


def expected_filename(pkg, group):
    n = b"cpputest_" + ((pkg + b"_") if pkg else b"") + group
    return bytes(0x5f if c in FORBIDDEN else c for c in n) + b".xml"


def judge_file(g, content, printed_all, printed_own):
    """None or text of what is wrong with the report of group g (list of tests)"""
    try:
        root = expat_tree(content)
    except expat.ExpatError as e:
        return "ill-formed XML (expat: %s)" % e
    L = lambda b: b.decode("latin-1")
    if root[0] != "testsuite":
        return "root element is not testsuite"
    a = root[1]
    if a.get("name") != L(g[0][1]):
        return "suite name"
    try:
        if int(a.get("tests", "x")) != len(g):
            return "suite tests count"
        nfail = sum(1 for t in g if not t[5] and any(st[0] != "p" for st in reached(t[6])))
        if int(a.get("failures", "x")) != nfail:
            return "suite failures count"
    except ValueError:
        return "suite counts are not numbers"
    tcs = [k for k in root[2] if not isinstance(k, str) and k[0] == "testcase"]
    if len(tcs) != len(g):
        return "number of testcase elements"
    for t, tc in zip(g, tcs):
        at = tc[1]
        if at.get("name") != L(t[2]):
            return "testcase name"
        if at.get("file") != L(t[3]):
            return "testcase file"
        if at.get("line") != str(t[4]):
            return "testcase line"
        kids = [k for k in tc[2] if not isinstance(k, str)]
        if any(k[0] == "skipped" for k in kids) != t[5]:
            return "skipped marker"
        fl = [k for k in kids if k[0] == "failure"]
        fs = [] if t[5] else [st for st in reached(t[6]) if st[0] != "p"]
        if bool(fl) != bool(fs) or len(fl) > 1:
            return "failure element presence"
        if fs and fl[0][1].get("message") != L(fs[0][1]) + ":" + str(fs[0][2]) + ": " + L(fs[0][3]):
            return "failure message"
    so = [k for k in root[2] if not isinstance(k, str) and k[0] == "system-out"]
    if len(so) != 1:
        return "system-out element"
    txt = "".join(k for k in so[0][2] if isinstance(k, str))
    if txt != L(printed_all) and txt != L(printed_own):
        return "system-out text"
    return None


def obs_files(obs):
    """-> ([(file name, content)], [createFileName answers])"""
    t = obs.split()
    n = int(t[0], 16)
    files = [(unb(t[1 + 2 * i]), unb(t[2 + 2 * i])) for i in range(n)]
    m = int(t[1 + 2 * n], 16)
    names = [unb(t[2 + 2 * n + i]) for i in range(m)]
    if len(t) != 2 + 2 * n + m:
        raise ValueError("observation length")
    return files, names


def judge(s, obs):
    """the property over the files that exist at the end, written independently of the Coq spec"""
    tests, post, flt = parse_full(s)
    tests = armed(tests, flt)
    segs = segments(tests)          # the stretches of the registry: group started / ended bracket each of them, filters or not
    files, names = obs_files(obs)
    fsmap = {}
    for fn, content in files:
        if fn in fsmap:
            return "a file name is listed twice in the file system"
        fsmap[fn] = content
    printed = b""
    pkg = b""           # the package of the moment: the argument of the latest setPackageName that was made
    asked = 0
    def outside(ops):
        nonlocal pkg, asked
        for kind, v in ops:
            if kind == "k":
                pkg = v
            else:
                if asked >= len(names):
                    return "a createFileName answer is missing"
                if names[asked] != expected_filename(pkg, v):
                    return "createFileName answer %d is not built from the package of that moment" % asked
                asked += 1
        return None
    claims = []         # per stretch: (file name it is written under, selected tests, printed so far, printed by the group)
    for g in segs:
        ran = [t for t in g if is_selected(flt, t)]
        for t in ran:   # a filtered test gets no callback: the calls attached to it are never made
            w = outside(t[0])
            if w:
                return w
        own = b"".join(st[1] for t in ran if not t[5] for st in reached(t[6]) if st[0] == "p")
        printed += own
        # a stretch with no selected test is written under the name built from the empty group name: the judge is indifferent to that file
        claims.append((expected_filename(pkg, ran[0][1] if ran else b""), ran, printed, own))
    for k, (fn, ran, pall, own) in enumerate(claims):
        if not ran:
            continue
        if any(c[0] == fn for c in claims[k + 1:]):
            continue    # a later stretch maps to the same name (same group twice: outside the property; a/b vs a_b: the naming rule itself)
        if fn not in fsmap:
            return "group %d: no file of its name at the end of the run" % k + (" (package set or changed after the first name was built)" if k > 0 or asked else "")
        w = judge_file(ran, fsmap[fn], pall, own)
        if w:
            return "group %d: %s" % (k, w)
    w = outside(post)
    if w:
        return w
    if asked != len(names):
        return "more createFileName answers than calls"
    return None


def extra_oracle(s, obs, flavour):
    w = judge(s, obs)
    return ("independent judge (Python expat): " + w) if w else None


def project(obs, flavour):
    """only what the property constrains: file names + the expat tree reduced to the constrained fields, in name order; files that state
    zero tests, and the file of the empty group name, are left out"""
    try:
        files, names = obs_files(obs)
    except Exception:
        return obs
    out = [names]
    for fn, content in files:
        try:
            r = expat_tree(content)
        except expat.ExpatError:
            out.append((fn, "ILL-FORMED"))
            continue
        tcs = []
        for k in r[2]:
            if not isinstance(k, str) and k[0] == "testcase":
                kids = [x for x in k[2] if not isinstance(x, str)]
                tcs.append((k[1].get("name"), k[1].get("file"), k[1].get("line"), any(x[0] == "skipped" for x in kids),
                            [x[1].get("message") for x in kids if x[0] == "failure"]))
        so = ["".join(x for x in k[2] if isinstance(x, str)) for k in r[2] if not isinstance(k, str) and k[0] == "system-out"]
        if (r[1].get("tests") == "0" and not tcs) or r[1].get("name") == "":
            continue    # a suite of no tests is nobody's report (what the code writes for a stretch none of whose tests is selected), and the file of the
                        # empty group name is where the code puts those suites: neither is compared (the oracle still judges an empty-named group
                        # whenever its report is demanded -- it reads the observation, not this projection)
        out.append((fn, r[0], r[1].get("name"), r[1].get("tests"), r[1].get("failures"), tcs, so))
    return repr(out[:1] + sorted(out[1:], key=repr))


def signature(s, obs):
    if obs.startswith("!"):
        return "crash " + obs[:60]
    w = judge(s, obs) or "coq spec only"
    import re
    w = re.sub(r"group \d+", "group", w)
    w = re.sub(r"answer \d+", "answer", w)
    w = re.sub(r"\(expat: [^)]*\)", "", w).strip()
    if w.startswith("file name") or "createFileName answer" in w:
        return w
    tests, post, ops, names, msgs, prints = _texts(s)
    where = []
    if _has(names): where.append("name/path")
    return "%s [markup char in: %s]" % (w, ",".join(where) or "-")


def shorter(b):
    """smaller candidates for one text; long texts (captured output, messages of kilobytes) are cut in pieces, never byte by byte"""
    n = len(b)
    if n > 1:
        yield b[:n // 2]
        yield b[n // 2:]
    if n > 24:
        k = n // 4
        while k >= 1:
            yield b[:n - k]
            yield b[k:]
            k //= 2
        if b != b"a" * n:
            yield b"a" * n
    else:
        for k in range(n):
            yield b[:k] + b[k + 1:]


def shrink(s):
    tests, post, flt = parse_full(s)
    ser_ = lambda t, p=(): ser(t, p, flt)
    # fewer filters, -ri off (a candidate is kept only while the implementation still fails on it)
    if flt[0] or flt[1] or flt[2]:
        yield ser(tests, post, None)
        if flt[0]:
            yield ser(tests, post, (False, flt[1], flt[2]))
        for w in (1, 2):
            for j in range(len(flt[w])):
                f2 = list(flt); f2[w] = flt[w][:j] + flt[w][j + 1:]
                yield ser(tests, post, tuple(f2))
        for w in (1, 2):
            for j, f in enumerate(flt[w]):
                if not f[1]:    # substring -> strict
                    f2 = list(flt); f2[w] = flt[w][:j] + [(f[0], True, f[2])] + flt[w][j + 1:]
                    yield ser(tests, post, tuple(f2))
    # fewer outside calls
    if post:
        yield ser_(tests, [])
    if any(t[0] for t in tests):
        yield ser_([([],) + t[1:] for t in tests], post)
    for i in range(len(tests)):
        if len(tests) > 1:
            # keep the calls of a dropped test: they move in front of the next test (or after the run)
            if i + 1 < len(tests):
                nxt = (list(tests[i][0]) + list(tests[i + 1][0]),) + tests[i + 1][1:]
                yield ser_(tests[:i] + [nxt] + tests[i + 2:], post)
            else:
                yield ser_(tests[:i], list(tests[i][0]) + list(post))
            if tests[i][0]:
                yield ser_(tests[:i] + tests[i + 1:], post)
    for i, t in enumerate(tests):
        for j in range(len(t[0])):
            yield ser_(tests[:i] + [(t[0][:j] + t[0][j + 1:],) + t[1:]] + tests[i + 1:], post)
    for j in range(len(post)):
        yield ser_(tests, post[:j] + post[j + 1:])
    for i, t in enumerate(tests):
        body = t[6]
        for j in range(len(body)):
            yield ser_(tests[:i] + [t[:6] + (body[:j] + body[j + 1:],)] + tests[i + 1:], post)
    for i, t in enumerate(tests):
        for j, o in enumerate(t[0]):
            for c in shorter(o[1]):
                yield ser_(tests[:i] + [(t[0][:j] + [(o[0], c)] + t[0][j + 1:],) + t[1:]] + tests[i + 1:], post)
    for j, o in enumerate(post):
        for c in shorter(o[1]):
            yield ser_(tests, post[:j] + [(o[0], c)] + post[j + 1:])
    for i, t in enumerate(tests):
        ops, g, n, f, l, ign, body = t
        for fld in (1, 2, 3):
            for c in shorter(t[fld]):
                if fld == 1:
                    # keep the group structure: rename every test of this name
                    yield ser_([(x[0], c) + x[2:] if x[1] == g else x for x in tests], post)
                else:
                    tt = list(t); tt[fld] = c
                    yield ser_(tests[:i] + [tuple(tt)] + tests[i + 1:], post)
        if l > 1:
            yield ser_(tests[:i] + [(ops, g, n, f, 1, ign, body)] + tests[i + 1:], post)
        for j, st in enumerate(body):
            for fld in ([1] if st[0] == "p" else [1, 3]):
                for c in shorter(st[fld]):
                    ss = list(st); ss[fld] = c
                    yield ser_(tests[:i] + [(ops, g, n, f, l, ign, body[:j] + [tuple(ss)] + body[j + 1:])] + tests[i + 1:], post)


LEVEL_TEXT = ("Machine-checked (Coq) theorems over an executable model of JUnitTestOutput driven by the callback order of TestRegistry::runAllTests: "
              "the six sequential replace passes of encodeXmlText collapse to a per-byte escape table; escaped text contains no markup; unescape(escape s) = s "
              "for all s; for every run over printable text the report of each group, parsed by an XML parser written in Coq, yields exactly the tree that "
              "states the property (one file per group, true counts, one testcase per test in order with name/file/line, skipped iff ignored, failure iff failed "
              "with file:line: first message, system-out = printed text, of any length); file-name rule with the package in force when the group's file is written "
              "(setPackageName / createFileName called at any point between callbacks; every createFileName answer is built from the package of its moment); runs with "
              "group / name filters and -ri: the registry brackets every stretch with group started / ended, a fully filtered stretch is written as an empty suite under the "
              "empty group name, the file system keeps the last write per name, and every group that ran has AT THE END its own report under its name (a writer that "
              "leaves the group name between groups is refuted). Tied to the code by a differential run of the extracted model against a "
              "real JUnitTestOutput (files captured at the platform seams), judged by the extracted spec and independently by Python's expat.")
LEVEL_NOTE = ("Trusted: Coq kernel, extraction, harness, generators, Python expat. Modelled not verified: the C++ itself; StringFromFormat/vsnprintf content "
              "(%d, %s copying) is modelled; time attributes are constants supplied by the harness; the XML parser covers the subset of XML 1.0 the writer can "
              "emit (no DTD, comments, CDATA, PIs, non-ASCII).")
TECHNIQUE = "Coq proof over hand-written executable model (writer + XML parser round trip) + extracted-model/implementation correspondence check with an independent XML parser as second judge"
READY = True
