"""C19 -- the C mocking interface behaves exactly like the C++ one.

Scenario = flat list of ops.  op ::= :M <scope>            select the mock support: ~ = mock_c() / mock(), $name = mock_scope_c(name) / mock(name)
                                   | :S.<field> args        entry of MockSupport_c on the selected support
                                   | :E.<field> args        entry of MockExpectedCall_c on the expected call returned last
                                   | :A.<field> args        entry of MockActualCall_c on the actual call returned last
args are generic: numbers ([-]hex; integers, double bit patterns, pointer bits) and byte strings ($hex; names, strings, buffers,
8-byte objects; ~ = NULL), in the order of the C signature, with `size` arguments implied by the length of the preceding buffer
and output buffers (16 bytes, pre-filled with 0xEE) supplied by the harness.

Observation = ":c <half> :x <half>": the scenario through the C interface and through the C++ interface.
half ::= <failures> <op at which the test was left | ~> <failure text | ~> <n> (<op> :<T.field> :<kind> <payload>)^n <k> (<op> <16 bytes>)^k
"""
import os, re
from vlib import tz, tb, REPO

ID = "C19"
FLAVOURS = ["asan"]
HARNESS_SRCS = ["harness/C19.cpp", "harness/C19_c.c"]
PER_TIMEOUT = 30.0
CRASH_IS_VIOLATION = True
RULE = ("every scenario is executed through mock_c()/mock_scope_c() from a C translation unit and through mock()/mock(scope) from C++ "
        "inside a real test; families: (1) per parameter/return type T x lattice value (negative, >2^31, >2^32, >=2^63, non-zero upper "
        "halves, fractions, distinct pointers): expectation with<T>/andReturn<T'>, matching or deviating actual call, every reader "
        "(hasReturnValue, returnValue, typed getter of the right and of a wrong type, ...OrDefault with and without a value) through the "
        "actual-call table and through the support table; (2) data store set/get for every setter, scopes, clear; (3) output parameters "
        "(plain, of type with copier, unmodified), custom comparators, missing comparator/copier; (4) strictOrder, expectNCalls, "
        "expectNoCall, ignoreOtherCalls, ignoreOtherParameters, enable/disable, expectedCallsLeft, checkExpectations, clear, "
        "crashOnFailure(0); (5) interleavings of scopes with readers after the support was switched; (6) random op sequences over the "
        "whole grammar. non-trivial = the scenario makes an actual call or reads a value back")
ASSUMPTIONS = [
    "LP64; every argument is in range of the C type of its parameter (a C caller cannot pass anything else)",
    "valid scenarios only: the first op selects a support; :E ops only while the expected call returned last is alive (no clear since), "
    ":A ops only while the actual call returned last is alive (no clear since); names and string values are non-NULL (string defaults "
    "may be NULL); objects are 8 bytes, output values at most 16 bytes; crashOnFailure only with 0; "
    "removeAllComparatorsAndCopiers only while no expectation or call holds a custom-type value (the C adaptor objects are owned and "
    "freed by the C layer, the C++ ones by the user)",
    "bool is an int in C: every int v stands for the bool (v != 0) and a returned int r is read as (r != 0)",
]

# ---------------------------------------------------------------------------------------------------------------- vocabulary
I31, I32, I63, I64 = 1 << 31, 1 << 32, 1 << 63, 1 << 64
# (suffix, getter prefix, kind, signed, lattice)
TYPES = {
    "Bool": ("bool", "b", [0, 1, 2, -1, 256, -I31]),
    "Int": ("int", "i0", [-I31, -2, -1, 0, 1, 0x12345678, I31 - 1]),
    "UnsignedInt": ("unsignedInt", "i1", [0, 1, I31 - 1, I31, 0x89abcdef, I32 - 1]),
    "LongInt": ("longInt", "i2", [-I63, -I32 - 5, -I31 - 1, -1, 0, I31, I32 + 5, 0x123456789abcdef0, I63 - 1]),
    "UnsignedLongInt": ("unsignedLongInt", "i3", [0, 7, I31, I32, I32 + 5, I63, 0xfedcba9876543210, I64 - 1]),
    "LongLongInt": ("longLongInt", "i4", [-I63, -I32 - 6, -1, 0, I32 + 6, 0x0123456700000000, I63 - 1]),
    "UnsignedLongLongInt": ("unsignedLongLongInt", "i5", [0, 9, I32 + 7, I63, I63 + 1, 0xfedcba9800000000, I64 - 1]),
    "Double": ("double", "d", [0x0, 0x3ff8000000000000, 0xc002000000000000, 0x7e37e43c8800759c, 0x3fb999999999999a, 0x4340000000000001,
                               0x7ff0000000000000, 0x1, 0x8000000000000000]),
    "String": ("string", "s", [b"", b"a", b"hello", b"h\xc3\xa9llo", b"two words", b"hellp"]),
    "Pointer": ("pointer", "p", [0, 0x1000, 0x1008, 0xdeadbeef00, I64 - 8]),
    "ConstPointer": ("constPointer", "cp", [0, 0x2000, 0x2008, 0xfeedface00, I64 - 16]),
    "FunctionPointer": ("functionPointer", "fp", [0, 0x3000, 0x3010, 0xabcdef0120]),
}
TNAMES = list(TYPES)
INTS = ["Int", "UnsignedInt", "LongInt", "UnsignedLongInt", "LongLongInt", "UnsignedLongLongInt"]
SETTERS = ["Bool", "Int", "UnsignedInt", "String", "Double", "Pointer", "ConstPointer", "FunctionPointer"]
FUNS = [b"f0", b"f1", b"f2"]
PARS = [b"p0", b"p1", b"p2"]
SCOPES = [None, None, b"s1", b"s2"]
DATA = [b"d0", b"d1"]
OBJS = [bytes([1, 2, 3, 4, 5, 6, 7, 8]), bytes([1, 2, 3, 4, 9, 9, 9, 9]), bytes([1, 2, 3, 5, 5, 6, 7, 8]), bytes(8), bytes([0xff] * 8)]
MEMS = [b"", b"\x00", b"ab", b"ab\x00", b"ac", b"\xff\x80\x00\x01", bytes(range(16))]
OUTV = [b"", b"\x2a", b"\x01\x02\x03\x04", bytes(range(0x10, 0x18)), bytes(range(0x30, 0x40))]


def val(t, v):
    return tb(v) if t == "String" else tz(v)


def op(table, field, *args):
    return " ".join([":%s.%s" % (table, field)] + [a if isinstance(a, str) else (tb(a) if isinstance(a, (bytes, type(None))) else tz(a)) for a in args])


def M(scope):
    return ":M " + tb(scope)


def with_(table, t, name, v):
    if t == "String":
        return op(table, "withStringParameters", name, v)
    return op(table, "with%sParameters" % t, name, v)


def and_return(t, v):
    return op("E", "andReturn%sValue" % t, v)


def getter(table, t):
    return op(table, "%sReturnValue" % TYPES[t][0])


def or_default(table, t, d):
    return op(table, "return%sValueOrDefault" % t, d)


def join(ops):
    return " ".join(ops)


# ---------------------------------------------------------------------------------------------------------------- families
def fam_types(rng, out, tier):
    """per type x value: parameter and return value round trip, every reader, through both tables"""
    reps = 2 if tier == "quick" else 12
    for _ in range(reps):
        for t in TNAMES:
            lat = TYPES[t][2]
            for v in lat:
                rt = rng.choice(TNAMES)
                rv = rng.choice(TYPES[rt][2])
                sc = rng.choice(SCOPES)
                f, p = rng.choice(FUNS), rng.choice(PARS)
                exp = [M(sc), op("S", "expectOneCall", f), with_("E", t, p, v), and_return(rt, rv)]
                # the actual value: same, or another lattice value, or the same number through another integer type
                r = rng.random()
                at, av = t, v
                if r < 0.25:
                    av = rng.choice(lat)
                elif r < 0.4 and t in INTS:
                    at = rng.choice(INTS)
                    av = rng.choice(TYPES[at][2] + [v]) if rng.random() < 0.5 else v
                    if not in_range(at, av):
                        at, av = t, v
                tab = rng.choice(["A", "A", "S"])
                readers = []
                for _k in range(rng.randrange(1, 4)):
                    c = rng.random()
                    gt = rt if rng.random() < 0.7 else rng.choice(TNAMES)
                    if c < 0.2:
                        readers.append(op(tab, "hasReturnValue"))
                    elif c < 0.4:
                        readers.append(op(tab, "returnValue"))
                    elif c < 0.7:
                        readers.append(getter(tab, gt))
                    else:
                        readers.append(or_default(tab, gt, rng.choice(TYPES[gt][2] + ([None] if gt == "String" else []))))
                call = [M(sc), op("S", "actualCall", f), with_("A", at, p, av)] + ([M(sc)] if tab == "S" else []) + readers
                out.append(join(exp + call + [M(sc), op("S", "checkExpectations")]))
        # the return type alone: every type, every value, read through returnValue + the right getter + OrDefault, both tables
        for t in TNAMES:
            for v in TYPES[t][2]:
                tab = rng.choice(["A", "S"])
                sc = rng.choice(SCOPES)
                f = rng.choice(FUNS)
                d = rng.choice(TYPES[t][2])
                out.append(join([M(sc), op("S", "expectOneCall", f), and_return(t, v), M(sc), op("S", "actualCall", f), M(sc),
                                 op(tab, "hasReturnValue"), op(tab, "returnValue"), getter(tab, t), or_default(tab, t, d)]))
        # no return value set: every OrDefault returns the default, through both tables; also an ignored (disabled) call
        for t in TNAMES:
            for d in TYPES[t][2] + ([None] if t == "String" else []):
                tab = rng.choice(["A", "S"])
                sc = rng.choice(SCOPES)
                f = rng.choice(FUNS)
                mode = rng.randrange(3)
                if mode == 0:
                    pre = [M(sc), op("S", "expectOneCall", f), M(sc), op("S", "actualCall", f)]
                elif mode == 1:
                    pre = [M(sc), op("S", "disable"), op("S", "actualCall", f)]
                else:
                    pre = [M(sc), op("S", "ignoreOtherCalls"), op("S", "actualCall", f)]
                out.append(join(pre + [M(sc), op(tab, "hasReturnValue"), or_default(tab, t, d)] + ([op(tab, "returnValue")] if mode else [])))


def in_range(t, v):
    lo, hi = {"Bool": (-I31, I31 - 1), "Int": (-I31, I31 - 1), "UnsignedInt": (0, I32 - 1), "LongInt": (-I63, I63 - 1),
              "UnsignedLongInt": (0, I64 - 1), "LongLongInt": (-I63, I63 - 1), "UnsignedLongLongInt": (0, I64 - 1)}[t]
    return lo <= v <= hi


def fam_data(rng, out, tier):
    n = 200 if tier == "quick" else 4000
    for _ in range(n):
        ops = []
        for _k in range(rng.randrange(2, 9)):
            sc = rng.choice(SCOPES)
            c = rng.random()
            name = rng.choice(DATA)
            if c < 0.45:
                t = rng.choice(SETTERS)
                v = rng.choice(TYPES[t][2])
                ops += [M(sc), op("S", "set%sData" % t, name, v)]
            elif c < 0.55:
                ops += [M(sc), op("S", rng.choice(["setDataObject", "setDataConstObject"]), name, rng.choice([b"T1", b"T2", b"MockSupport"]),
                                  rng.choice([0, 0x5000, 0x5008]))]
            elif c < 0.92:
                ops += [M(sc), op("S", "getData", name)]
            else:
                ops += [M(sc), op("S", "clear")]
        ops += [M(None), op("S", "getData", DATA[0]), M(b"s1"), op("S", "getData", DATA[0])]
        out.append(join(ops))


def fam_outputs(rng, out, tier):
    n = 300 if tier == "quick" else 6000
    for _ in range(n):
        sc = rng.choice(SCOPES)
        f = rng.choice(FUNS)
        ops = [M(sc)]
        inst_cmp, inst_cpy = rng.random() < 0.8, rng.random() < 0.8
        if inst_cmp:
            ops.append(op("S", "installComparator", b"T1"))
        if inst_cpy:
            ops.append(op("S", "installCopier", b"T1"))
        ops.append(op("S", "expectNCalls", rng.choice([1, 1, 2]), f) if rng.random() < 0.3 else op("S", "expectOneCall", f))
        chainE, chainA = [], []
        for _k in range(rng.randrange(1, 4)):
            p = rng.choice(PARS + [b"q0"])
            c = rng.random()
            if c < 0.3:
                chainE.append(op("E", "withOutputParameterReturning", p, rng.choice(OUTV)))
                chainA.append(op("A", "withOutputParameter", p))
            elif c < 0.5:
                o1 = rng.choice(OBJS)
                chainE.append(op("E", "withOutputParameterOfTypeReturning", b"T1", p, o1))
                chainA.append(op("A", "withOutputParameterOfType", rng.choice([b"T1", b"T1", b"T2"]), p))
            elif c < 0.6:
                chainE.append(op("E", "withUnmodifiedOutputParameter", p))
                chainA.append(op("A", "withOutputParameter", p))
            elif c < 0.8:
                o1 = rng.choice(OBJS)
                o2 = o1 if rng.random() < 0.4 else rng.choice(OBJS)
                chainE.append(op("E", "withParameterOfType", b"T1", p, o1))
                chainA.append(op("A", "withParameterOfType", rng.choice([b"T1", b"T1", b"T1", b"T2"]), p, o2))
            else:
                m1 = rng.choice(MEMS)
                m2 = m1 if rng.random() < 0.5 else rng.choice(MEMS)
                chainE.append(op("E", "withMemoryBufferParameter", p, m1))
                chainA.append(op("A", "withMemoryBufferParameter", p, m2))
        r = rng.random()
        if r < 0.15 and chainA:
            chainA.pop(rng.randrange(len(chainA)))
        elif r < 0.3:
            rng.shuffle(chainA)
        ops += chainE + [M(sc), op("S", "actualCall", f)] + chainA
        if rng.random() < 0.3:
            ops += [M(sc), op("S", "actualCall", f)] + chainA
        ops += [M(sc), op("S", "checkExpectations")]
        out.append(join(ops))


def fam_flow(rng, out, tier):
    """order, counts, ignore, enable/disable, scopes interleaved, readers after the support was switched"""
    n = 900 if tier == "quick" else 25000
    for _ in range(n):
        ops = []
        scs = [rng.choice(SCOPES) for _k in range(2)]
        if rng.random() < 0.35:
            ops += [M(rng.choice(scs)), op("S", "strictOrder")]
        if rng.random() < 0.2:
            ops += [M(rng.choice(scs)), op("S", "ignoreOtherCalls")]
        if rng.random() < 0.1:
            ops += [M(None), op("S", "crashOnFailure", 0)]
        exps = []
        for _k in range(rng.randrange(1, 5)):
            sc = rng.choice(scs)
            f = rng.choice(FUNS)
            c = rng.random()
            if c < 0.1:
                ops += [M(sc), op("S", "expectNoCall", f)]
                continue
            cnt = 1
            if c < 0.4:
                cnt = rng.choice([0, 1, 2, 3])
                ops += [M(sc), op("S", "expectNCalls", cnt, f)]
            else:
                ops += [M(sc), op("S", "expectOneCall", f)]
            ps = []
            for _j in range(rng.randrange(0, 3)):
                t = rng.choice(TNAMES)
                v = rng.choice(TYPES[t][2][:4])
                p = rng.choice(PARS)
                ps.append((t, p, v))
                ops.append(with_("E", t, p, v))
            if rng.random() < 0.1:
                ops.append(op("E", "withDoubleParametersAndTolerance", b"pd", 0x3ff8000000000000, rng.choice([0x0, 0x3fe0000000000000, 0x3fb999999999999a])))
                ps.append(("DoubleTol", b"pd", rng.choice([0x3ff8000000000000, 0x3ffc000000000000, 0x4000000000000000])))
            if rng.random() < 0.15:
                ops.append(op("E", "ignoreOtherParameters"))
            rt = None
            if rng.random() < 0.6:
                rt = rng.choice(TNAMES)
                ops.append(and_return(rt, rng.choice(TYPES[rt][2])))
            exps += [(sc, f, ps, rt)] * cnt
        if rng.random() < 0.15:
            ops += [M(rng.choice(scs)), op("S", "disable")]
        calls = list(exps)
        r = rng.random()
        if r < 0.3:
            rng.shuffle(calls)
        elif r < 0.4 and calls:
            calls.pop(rng.randrange(len(calls)))
        elif r < 0.5 and calls:
            calls.insert(rng.randrange(len(calls) + 1), rng.choice(calls))
        elif r < 0.55:
            calls.insert(rng.randrange(len(calls) + 1), (rng.choice(scs), b"g9", [], None))
        for (sc, f, ps, rt) in calls:
            ops += [M(sc), op("S", "actualCall", f)]
            ps = list(ps)
            r2 = rng.random()
            if r2 < 0.1 and ps:
                ps.pop()
            elif r2 < 0.2:
                ps.append(("Int", b"px", 1))
            for (t, p, v) in ps:
                if t == "DoubleTol":
                    ops.append(op("A", "withDoubleParameters", p, v))
                else:
                    if rng.random() < 0.1:
                        v = rng.choice(TYPES[t][2])
                    ops.append(with_("A", t, p, v))
            # readers, possibly after another support was selected (the statics of the C layer must not matter)
            k = rng.randrange(0, 3)
            if k and rng.random() < 0.5:
                other = rng.choice(SCOPES)
                ops += [M(other), rng.choice([op("S", "setIntData", b"dx", 1), op("S", "expectedCallsLeft"), op("S", "hasReturnValue"),
                                              op("S", "returnIntValueOrDefault", 5), op("S", "getData", b"dx")])]
            for _j in range(k):
                tab = rng.choice(["A", "S"])
                if tab == "S":
                    ops.append(M(rng.choice([sc, sc, rng.choice(SCOPES)])))
                gt = rt if (rt and rng.random() < 0.7) else rng.choice(TNAMES)
                c = rng.random()
                if c < 0.25:
                    ops.append(op(tab, "hasReturnValue"))
                elif c < 0.45:
                    ops.append(op(tab, "returnValue"))
                elif c < 0.7:
                    ops.append(getter(tab, gt))
                else:
                    ops.append(or_default(tab, gt, rng.choice(TYPES[gt][2])))
            if rng.random() < 0.08:
                ops += [M(rng.choice(scs)), op("S", rng.choice(["enable", "disable", "expectedCallsLeft", "checkExpectations"]))]
        tail = rng.random()
        if tail < 0.75:
            ops += [M(None), op("S", "expectedCallsLeft"), op("S", "checkExpectations")]
        elif tail < 0.85:
            ops += [M(rng.choice(scs)), op("S", "checkExpectations"), M(None), op("S", "checkExpectations")]
        elif tail < 0.95:
            ops += [M(rng.choice(scs)), op("S", "clear"), M(None), op("S", "hasReturnValue"), op("S", "returnValue"), op("S", "expectedCallsLeft"),
                    op("S", "returnLongIntValueOrDefault", -7), op("S", "checkExpectations")]
        out.append(join(ops))


def fam_cover(out):
    """one scenario that calls the remaining entries (so that every table entry is used in every run)"""
    out.append(join([M(None), op("S", "removeAllComparatorsAndCopiers"), op("S", "crashOnFailure", 0), op("S", "enable"),
                     op("S", "expectOneCall", b"f0"), op("E", "withUnmodifiedOutputParameter", b"p0"), op("E", "ignoreOtherParameters"),
                     M(None), op("S", "actualCall", b"f0"), op("A", "withOutputParameter", b"p0"), M(None), op("S", "checkExpectations"),
                     op("S", "clear"), op("S", "removeAllComparatorsAndCopiers")]))
    # the shapes of the repaired defect: readers of the support table with no / a dead / another scope's actual call
    out.append(join([M(None), op("S", "hasReturnValue"), op("S", "returnValue"), op("S", "intReturnValue"), op("S", "returnIntValueOrDefault", 9)]))
    out.append(join([M(None), op("S", "expectOneCall", b"f0"), and_return("Int", 1), M(None), op("S", "actualCall", b"f0"), M(None), op("S", "clear"),
                     op("S", "returnValue"), op("S", "hasReturnValue")]))
    out.append(join([M(None), op("S", "expectOneCall", b"f0"), and_return("Int", 1), M(b"s1"), op("S", "expectOneCall", b"f1"), and_return("Int", 2),
                     M(None), op("S", "actualCall", b"f0"), M(b"s1"), op("S", "actualCall", b"f1"), M(None), op("S", "intReturnValue"),
                     op("S", "returnIntValueOrDefault", 9), M(b"s1"), op("S", "intReturnValue")]))
    out.append(join([M(None), op("S", "expectOneCall", b"f0"), and_return("Int", 1), M(None), op("S", "actualCall", b"f0"), M(b"s1"),
                     op("S", "setIntData", b"d0", 1), op("A", "returnIntValueOrDefault", 9), op("A", "hasReturnValue")]))
    out.append(join([M(None), op("S", "disable"), op("S", "actualCall", b"f0"), op("A", "boolReturnValue"), op("S", "returnValue"), op("S", "boolReturnValue")]))


def generate(tier, rng):
    out = []
    fam_cover(out)
    fam_types(rng, out, tier)
    fam_data(rng, out, tier)
    fam_outputs(rng, out, tier)
    fam_flow(rng, out, tier)
    _count_fields(out)
    return out


# ---------------------------------------------------------------------------------------------------------------- metadata
def split_ops(s):
    ops, cur = [], []
    for x in s.split():
        if x.startswith(":") and cur:
            ops.append(cur)
            cur = []
        cur.append(x)
    if cur:
        ops.append(cur)
    return ops


def nontrivial(s):
    return ":S.actualCall" in s or ":S.getData" in s or "ReturnValue" in s or "OrDefault" in s


def classify(s):
    ops = split_ops(s)
    heads = [o[0] for o in ops]
    labs = ["ops=%d" % min(10 * (len(ops) // 10), 40)]
    if any(o[0] == ":M" and o[1] != "~" for o in ops):
        labs.append("scoped")
    for key, lab in (("OrDefault", "OrDefault"), (":S.getData", "data-store"), ("OutputParameter", "output-parameter"), ("OfType", "custom-type"),
                     (":S.strictOrder", "strictOrder"), (":S.ignoreOtherCalls", "ignoreOtherCalls"), (":S.disable", "disable"),
                     (":S.expectNCalls", "expectNCalls"), ("MemoryBuffer", "memory-buffer"), (":S.clear", "clear")):
        if any(key in h for h in heads):
            labs.append(lab)
    if any(h.startswith(":S.") and ("ReturnValue" in h or "OrDefault" in h or h == ":S.returnValue") for h in heads):
        labs.append("reader-via-support-table")
    if any(h.startswith(":A.") and ("ReturnValue" in h or "OrDefault" in h or h == ":A.returnValue") for h in heads):
        labs.append("reader-via-actual-call-table")
    return labs


def halves(o):
    t = o.split()
    if not t or t[0] != ":c" or ":x" not in t:
        return None, None
    i = t.index(":x")
    return t[1:i], t[i + 1:]


def signature(s, o):
    """which part of the observation differs, and at which entry point"""
    c, x = halves(o)
    if c is None:
        return "crash " + " ".join(o.split()[:4])
    if c[:1] != x[:1]:
        return "verdict"
    if c[1:2] != x[1:2]:
        return "failing-op"
    if c[2:3] != x[2:3]:
        return "failure-text"
    for a, b in zip(c[3:], x[3:]):
        if a != b:
            break
    fields = [w for w in c if w.startswith(":S.") or w.startswith(":A.")]
    fx = [w for w in x if w.startswith(":S.") or w.startswith(":A.")]
    k = 0
    cv, xv = _vals(c), _vals(x)
    for a, b in zip(cv, xv):
        if a != b:
            return "value " + a[1]
    if len(cv) != len(xv):
        return "value-count"
    return "output-bytes"


def _vals(h):
    """[(op, field, kind, payload)] of one half"""
    try:
        n = int(h[3], 16)
        return [tuple(h[4 + 4 * i: 8 + 4 * i]) for i in range(n)]
    except Exception:
        return []


def shrink(s):
    ops = split_ops(s)
    # drop one op (never the leading support selection), then a selection + op pair
    for i in range(1, len(ops)):
        yield " ".join(" ".join(o) for o in ops[:i] + ops[i + 1:])
    for i in range(1, len(ops) - 1):
        yield " ".join(" ".join(o) for o in ops[:i] + ops[i + 2:])
    # simplify numbers towards small values
    for i, o in enumerate(ops):
        for j in range(1, len(o)):
            if not o[j].startswith("$") and o[j] not in ("~", "0", "1"):
                for repl in ("0", "1"):
                    yield " ".join(" ".join(x) for x in ops[:i] + [o[:j] + [repl] + o[j + 1:]] + ops[i + 1:])
        if o[0] == ":M" and o[1] != "~":
            yield " ".join(" ".join(x) for x in ops[:i] + [[":M", "~"]] + ops[i + 1:])


def project(o, flavour):
    """model vs implementation: the semantics of the C++ machinery is a parameter of the model (theorem C19_equiv_obs holds for every
    machine), so what the extracted model predicts of an observation is that its two halves are identical -- which is exactly what
    the property constrains; an observation whose halves differ is kept verbatim (and never equals the model's)."""
    c, x = halves(o)
    if c is None:
        return o
    return "agree" if c == x else o


_FIELDS_USED = {}


def _count_fields(scns):
    for s in scns:
        for w in s.split():
            if w.startswith(":") and "." in w:
                _FIELDS_USED[w[1:]] = _FIELDS_USED.get(w[1:], 0) + 1


def header_fields():
    """field names of the three structs, from the header the harness was compiled against"""
    src = open(os.path.join(REPO, "include/CppUTestExt/MockSupport_c.h")).read()
    res = {}
    for tag, key in (("SMockActualCall_c", "A"), ("SMockExpectedCall_c", "E"), ("SMockSupport_c", "S")):
        m = re.search(r"struct\s+%s\s*\{(.*?)\n\};" % tag, src, re.S)
        body = m.group(1) if m else ""
        res[key] = []
        for stmt in body.split(";"):
            f = re.search(r"\(\s*\*\s*(\w+)\s*\)\s*\(", stmt)     # first "(*name)(" of the declaration: the field itself
            if f:
                res[key].append(f.group(1))
    return res


def evidence_extra(cov):
    hf = header_fields()
    total = sum(len(v) for v in hf.values())
    missing = [k + "." + f for k, v in hf.items() for f in v if (k + "." + f) not in _FIELDS_USED]
    cov["table_entries_in_header"] = total
    cov["table_entries_called"] = total - len(missing)
    cov["table_entries_never_called"] = missing
    cov["calls_per_table_entry_min"] = min([_FIELDS_USED.get(k + "." + f, 0) for k, v in hf.items() for f in v] or [0])


LEVEL_TEXT = ("Machine-checked (Coq) theorems over a wiring model REGENERATED FROM THE SOURCE on every run (field order and signatures of "
              "the three C structs, the three positional initialisers, the body of every forwarder: C++ method, receiver, casts, default "
              "handling; the type-name dispatch of getMockValueCFromNamedValue; the comparator/copier adaptors; the C++ definitions of the "
              "...OrDefault methods in MockSupport.cpp / MockActualCall.cpp): every table position forwards to the C++ operation its "
              "field name and signature denote, value conversion to the C tagged union is exact, and for every valid C scenario the "
              "sequence of C++ operations reached through the tables equals its direct C++ translation (for any semantics of the C++ "
              "machinery). Tied to the real code by an implementation-vs-implementation differential run: each generated scenario is "
              "executed through mock_c() from a C translation unit and through mock() from C++ inside a real test; verdict, failure "
              "text, returned values (tag + payload), defaulting, output bytes and data-store reads must be identical.")
LEVEL_NOTE = ("Trusted: Coq kernel, the translator-lite plugin tools/gen/C19.py (anchored regular expressions over the forwarders), extraction, "
              "the two harness interpreters (C and C++), generators. Modelled not verified: the C++ machinery behind both interfaces is a "
              "parameter of the equivalence theorem (its own behaviour is the subject of C08/C09); the model-vs-implementation comparison "
              "is the agreement of the two halves. Not covered: tracing, onObject (absent from the C interface), NULL names, "
              "removeAllComparatorsAndCopiers while custom-type values are alive, crashOnFailure(non-zero), CPPUTEST_USE_LONG_LONG=0.")
TECHNIQUE = "Coq proof over wiring tables regenerated from source + C-vs-C++ differential execution of generated scenarios (same scenario through both interfaces)"
READY = True
