"""C19 -- the C mocking interface behaves exactly like the C++ one.

Scenario = flat list of ops.  op ::= :M <scope>            select the mock support: ~ = mock_c() / mock(), $name = mock_scope_c(name) / mock(name)
                                   | :S.<field> args        entry of MockSupport_c on the selected support
                                   | :E.<field> args        entry of MockExpectedCall_c on the expected call returned last
                                   | :A.<field> args        entry of MockActualCall_c on the actual call returned last
                                   | :T                     the test ends here, the next test of the scenario begins: the mock state is kept (nothing
                                                            is cleared or checked for the user), and so are the table pointers / references he holds
args are generic: numbers ([-]hex; integers, double bit patterns, pointer bits) and byte strings ($hex; names, strings, buffers,
8-byte objects; ~ = NULL), in the order of the C signature, with `size` arguments implied by the length of the preceding buffer
and output buffers (16 bytes, pre-filled with 0xEE) supplied by the harness.  A comparator / copier function is a number: its index in
the harness's pool (harness/C19_shared.h: 2 equality functions, 3 to-string functions, 2 copiers), so
  :S.installComparator <type name> <equality 0..1> <to-string 0..2>        :S.installCopier <type name> <copier 0..1>
and several type names can share some of their functions and differ in others.

Observation = ":c <half> :x <half>": the scenario through the C interface and through the C++ interface.
half ::= <t> (<failures> <runs of the crash hook> <op at which the test was left | ~> <failure text | ~>)^t <n> (<op> :<T.field> :<kind> <payload>)^n <k> (<op> <16 bytes>)^k
How the test is left: the harness installs a counting crash hook (UtestShell::setCrashMethod); `:S.crashOnFailure <n>` is
mock_c()->crashOnFailure(n) / mock().crashOnFailure(n != 0); a failure reported through a reporter whose flag is set runs the hook
(UT_CRASH) before the test is left; both halves must run it equally often.
"""
import os, re
from vlib import tz, tb, REPO

ID = "C19"
FLAVOURS = ["asan"]
HARNESS_SRCS = ["harness/C19.cpp", "harness/C19_c.c"]
PER_TIMEOUT = 30.0
CRASH_IS_VIOLATION = True
RULE = ("every scenario is executed through mock_c()/mock_scope_c() from a C translation unit and through mock()/mock(scope) from C++ "
        "inside a real test; families: (1) per parameter/return type T x lattice value (negative, >2^31, >2^32, >=2^63, non-zero upper "
        "halves, fractions, distinct pointers): expectation with<T>/andReturn<T'>, matching or deviating actual call, every reader "
        "(hasReturnValue, returnValue, typed getter of the right and of a wrong type, ...OrDefault with and without a value) through the "
        "actual-call table and through the support table; (2) data store set/get for every setter, scopes, clear; (3) output parameters "
        "(plain, of type with copier, unmodified), custom comparators, missing comparator/copier; (4) strictOrder, expectNCalls, "
        "expectNoCall, ignoreOtherCalls, ignoreOtherParameters, enable/disable, expectedCallsLeft, checkExpectations, clear; "
        "(4b) HOW THE TEST IS LEFT: crashOnFailure(n) for n in 0, 1, 2, 2^31, 2^32-1 set through the global support or a named scope "
        "(once, twice with different values, on/off/on, before the expectations, after the actual call exists), then a failure of every "
        "origin -- raised by the actual call object (unexpected call, unexpected parameter value, call although expectNoCall, missing "
        "parameter found when the next call or checkExpectations closes the call) or by MockSupport itself at checkExpectations time "
        "(expected call did not happen, checked through the scope or through the global support; calls out of strict order) or by a "
        "plain CHECK of the library (getter of the wrong type: no reporter) or none -- in the global support and in named scopes, "
        "with clear() before / after the flag is set / between two generations of expectations, through the same or another "
        "support, WITH and WITHOUT selecting the support again after the clear (a C user keeps the table pointer); the full product "
        "origin x failing scope x flag scope x clear position x re-selection is in every quick run; observed: number of runs of the "
        "crash hook in each half; (4c) SEVERAL TESTS IN A ROW (:T) sharing the mock state: a failing first test (every origin) followed by "
        "tests that fail again, with the flag set in the first / only in a later test / switched off later, going on with the table "
        "pointer held (global support) or selecting again, with or without an explicit clear at the start of the next test; "
        "(5) interleavings of scopes with readers after the support was switched; (6) random op sequences over the "
        "whole grammar; (7) several custom types (T1, T2, T3) whose comparator / copier functions are drawn from a pool of 2 equality x "
        "3 to-string x 2 copier functions WITH SHARING: every pair of (equality, to-string) assignments for two types (36) in both install "
        "orders, one generic equality with a text per type, one text with an equality per type, the same functions under two names, one "
        "copier for all / one per type, re-installation of a type with other functions, removeAll followed by a different assignment, "
        "install through a scope; then one call with an input (and output) parameter per type that passes, or deviates in ONE type "
        "(objects chosen so that exactly one of the two equality functions tells them apart -> verdict; the failure text prints the "
        "value with that type's to-string; the output bytes show the copier), or lacks a parameter (the expectation is printed). "
        "non-trivial = the scenario makes an actual call or reads a value back")
ASSUMPTIONS = [
    "LP64; every argument is in range of the C type of its parameter (a C caller cannot pass anything else)",
    "valid scenarios only: the first op selects a support; :E ops only while the expected call returned last is alive (no clear since), "
    ":A ops only while the actual call returned last is alive (no clear since); names and string values are non-NULL (string defaults "
    "may be NULL); objects are 8 bytes, output values at most 16 bytes; the crash hook returns (it counts; the terminator then leaves "
    "the test), a scope's table/reference is not used after the global clear() deleted the scope; comparator / copier functions are "
    "those of the harness's pool (index in range); "
    "removeAllComparatorsAndCopiers only while no expectation or call holds a custom-type value (the C adaptor objects are owned and "
    "freed by the C layer, the C++ ones by the user)",
    "bool is an int in C: every int v stands for the bool (v != 0) and a returned int r is read as (r != 0)",
]

# ---------------------------------------------------------------------------------------------------------------- vocabulary
I31, I32, I63, I64 = 1 << 31, 1 << 32, 1 << 63, 1 << 64
# (suffix, getter prefix, kind, signed, lattice)
TYPES = {
    "Bool": ("bool", "b", [0, 1, 2, -1, 256, -I31]),
    "Int": ("int", "i0", [-I31, -2, -1, 0, 1, 0x12345678, I31 - 1]),
    "UnsignedInt": ("unsignedInt", "i1", [0, 1, I31 - 1, I31, 0x89abcdef, I32 - 1]),
    "LongInt": ("longInt", "i2", [-I63, -I32 - 5, -I31 - 1, -1, 0, I31, I32 + 5, 0x123456789abcdef0, I63 - 1]),
    "UnsignedLongInt": ("unsignedLongInt", "i3", [0, 7, I31, I32, I32 + 5, I63, 0xfedcba9876543210, I64 - 1]),
    "LongLongInt": ("longLongInt", "i4", [-I63, -I32 - 6, -1, 0, I32 + 6, 0x0123456700000000, I63 - 1]),
    "UnsignedLongLongInt": ("unsignedLongLongInt", "i5", [0, 9, I32 + 7, I63, I63 + 1, 0xfedcba9800000000, I64 - 1]),
    "Double": ("double", "d", [0x0, 0x3ff8000000000000, 0xc002000000000000, 0x7e37e43c8800759c, 0x3fb999999999999a, 0x4340000000000001,
                               0x7ff0000000000000, 0x1, 0x8000000000000000]),
    "String": ("string", "s", [b"", b"a", b"hello", b"h\xc3\xa9llo", b"two words", b"hellp"]),
    "Pointer": ("pointer", "p", [0, 0x1000, 0x1008, 0xdeadbeef00, I64 - 8]),
    "ConstPointer": ("constPointer", "cp", [0, 0x2000, 0x2008, 0xfeedface00, I64 - 16]),
    "FunctionPointer": ("functionPointer", "fp", [0, 0x3000, 0x3010, 0xabcdef0120]),
}
TNAMES = list(TYPES)
INTS = ["Int", "UnsignedInt", "LongInt", "UnsignedLongInt", "LongLongInt", "UnsignedLongLongInt"]
SETTERS = ["Bool", "Int", "UnsignedInt", "String", "Double", "Pointer", "ConstPointer", "FunctionPointer"]
FUNS = [b"f0", b"f1", b"f2"]
PARS = [b"p0", b"p1", b"p2"]
SCOPES = [None, None, b"s1", b"s2"]
DATA = [b"d0", b"d1"]
OBJS = [bytes([1, 2, 3, 4, 5, 6, 7, 8]), bytes([1, 2, 3, 4, 9, 9, 9, 9]), bytes([1, 2, 3, 5, 5, 6, 7, 8]), bytes(8), bytes([0xff] * 8)]
MEMS = [b"", b"\x00", b"ab", b"ab\x00", b"ac", b"\xff\x80\x00\x01", bytes(range(16))]
OUTV = [b"", b"\x2a", b"\x01\x02\x03\x04", bytes(range(0x10, 0x18)), bytes(range(0x30, 0x40))]


def val(t, v):
    return tb(v) if t == "String" else tz(v)


def op(table, field, *args):
    return " ".join([":%s.%s" % (table, field)] + [a if isinstance(a, str) else (tb(a) if isinstance(a, (bytes, type(None))) else tz(a)) for a in args])


def M(scope):
    return ":M " + tb(scope)


def with_(table, t, name, v):
    if t == "String":
        return op(table, "withStringParameters", name, v)
    return op(table, "with%sParameters" % t, name, v)


def and_return(t, v):
    return op("E", "andReturn%sValue" % t, v)


def getter(table, t):
    return op(table, "%sReturnValue" % TYPES[t][0])


def or_default(table, t, d):
    return op(table, "return%sValueOrDefault" % t, d)


def join(ops):
    return " ".join(ops)


# ---------------------------------------------------------------------------------------------------------------- families
def fam_types(rng, out, tier):
    """per type x value: parameter and return value round trip, every reader, through both tables"""
    reps = 2 if tier == "quick" else 12
    for _ in range(reps):
        for t in TNAMES:
            lat = TYPES[t][2]
            for v in lat:
                rt = rng.choice(TNAMES)
                rv = rng.choice(TYPES[rt][2])
                sc = rng.choice(SCOPES)
                f, p = rng.choice(FUNS), rng.choice(PARS)
                exp = [M(sc), op("S", "expectOneCall", f), with_("E", t, p, v), and_return(rt, rv)]
                # the actual value: same, or another lattice value, or the same number through another integer type
                r = rng.random()
                at, av = t, v
                if r < 0.25:
                    av = rng.choice(lat)
                elif r < 0.4 and t in INTS:
                    at = rng.choice(INTS)
                    av = rng.choice(TYPES[at][2] + [v]) if rng.random() < 0.5 else v
                    if not in_range(at, av):
                        at, av = t, v
                tab = rng.choice(["A", "A", "S"])
                readers = []
                for _k in range(rng.randrange(1, 4)):
                    c = rng.random()
                    gt = rt if rng.random() < 0.7 else rng.choice(TNAMES)
                    if c < 0.2:
                        readers.append(op(tab, "hasReturnValue"))
                    elif c < 0.4:
                        readers.append(op(tab, "returnValue"))
                    elif c < 0.7:
                        readers.append(getter(tab, gt))
                    else:
                        readers.append(or_default(tab, gt, rng.choice(TYPES[gt][2] + ([None] if gt == "String" else []))))
                call = [M(sc), op("S", "actualCall", f), with_("A", at, p, av)] + ([M(sc)] if tab == "S" else []) + readers
                out.append(join(exp + call + [M(sc), op("S", "checkExpectations")]))
        # the return type alone: every type, every value, read through returnValue + the right getter + OrDefault, both tables
        for t in TNAMES:
            for v in TYPES[t][2]:
                tab = rng.choice(["A", "S"])
                sc = rng.choice(SCOPES)
                f = rng.choice(FUNS)
                d = rng.choice(TYPES[t][2])
                out.append(join([M(sc), op("S", "expectOneCall", f), and_return(t, v), M(sc), op("S", "actualCall", f), M(sc),
                                 op(tab, "hasReturnValue"), op(tab, "returnValue"), getter(tab, t), or_default(tab, t, d)]))
        # no return value set: every OrDefault returns the default, through both tables; also an ignored (disabled) call
        for t in TNAMES:
            for d in TYPES[t][2] + ([None] if t == "String" else []):
                tab = rng.choice(["A", "S"])
                sc = rng.choice(SCOPES)
                f = rng.choice(FUNS)
                mode = rng.randrange(3)
                if mode == 0:
                    pre = [M(sc), op("S", "expectOneCall", f), M(sc), op("S", "actualCall", f)]
                elif mode == 1:
                    pre = [M(sc), op("S", "disable"), op("S", "actualCall", f)]
                else:
                    pre = [M(sc), op("S", "ignoreOtherCalls"), op("S", "actualCall", f)]
                out.append(join(pre + [M(sc), op(tab, "hasReturnValue"), or_default(tab, t, d)] + ([op(tab, "returnValue")] if mode else [])))


def in_range(t, v):
    lo, hi = {"Bool": (-I31, I31 - 1), "Int": (-I31, I31 - 1), "UnsignedInt": (0, I32 - 1), "LongInt": (-I63, I63 - 1),
              "UnsignedLongInt": (0, I64 - 1), "LongLongInt": (-I63, I63 - 1), "UnsignedLongLongInt": (0, I64 - 1)}[t]
    return lo <= v <= hi


def fam_data(rng, out, tier):
    n = 200 if tier == "quick" else 4000
    for _ in range(n):
        ops = []
        for _k in range(rng.randrange(2, 9)):
            sc = rng.choice(SCOPES)
            c = rng.random()
            name = rng.choice(DATA)
            if c < 0.45:
                t = rng.choice(SETTERS)
                v = rng.choice(TYPES[t][2])
                ops += [M(sc), op("S", "set%sData" % t, name, v)]
            elif c < 0.55:
                ops += [M(sc), op("S", rng.choice(["setDataObject", "setDataConstObject"]), name, rng.choice([b"T1", b"T2", b"MockSupport"]),
                                  rng.choice([0, 0x5000, 0x5008]))]
            elif c < 0.92:
                ops += [M(sc), op("S", "getData", name)]
            else:
                ops += [M(sc), op("S", "clear")]
        ops += [M(None), op("S", "getData", DATA[0]), M(b"s1"), op("S", "getData", DATA[0])]
        out.append(join(ops))


def fam_outputs(rng, out, tier):
    n = 300 if tier == "quick" else 6000
    for _ in range(n):
        sc = rng.choice(SCOPES)
        f = rng.choice(FUNS)
        ops = [M(sc)]
        inst_cmp, inst_cpy = rng.random() < 0.8, rng.random() < 0.8
        if inst_cmp:
            ops.append(op("S", "installComparator", b"T1", rng.choice([0, 0, 1]), rng.randrange(3)))
        if inst_cpy:
            ops.append(op("S", "installCopier", b"T1", rng.choice([0, 0, 1])))
        ops.append(op("S", "expectNCalls", rng.choice([1, 1, 2]), f) if rng.random() < 0.3 else op("S", "expectOneCall", f))
        chainE, chainA = [], []
        for _k in range(rng.randrange(1, 4)):
            p = rng.choice(PARS + [b"q0"])
            c = rng.random()
            if c < 0.3:
                chainE.append(op("E", "withOutputParameterReturning", p, rng.choice(OUTV)))
                chainA.append(op("A", "withOutputParameter", p))
            elif c < 0.5:
                o1 = rng.choice(OBJS)
                chainE.append(op("E", "withOutputParameterOfTypeReturning", b"T1", p, o1))
                chainA.append(op("A", "withOutputParameterOfType", rng.choice([b"T1", b"T1", b"T2"]), p))
            elif c < 0.6:
                chainE.append(op("E", "withUnmodifiedOutputParameter", p))
                chainA.append(op("A", "withOutputParameter", p))
            elif c < 0.8:
                o1 = rng.choice(OBJS)
                o2 = o1 if rng.random() < 0.4 else rng.choice(OBJS)
                chainE.append(op("E", "withParameterOfType", b"T1", p, o1))
                chainA.append(op("A", "withParameterOfType", rng.choice([b"T1", b"T1", b"T1", b"T2"]), p, o2))
            else:
                m1 = rng.choice(MEMS)
                m2 = m1 if rng.random() < 0.5 else rng.choice(MEMS)
                chainE.append(op("E", "withMemoryBufferParameter", p, m1))
                chainA.append(op("A", "withMemoryBufferParameter", p, m2))
        r = rng.random()
        if r < 0.15 and chainA:
            chainA.pop(rng.randrange(len(chainA)))
        elif r < 0.3:
            rng.shuffle(chainA)
        ops += chainE + [M(sc), op("S", "actualCall", f)] + chainA
        if rng.random() < 0.3:
            ops += [M(sc), op("S", "actualCall", f)] + chainA
        ops += [M(sc), op("S", "checkExpectations")]
        out.append(join(ops))


# ---- several custom types, functions drawn from the pool with sharing
CTYPES = [b"T1", b"T2", b"T3"]
OBJ_A = bytes([1, 2, 3, 4, 5, 6, 7, 8])
OBJ_SAME_HEAD = bytes([1, 2, 3, 4, 9, 9, 9, 9])      # equality 0 (first half): equal to A; equality 1 (second half): different
OBJ_SAME_TAIL = bytes([1, 2, 3, 5, 5, 6, 7, 8])      # equality 0: different; equality 1: equal
OBJ_OTHER = bytes([10, 11, 12, 13, 14, 15, 16, 17])  # different for both
DEVS = [OBJ_SAME_HEAD, OBJ_SAME_TAIL, OBJ_OTHER]
N_EQ, N_STR, N_COPY = 2, 3, 2


def install_ops(assign, copiers_last=False):
    """assign: [(type, eq, str, copier|None)] in install order"""
    ops, late = [], []
    for (ty, e, st, cp) in assign:
        if e is not None:
            ops.append(op("S", "installComparator", ty, e, st))
        if cp is not None:
            (late if copiers_last else ops).append(op("S", "installCopier", ty, cp))
    return ops + late


def custom_call(rng, sc, f, assign, dev_type, dev_obj, drop=None, outputs=True, second_expectation=False, wrong_type=None):
    """one expectation (or two) of f with an input parameter per installed type (+ an output parameter per type that has a copier) and
    one actual call: the parameter of dev_type carries dev_obj instead of OBJ_A; `drop` = type whose parameter the actual call lacks;
    wrong_type = (type, other) passes the parameter of `type` under the type name `other`"""
    tys = []
    for a in assign:
        if a[0] not in [t[0] for t in tys]:
            tys.append(a)
    ops = [M(sc), op("S", "expectOneCall", f)]
    chainA = []
    for i, (ty, e, st, cp) in enumerate(tys):
        pn = b"p" + ty[1:]
        ops.append(op("E", "withParameterOfType", ty, pn, OBJ_A))
        if ty != drop:
            aty = wrong_type[1] if (wrong_type and wrong_type[0] == ty) else ty
            chainA.append(op("A", "withParameterOfType", aty, pn, dev_obj if ty == dev_type else OBJ_A))
        if outputs and cp is not None:
            qn = b"q" + ty[1:]
            ops.append(op("E", "withOutputParameterOfTypeReturning", ty, qn, bytes([0x10 * (i + 1) + k for k in range(8)])))
            chainA.append(op("A", "withOutputParameterOfType", ty, qn))
    if second_expectation:
        ops += [M(sc), op("S", "expectOneCall", f)]
        for (ty, e, st, cp) in tys:
            ops.append(op("E", "withParameterOfType", ty, b"p" + ty[1:], OBJ_OTHER))
    if rng.random() < 0.2:
        rng.shuffle(chainA)
    ops += [M(sc), op("S", "actualCall", f)] + chainA
    ops += [M(sc), op("S", "checkExpectations")]
    return ops


def fam_custom(rng, out, tier):
    """custom-type comparators / copiers confused with one another: shared equality with different texts, shared text with different
    equalities, the same functions under two names, shared copier, install order, re-installation, removeAll + other assignment"""
    pairs = [(e, st) for e in range(N_EQ) for st in range(N_STR)]
    # (a) every pair of assignments for two types, both install orders; the call deviates in the type installed LAST by an object
    #     both equalities reject (the failure text prints the value with that type's to-string) -- always in the quick tier
    for (e1, s1) in pairs:
        for (e2, s2) in pairs:
            for order in (0, 1):
                assign = [(b"T1", e1, s1, None), (b"T2", e2, s2, None)]
                if order:
                    assign.reverse()
                out.append(join([M(None)] + install_ops(assign) + custom_call(rng, None, b"f0", assign, assign[1][0], OBJ_OTHER, outputs=False)))
    # (b) every pair of copier assignments, both orders, same or different comparators
    for c1 in range(N_COPY):
        for c2 in range(N_COPY):
            for order in (0, 1):
                (e1, s1), (e2, s2) = rng.choice(pairs), rng.choice(pairs)
                assign = [(b"T1", e1, s1, c1), (b"T2", e2, s2, c2)]
                if order:
                    assign.reverse()
                out.append(join([M(None)] + install_ops(assign, copiers_last=rng.random() < 0.5) + custom_call(rng, None, b"f1", assign, None, None)))
    # (c) random: 2..3 types, sharing pattern chosen first
    n = 260 if tier == "quick" else 6000
    for _ in range(n):
        k = rng.choice([2, 2, 3])
        tys = rng.sample(CTYPES, k)
        pat = rng.randrange(6)
        e0, s0, c0 = rng.randrange(N_EQ), rng.randrange(N_STR), rng.randrange(N_COPY)
        assign = []
        for i, ty in enumerate(tys):
            if pat == 0:      # one generic equality, a text per type
                e, st = e0, (s0 + i) % N_STR
            elif pat == 1:    # one text, an equality per type
                e, st = (e0 + i) % N_EQ, s0
            elif pat == 2:    # the same functions under several names
                e, st = e0, s0
            else:
                e, st = rng.randrange(N_EQ), rng.randrange(N_STR)
            cp = rng.choice([None, c0, c0, (c0 + i) % N_COPY])
            assign.append((ty, e, st, cp))
        removed_type = None
        sc_i = rng.choice([None, None, None, b"s1"])      # the support the functions are installed through
        sc = sc_i if rng.random() < 0.8 else rng.choice(SCOPES)
        pre = [M(sc_i)]
        r = rng.random()
        if r < 0.15:
            # an earlier, different assignment, then removeAll (nothing holds a custom value yet), then the real one
            first = [(ty, rng.randrange(N_EQ), rng.randrange(N_STR), rng.choice([None, rng.randrange(N_COPY)])) for ty in rng.sample(CTYPES, rng.choice([1, 2, 3]))]
            pre += install_ops(first) + [op("S", "removeAllComparatorsAndCopiers")]
            pre += install_ops(assign, copiers_last=rng.random() < 0.3)
            gone = [a[0] for a in first if a[0] not in [b[0] for b in assign]]
            if gone and rng.random() < 0.6:
                removed_type = (gone[0], None, None, None)      # the call also has a parameter of a type that is not installed any more
        elif r < 0.35:
            # a type installed twice: the later functions count
            ty, e, st, cp = rng.choice(assign)
            again = (ty, rng.randrange(N_EQ), rng.randrange(N_STR), rng.choice([None, rng.randrange(N_COPY)]))
            if rng.random() < 0.5:
                pre += install_ops([again] + assign)
            else:
                pre += install_ops(assign + [again])
                assign = [a for a in assign if a[0] != ty] + [(ty, again[1], again[2], again[3] if again[3] is not None else cp)]
        elif r < 0.45:
            # comparator for one type only / copier for one type only
            i = rng.randrange(len(assign))
            ty, e, st, cp = assign[i]
            assign[i] = (ty, None, None, cp) if rng.random() < 0.5 else (ty, e, st, None)
            pre += install_ops([a for a in assign])
            assign[i] = (ty, 0, 0, assign[i][3])
        else:
            pre += install_ops(assign, copiers_last=rng.random() < 0.3)
        dv = rng.random()
        dev_type, dev_obj, drop, wrong = None, None, None, None
        if dv < 0.6:
            dev_type, dev_obj = rng.choice(assign)[0], rng.choice(DEVS)
        elif dv < 0.7:
            drop = rng.choice(assign)[0]
        elif dv < 0.8:
            a, b = rng.sample(assign, 2)
            wrong = (a[0], b[0])
        ops = pre + custom_call(rng, sc, rng.choice(FUNS), assign + ([removed_type] if removed_type else []), dev_type, dev_obj, drop=drop, outputs=rng.random() < 0.7,
                                second_expectation=rng.random() < 0.25, wrong_type=wrong)
        if rng.random() < 0.1:
            ops += [M(None), op("S", "clear"), op("S", "removeAllComparatorsAndCopiers")]
        out.append(join(ops))


# ---- how the test is left: crashOnFailure x origin of the failure x scope x clear
CRASH_ON = [1, 1, 1, 2, 0x80000000, 0xffffffff]
CRASH_KINDS = ["unexpected-call", "unexpected-value", "call-of-expectNoCall", "not-happened", "out-of-order", "missing-parameter-at-check",
               "missing-parameter-at-next-call", "getter-of-wrong-type", "pass"]


class Seq:
    """op list with the selection of the support made explicit: lazy = select only when the support changes (a C user keeps the
    MockSupport_c* it got; a C++ user keeps the MockSupport&) -- never across the deletion of a scope by the global clear()"""
    def __init__(self, lazy):
        self.ops, self.cur, self.lazy = [], "unset", lazy

    def sel(self, sc):
        if self.cur == "unset" or self.cur != sc or not self.lazy:
            self.ops.append(M(sc))
            self.cur = sc

    def S(self, sc, field, *args):
        self.sel(sc)
        self.ops.append(op("S", field, *args))
        if field == "clear" and sc is None and self.cur is not None:
            self.cur = "unset"
        return self

    def add(self, *ops):
        self.ops += list(ops)
        return self

    def newtest(self):
        """the next test: a scope may have been deleted by the clear() of a failing checkExpectations -> it is selected again"""
        self.ops.append(":T")
        if self.cur is not None:
            self.cur = "unset"
        return self


def crash_failure(q, rng, kind, sc, check_sc, late=None):
    """append expectations + calls that fail in the way `kind` says, inside support sc; checkExpectations through check_sc;
    late = (scope, value): a crashOnFailure placed after the actual call exists (before the op that fails, where there is room)"""
    f, g, p = rng.choice(FUNS), b"g9", rng.choice(PARS)

    def late_flag():
        if late:
            q.S(late[0], "crashOnFailure", late[1])

    if kind == "unexpected-call":
        late_flag()
        q.S(sc, "actualCall", g)
    elif kind == "unexpected-value":
        q.S(sc, "expectOneCall", f).add(with_("E", "Int", p, 1))
        q.S(sc, "actualCall", f)
        late_flag()
        if late and late[0] != sc:
            return q.S(sc, "checkExpectations")      # the call cannot be continued after another support was selected in C++ either: close it
        q.add(with_("A", "Int", p, 2))
    elif kind == "call-of-expectNoCall":
        q.S(sc, "expectNoCall", f)
        late_flag()
        q.S(sc, "actualCall", f)
    elif kind == "not-happened":
        q.S(sc, "expectOneCall", f)
        if rng.random() < 0.5:
            q.add(with_("E", "Int", p, 1))
        late_flag()
        q.S(check_sc, "checkExpectations")
    elif kind == "out-of-order":
        q.S(sc, "strictOrder")
        q.S(sc, "expectOneCall", FUNS[0]).S(sc, "expectOneCall", FUNS[1])
        q.S(sc, "actualCall", FUNS[1]).S(sc, "actualCall", FUNS[0])
        late_flag()
        q.S(check_sc, "checkExpectations")
    elif kind == "missing-parameter-at-check":
        q.S(sc, "expectOneCall", f).add(with_("E", "Int", p, 1))
        q.S(sc, "actualCall", f)
        late_flag()
        q.S(check_sc, "checkExpectations")
    elif kind == "missing-parameter-at-next-call":
        q.S(sc, "expectOneCall", FUNS[0]).add(with_("E", "Int", p, 1))
        q.S(sc, "expectOneCall", FUNS[1])
        q.S(sc, "actualCall", FUNS[0])
        late_flag()
        q.S(sc, "actualCall", FUNS[1])
    elif kind == "getter-of-wrong-type":
        q.S(sc, "expectOneCall", f).add(and_return("Int", 1))
        q.S(sc, "actualCall", f)
        if late and late[0] == sc:
            late_flag()
        q.add(op("A", "stringReturnValue"))
    else:
        q.S(sc, "expectOneCall", f).S(sc, "actualCall", f)
        late_flag()
        q.S(check_sc, "checkExpectations")
    return q


def fam_crash(rng, out, tier):
    # (a) the product, in every run: origin x failing scope x scope the flag is set through x clear x re-selection
    for kind in CRASH_KINDS:
        for sc in (None, b"s1"):
            for fsc in (None, b"s1", b"s2"):
                for clr in ("none", "global", "scope"):
                    for lazy in (True, False):
                        q = Seq(lazy)
                        q.S(fsc, "crashOnFailure", rng.choice(CRASH_ON))
                        if clr == "global":
                            q.S(None, "clear")
                        elif clr == "scope":
                            q.S(sc if sc is not None else fsc, "clear")
                        check_sc = sc if rng.random() < 0.6 else None
                        crash_failure(q, rng, kind, sc, check_sc)
                        out.append(join(q.ops))
    # (b) random: flag sequences (off, on, on/off, on/off/on, through several scopes), clear at several places, a first generation of
    #     expectations wiped by clear, the flag set after the call exists
    n = 400 if tier == "quick" else 12000
    for _ in range(n):
        q = Seq(rng.random() < 0.6)
        sc = rng.choice(SCOPES)
        kind = rng.choice(CRASH_KINDS)
        if rng.random() < 0.2:
            q.S(rng.choice(SCOPES), "clear")
        r = rng.random()
        if r < 0.45:
            flags = [rng.choice(CRASH_ON)]
        elif r < 0.55:
            flags = [0]
        elif r < 0.7:
            flags = [rng.choice(CRASH_ON), 0]
        elif r < 0.85:
            flags = [0, rng.choice(CRASH_ON)]
        elif r < 0.95:
            flags = [rng.choice(CRASH_ON), 0, rng.choice(CRASH_ON)]
        else:
            flags = []
        late = None
        if flags and rng.random() < 0.25:
            late = (rng.choice([sc, sc, rng.choice(SCOPES)]), flags.pop())
        for v in flags:
            q.S(rng.choice(SCOPES), "crashOnFailure", v)
            if rng.random() < 0.15:
                q.S(rng.choice(SCOPES), "clear")
        if rng.random() < 0.25:
            # a first generation of expectations (and a call) that a clear wipes out
            q.S(sc, "expectOneCall", b"f2").add(with_("E", "Int", b"p0", 7))
            if rng.random() < 0.5:
                q.S(sc, "actualCall", b"f2").add(with_("A", "Int", b"p0", 7))
            q.S(rng.choice([sc, None]), "clear")
        if rng.random() < 0.15:
            q.S(rng.choice(SCOPES), rng.choice(["enable", "expectedCallsLeft", "strictOrder"]))
        check_sc = sc if rng.random() < 0.5 else None
        crash_failure(q, rng, kind, sc, check_sc, late=late)
        if rng.random() < 0.3:
            q.S(None, "checkExpectations")
        out.append(join(q.ops))


def fam_tests(rng, out, tier):
    """several tests in a row sharing the mock state: what a failure leaves behind (the reporter in force, the flag, the statics)"""
    fails = [k for k in CRASH_KINDS if k != "pass"]
    # (a) product: origin of the first failure x where the flag is set x re-selection x scope, second test fails by the support / by a call
    for kind in fails:
        for flagpos in ("first", "second", "first-on-second-off"):
            for lazy in (True, False):
                for sc in (None, b"s1"):
                    for kind2 in ("not-happened", "unexpected-call"):
                        q = Seq(lazy)
                        if flagpos != "second":
                            q.S(rng.choice([None, sc]), "crashOnFailure", rng.choice(CRASH_ON))
                        else:
                            q.sel(None)
                        crash_failure(q, rng, kind, sc, sc if rng.random() < 0.5 else None)
                        q.newtest()
                        if rng.random() < 0.3:
                            q.S(None, "clear")
                        if flagpos == "second":
                            q.S(None, "crashOnFailure", rng.choice(CRASH_ON))
                        elif flagpos == "first-on-second-off":
                            q.S(rng.choice([None, sc]), "crashOnFailure", 0)
                        sc2 = rng.choice([None, sc])
                        crash_failure(q, rng, kind2, sc2, sc2)
                        out.append(join(q.ops))
    n = 300 if tier == "quick" else 8000
    for _ in range(n):
        q = Seq(rng.random() < 0.6)
        for t in range(rng.choice([2, 2, 3, 4])):
            if t:
                q.newtest()
                if rng.random() < 0.4:
                    q.S(None, "clear")
            elif rng.random() < 0.5:
                q.sel(None)
            sc = rng.choice(SCOPES)
            if rng.random() < (0.7 if t == 0 else 0.3):
                q.S(rng.choice(SCOPES), "crashOnFailure", rng.choice(CRASH_ON + [0, 0]))
            late = (rng.choice([sc, None]), rng.choice([0, 1])) if rng.random() < 0.15 else None
            crash_failure(q, rng, rng.choice(CRASH_KINDS), sc, sc if rng.random() < 0.5 else None, late=late)
        out.append(join(q.ops))


def fam_flow(rng, out, tier):
    """order, counts, ignore, enable/disable, scopes interleaved, readers after the support was switched"""
    n = 900 if tier == "quick" else 25000
    for _ in range(n):
        ops = []
        scs = [rng.choice(SCOPES) for _k in range(2)]
        if rng.random() < 0.35:
            ops += [M(rng.choice(scs)), op("S", "strictOrder")]
        if rng.random() < 0.2:
            ops += [M(rng.choice(scs)), op("S", "ignoreOtherCalls")]
        if rng.random() < 0.2:
            ops += [M(rng.choice(scs)), op("S", "crashOnFailure", rng.choice([0, 0, 1, 1, 0xffffffff]))]
        exps = []
        for _k in range(rng.randrange(1, 5)):
            sc = rng.choice(scs)
            f = rng.choice(FUNS)
            c = rng.random()
            if c < 0.1:
                ops += [M(sc), op("S", "expectNoCall", f)]
                continue
            cnt = 1
            if c < 0.4:
                cnt = rng.choice([0, 1, 2, 3])
                ops += [M(sc), op("S", "expectNCalls", cnt, f)]
            else:
                ops += [M(sc), op("S", "expectOneCall", f)]
            ps = []
            for _j in range(rng.randrange(0, 3)):
                t = rng.choice(TNAMES)
                v = rng.choice(TYPES[t][2][:4])
                p = rng.choice(PARS)
                ps.append((t, p, v))
                ops.append(with_("E", t, p, v))
            if rng.random() < 0.1:
                ops.append(op("E", "withDoubleParametersAndTolerance", b"pd", 0x3ff8000000000000, rng.choice([0x0, 0x3fe0000000000000, 0x3fb999999999999a])))
                ps.append(("DoubleTol", b"pd", rng.choice([0x3ff8000000000000, 0x3ffc000000000000, 0x4000000000000000])))
            if rng.random() < 0.15:
                ops.append(op("E", "ignoreOtherParameters"))
            rt = None
            if rng.random() < 0.6:
                rt = rng.choice(TNAMES)
                ops.append(and_return(rt, rng.choice(TYPES[rt][2])))
            exps += [(sc, f, ps, rt)] * cnt
        if rng.random() < 0.15:
            ops += [M(rng.choice(scs)), op("S", "disable")]
        calls = list(exps)
        r = rng.random()
        if r < 0.3:
            rng.shuffle(calls)
        elif r < 0.4 and calls:
            calls.pop(rng.randrange(len(calls)))
        elif r < 0.5 and calls:
            calls.insert(rng.randrange(len(calls) + 1), rng.choice(calls))
        elif r < 0.55:
            calls.insert(rng.randrange(len(calls) + 1), (rng.choice(scs), b"g9", [], None))
        for (sc, f, ps, rt) in calls:
            ops += [M(sc), op("S", "actualCall", f)]
            ps = list(ps)
            r2 = rng.random()
            if r2 < 0.1 and ps:
                ps.pop()
            elif r2 < 0.2:
                ps.append(("Int", b"px", 1))
            for (t, p, v) in ps:
                if t == "DoubleTol":
                    ops.append(op("A", "withDoubleParameters", p, v))
                else:
                    if rng.random() < 0.1:
                        v = rng.choice(TYPES[t][2])
                    ops.append(with_("A", t, p, v))
            # readers, possibly after another support was selected (the statics of the C layer must not matter)
            k = rng.randrange(0, 3)
            if k and rng.random() < 0.5:
                other = rng.choice(SCOPES)
                ops += [M(other), rng.choice([op("S", "setIntData", b"dx", 1), op("S", "expectedCallsLeft"), op("S", "hasReturnValue"),
                                              op("S", "returnIntValueOrDefault", 5), op("S", "getData", b"dx")])]
            for _j in range(k):
                tab = rng.choice(["A", "S"])
                if tab == "S":
                    ops.append(M(rng.choice([sc, sc, rng.choice(SCOPES)])))
                gt = rt if (rt and rng.random() < 0.7) else rng.choice(TNAMES)
                c = rng.random()
                if c < 0.25:
                    ops.append(op(tab, "hasReturnValue"))
                elif c < 0.45:
                    ops.append(op(tab, "returnValue"))
                elif c < 0.7:
                    ops.append(getter(tab, gt))
                else:
                    ops.append(or_default(tab, gt, rng.choice(TYPES[gt][2])))
            if rng.random() < 0.08:
                ops += [M(rng.choice(scs)), op("S", rng.choice(["enable", "disable", "expectedCallsLeft", "checkExpectations"]))]
        tail = rng.random()
        if tail < 0.75:
            ops += [M(None), op("S", "expectedCallsLeft"), op("S", "checkExpectations")]
        elif tail < 0.85:
            ops += [M(rng.choice(scs)), op("S", "checkExpectations"), M(None), op("S", "checkExpectations")]
        elif tail < 0.95:
            ops += [M(rng.choice(scs)), op("S", "clear"), M(None), op("S", "hasReturnValue"), op("S", "returnValue"), op("S", "expectedCallsLeft"),
                    op("S", "returnLongIntValueOrDefault", -7), op("S", "checkExpectations")]
        out.append(join(ops))


def fam_cover(out):
    """one scenario that calls the remaining entries (so that every table entry is used in every run)"""
    out.append(join([M(None), op("S", "removeAllComparatorsAndCopiers"), op("S", "crashOnFailure", 0), op("S", "enable"),
                     op("S", "expectOneCall", b"f0"), op("E", "withUnmodifiedOutputParameter", b"p0"), op("E", "ignoreOtherParameters"),
                     M(None), op("S", "actualCall", b"f0"), op("A", "withOutputParameter", b"p0"), M(None), op("S", "checkExpectations"),
                     op("S", "clear"), op("S", "removeAllComparatorsAndCopiers")]))
    # the shapes of the repaired defect: readers of the support table with no / a dead / another scope's actual call
    out.append(join([M(None), op("S", "hasReturnValue"), op("S", "returnValue"), op("S", "intReturnValue"), op("S", "returnIntValueOrDefault", 9)]))
    out.append(join([M(None), op("S", "expectOneCall", b"f0"), and_return("Int", 1), M(None), op("S", "actualCall", b"f0"), M(None), op("S", "clear"),
                     op("S", "returnValue"), op("S", "hasReturnValue")]))
    out.append(join([M(None), op("S", "expectOneCall", b"f0"), and_return("Int", 1), M(b"s1"), op("S", "expectOneCall", b"f1"), and_return("Int", 2),
                     M(None), op("S", "actualCall", b"f0"), M(b"s1"), op("S", "actualCall", b"f1"), M(None), op("S", "intReturnValue"),
                     op("S", "returnIntValueOrDefault", 9), M(b"s1"), op("S", "intReturnValue")]))
    out.append(join([M(None), op("S", "expectOneCall", b"f0"), and_return("Int", 1), M(None), op("S", "actualCall", b"f0"), M(b"s1"),
                     op("S", "setIntData", b"d0", 1), op("A", "returnIntValueOrDefault", 9), op("A", "hasReturnValue")]))
    out.append(join([M(None), op("S", "disable"), op("S", "actualCall", b"f0"), op("A", "boolReturnValue"), op("S", "returnValue"), op("S", "boolReturnValue")]))


def generate(tier, rng):
    out = []
    fam_cover(out)
    fam_types(rng, out, tier)
    fam_data(rng, out, tier)
    fam_outputs(rng, out, tier)
    fam_custom(rng, out, tier)
    fam_crash(rng, out, tier)
    fam_tests(rng, out, tier)
    fam_flow(rng, out, tier)
    _count_fields(out)
    return out


# ---------------------------------------------------------------------------------------------------------------- metadata
def split_ops(s):
    ops, cur = [], []
    for x in s.split():
        if x.startswith(":") and cur:
            ops.append(cur)
            cur = []
        cur.append(x)
    if cur:
        ops.append(cur)
    return ops


def nontrivial(s):
    return ":S.actualCall" in s or ":S.getData" in s or "ReturnValue" in s or "OrDefault" in s


def classify(s):
    ops = split_ops(s)
    heads = [o[0] for o in ops]
    labs = ["ops=%d" % min(10 * (len(ops) // 10), 40)]
    if [":T"] in ops:
        labs.append("tests>=2")
        if any(o[0] == ":S.crashOnFailure" for o in ops):
            labs.append("tests>=2-with-crashOnFailure")
    if any(o[0] == ":M" and o[1] != "~" for o in ops):
        labs.append("scoped")
    for key, lab in (("OrDefault", "OrDefault"), (":S.getData", "data-store"), ("OutputParameter", "output-parameter"), ("OfType", "custom-type"),
                     (":S.strictOrder", "strictOrder"), (":S.ignoreOtherCalls", "ignoreOtherCalls"), (":S.disable", "disable"),
                     (":S.expectNCalls", "expectNCalls"), ("MemoryBuffer", "memory-buffer"), (":S.clear", "clear")):
        if any(key in h for h in heads):
            labs.append(lab)
    cmps = [(o[1], o[2], o[3]) for o in ops if o[0] == ":S.installComparator" and len(o) == 4]
    cps = [(o[1], o[2]) for o in ops if o[0] == ":S.installCopier" and len(o) == 3]
    if len(set(c[0] for c in cmps)) >= 2:
        labs.append("custom-types>=2")
        byty = {}
        for ty, e, st in cmps:
            byty[ty] = (e, st)          # the functions installed last for the name
        fns = list(byty.values())
        if any(a[0] == b[0] and a[1] != b[1] for i, a in enumerate(fns) for b in fns[i + 1:]):
            labs.append("shared-equality-own-text")
        if any(a[0] != b[0] and a[1] == b[1] for i, a in enumerate(fns) for b in fns[i + 1:]):
            labs.append("shared-text-own-equality")
        if any(a == b for i, a in enumerate(fns) for b in fns[i + 1:]):
            labs.append("same-functions-two-names")
    if len(set(c[0] for c in cps)) >= 2:
        labs.append("shared-copier" if len(set(c[1] for c in cps)) == 1 else "copier-per-type")
    if len(cmps) > len(set(c[0] for c in cmps)):
        labs.append("type-installed-twice")
    if ":S.removeAllComparatorsAndCopiers" in heads and any(h.startswith(":S.install") for h in heads[heads.index(":S.removeAllComparatorsAndCopiers"):]):
        labs.append("install-after-removeAll")
    cr = [o for o in ops if o[0] == ":S.crashOnFailure" and len(o) == 2]
    if cr:
        labs.append("crashOnFailure")
        if any(o[1] != "0" for o in cr):
            labs.append("crashOnFailure-armed")
            on = [i for i, o in enumerate(ops) if o[0] == ":S.crashOnFailure" and o[1] != "0"][0]
            if ":S.clear" in heads[on:]:
                labs.append("clear-after-crashOnFailure")
            if ":S.checkExpectations" in heads[on:]:
                labs.append("crashOnFailure-then-checkExpectations")
            j = heads.index(":S.clear", on) if ":S.clear" in heads[on:] else -1
            if 0 <= j < len(heads) - 1 and heads[j + 1] != ":M":
                labs.append("no-reselection-after-clear")
        if any(o[0] == ":M" and o[1] != "~" for o in ops):
            labs.append("crashOnFailure-with-scopes")
    if any(h.startswith(":S.") and ("ReturnValue" in h or "OrDefault" in h or h == ":S.returnValue") for h in heads):
        labs.append("reader-via-support-table")
    if any(h.startswith(":A.") and ("ReturnValue" in h or "OrDefault" in h or h == ":A.returnValue") for h in heads):
        labs.append("reader-via-actual-call-table")
    return labs


def halves(o):
    t = o.split()
    if not t or t[0] != ":c" or ":x" not in t:
        return None, None
    i = t.index(":x")
    return t[1:i], t[i + 1:]


def parse_half(h):
    """tokens of one half -> (tests [(failures, crashes, op, text)], values [(op, field, kind, payload)], rest)"""
    try:
        t = int(h[0], 16)
        tests = [tuple(h[1 + 4 * i: 5 + 4 * i]) for i in range(t)]
        k = 1 + 4 * t
        n = int(h[k], 16)
        vals = [tuple(h[k + 1 + 4 * i: k + 5 + 4 * i]) for i in range(n)]
        return tests, vals, h[k + 1 + 4 * n:]
    except Exception:
        return [], [], h


def signature(s, o):
    """which part of the observation differs, and at which entry point"""
    c, x = halves(o)
    if c is None:
        return "crash " + " ".join(o.split()[:4])
    ct, cv, cr = parse_half(c)
    xt, xv, xr = parse_half(x)
    if len(ct) != len(xt):
        return "test-count"
    for i, (a, b) in enumerate(zip(ct, xt)):
        later = "" if i == 0 else " in-a-later-test"
        if a[0] != b[0]:
            return "verdict" + later
        if a[1] != b[1]:
            return "crash-hook" + later
        if a[2] != b[2]:
            return "failing-op" + later
        if a[3] != b[3]:
            return "failure-text" + later
    for a, b in zip(cv, xv):
        if a != b:
            return "value " + a[1]
    if len(cv) != len(xv):
        return "value-count"
    return "output-bytes"


def _vals(h):
    """[(op, field, kind, payload)] of one half"""
    return parse_half(h)[1]


def _wellformed(ops):
    """the candidate is still a scenario a C user can write: a support is selected first, :E ops follow an expectation, :A ops an
    actual call (no clear in between), install ops carry their function indices"""
    if not ops or ops[0][0] != ":M":
        return False
    e = a = False
    for o in ops:
        h = o[0]
        if h == ":T" and len(o) != 1:
            return False
        if h in (":S.expectOneCall", ":S.expectNCalls"):
            e = True
        elif h == ":S.actualCall":
            a = True
        elif h == ":S.clear":
            e = a = False
        elif h.startswith(":E.") and not e:
            return False
        elif h.startswith(":A.") and not a:
            return False
        elif h == ":S.installComparator" and (len(o) != 4 or o[2] not in ("0", "1") or o[3] not in ("0", "1", "2")):
            return False
        elif h == ":S.installCopier" and (len(o) != 3 or o[2] not in ("0", "1")):
            return False
    return True


def shrink(s):
    for c in _shrink(s):
        if _wellformed(split_ops(c)):
            yield c


def _shrink(s):
    ops = split_ops(s)
    # drop a custom type altogether: its install ops and every parameter of that type
    for ty in sorted(set(o[1] for o in ops if o[0].startswith(":S.install") and len(o) > 1)):
        keep = [o for o in ops if not (len(o) > 1 and o[1] == ty and ("OfType" in o[0] or o[0].startswith(":S.install")))]
        if len(keep) < len(ops):
            yield " ".join(" ".join(o) for o in keep)
    # drop a whole test
    cuts = [i for i, o in enumerate(ops) if o[0] == ":T"]
    bounds = [-1] + cuts + [len(ops)]
    if cuts:
        for a, b in zip(bounds, bounds[1:]):
            keep = ops[:a + 1] + ops[b + 1:] if a >= 0 else ops[b + 1:]
            if a >= 0 and b == len(ops):
                keep = ops[:a]
            if keep:
                yield " ".join(" ".join(o) for o in keep)
    # drop one op (never the leading support selection), then a selection + op pair
    for i in range(1, len(ops)):
        yield " ".join(" ".join(o) for o in ops[:i] + ops[i + 1:])
    for i in range(1, len(ops) - 1):
        yield " ".join(" ".join(o) for o in ops[:i] + ops[i + 2:])
    # simplify numbers towards small values
    for i, o in enumerate(ops):
        for j in range(1, len(o)):
            if not o[j].startswith("$") and o[j] not in ("~", "0", "1"):
                for repl in ("0", "1"):
                    yield " ".join(" ".join(x) for x in ops[:i] + [o[:j] + [repl] + o[j + 1:]] + ops[i + 1:])
        if o[0] == ":M" and o[1] != "~":
            yield " ".join(" ".join(x) for x in ops[:i] + [[":M", "~"]] + ops[i + 1:])


def project(o, flavour):
    """model vs implementation: the semantics of the C++ machinery is a parameter of the model (theorem C19_equiv_obs holds for every
    machine), so what the extracted model predicts of an observation is that its two halves are identical -- which is exactly what
    the property constrains; an observation whose halves differ is kept verbatim (and never equals the model's)."""
    c, x = halves(o)
    if c is None:
        return o
    return "agree" if c == x else o


_FIELDS_USED = {}


def _count_fields(scns):
    for s in scns:
        for w in s.split():
            if w.startswith(":") and "." in w:
                _FIELDS_USED[w[1:]] = _FIELDS_USED.get(w[1:], 0) + 1


def header_fields():
    """field names of the three structs, from the header the harness was compiled against"""
    src = open(os.path.join(REPO, "include/CppUTestExt/MockSupport_c.h")).read()
    res = {}
    for tag, key in (("SMockActualCall_c", "A"), ("SMockExpectedCall_c", "E"), ("SMockSupport_c", "S")):
        m = re.search(r"struct\s+%s\s*\{(.*?)\n\};" % tag, src, re.S)
        body = m.group(1) if m else ""
        res[key] = []
        for stmt in body.split(";"):
            f = re.search(r"\(\s*\*\s*(\w+)\s*\)\s*\(", stmt)     # first "(*name)(" of the declaration: the field itself
            if f:
                res[key].append(f.group(1))
    return res


def evidence_extra(cov):
    hf = header_fields()
    total = sum(len(v) for v in hf.values())
    missing = [k + "." + f for k, v in hf.items() for f in v if (k + "." + f) not in _FIELDS_USED]
    cov["table_entries_in_header"] = total
    cov["table_entries_called"] = total - len(missing)
    cov["table_entries_never_called"] = missing
    cov["calls_per_table_entry_min"] = min([_FIELDS_USED.get(k + "." + f, 0) for k, v in hf.items() for f in v] or [0])


LEVEL_TEXT = ("Machine-checked (Coq) theorems over a wiring model REGENERATED FROM THE SOURCE on every run (field order and signatures of "
              "the three C structs, the three positional initialisers, the body of every forwarder: C++ method, receiver, casts, default "
              "handling; the type-name dispatch of getMockValueCFromNamedValue; the comparator/copier adaptors; the C++ definitions of the "
              "...OrDefault methods in MockSupport.cpp / MockActualCall.cpp): every table position forwards to the C++ operation its "
              "field name and signature denote, value conversion to the C tagged union is exact, and for every valid C scenario the "
              "sequence of C++ operations reached through the tables equals its direct C++ translation (for any semantics of the C++ "
              "machinery), including which equality / to-string / copy functions the comparator or copier object installed for a type name "
              "runs: installComparator_c / installCopier_c create a fresh adaptor node per call, so the object handed to C++ carries exactly "
              "the functions of that call whatever nodes exist already (C19_adaptor_fresh, C19_copier_fresh; the equivalence holds for any "
              "two such installers; an installer that reuses a node with the same equality function is refuted). HOW the test is left is a "
              "reporter layer over any machine (which also says who raises a failure): crash flags of the two reporter objects, activeReporter_ "
              "per support, reporter_ per actual call; the two interfaces differ only in the reporter they select a support with "
              "(C19_layers_mirror) and any two layers that mirror one another give identical observations incl. the crash-hook count "
              "(C19_equiv_obs_mirror_layers, C19_crash_equiv); invariant C19_reporter_uniform, characterisation C19_crash_iff_flag; a clear() "
              "that resets activeReporter_, a mock_scope_c without reporter, a createActualCall with the standard reporter are refuted; the "
              "reporter classes / MockSupport's uses of activeReporter_ are regenerated from the source (C19_reporter_source). Tied to the real code by an implementation-vs-implementation differential run: each generated scenario is "
              "executed through mock_c() from a C translation unit and through mock() from C++ inside a real test; verdict, failure "
              "text, how the test is left (number of runs of the crash hook installed with UtestShell::setCrashMethod, for crashOnFailure(n) set "
              "through any support and failures raised by an actual call, by MockSupport itself at checkExpectations time or by a plain CHECK, "
              "before and after clear(), in one test and over several tests in a row that share the mock state), returned values (tag + payload), defaulting, output bytes and data-store reads must be identical; custom types take "
              "their comparator / copier functions from a pool (2 equality x 3 to-string x 2 copiers) with sharing between type names, as C "
              "function pointers on one side and as C++ comparator / copier objects on the other.")
LEVEL_NOTE = ("Trusted: Coq kernel, the translator-lite plugin tools/gen/C19.py (anchored regular expressions over the forwarders), extraction, "
              "the two harness interpreters (C and C++), generators. Modelled not verified: the C++ machinery behind both interfaces is a "
              "parameter of the equivalence theorem (its own behaviour is the subject of C08/C09); the model-vs-implementation comparison "
              "is the agreement of the two halves. Not covered: tracing, onObject (absent from the C interface), NULL names, "
              "removeAllComparatorsAndCopiers while custom-type values are alive, a crash hook that does not return (the default abort), "
              "setMockFailureStandardReporter / MockSupportPlugin (not expressible through the C interface), CPPUTEST_USE_LONG_LONG=0.")
TECHNIQUE = "Coq proof over wiring tables regenerated from source + C-vs-C++ differential execution of generated scenarios (same scenario through both interfaces)"
READY = True
