"""C17 -- pointers set for a test are restored after it; plugin actions nest properly.
Scenario: a session  op*  with
  op    ::= :inst <name> <kind 0 plain|1 SetPointerPlugin> | :act <name> <post 0|1> <n> act*n | :en <id> | :dis <id> | :rm <name> | :reset
          | :reinst <id>                     (installPlugin on the EXISTING plugin object <id>, removed or dropped earlier; then the chain)
          | :test xtest                      (one test run through the registry)
          | :run <k> xtest*k                 (one TestRegistry::runAllTests over k tests, then the chain)
          | :runner <rep> <k> xtest*k        (CommandLineTestRunner::runAllTestsMain on that registry, -r<rep>, -e iff a test throws, then
                                              UtestShell::setRethrowExceptions(false); then the chain)
          | :runnerx <e> <f> <p> <v> <c> <rep> <k> xtest*k   (runAllTestsMain with the command line -e -f -p -v|-vv -c -r<rep> as flagged; the
                                              process-wide switches it leaves behind are NOT reset; then the chain)
          | :rethrow <0|1>                   (UtestShell::setRethrowExceptions)
          | :crashonfail <0|1>               (UtestShell::setCrashOnFail / restoreDefaultTestTerminator; the crash method returns)
  xtest ::= <n> xstmt*n <n> xstmt*n <n> xstmt*n                         (setup, body, teardown)
  xstmt ::= :set <loc> <val> | :wr <loc> <val> | :fail | :failc | :thr | :thrstd | act
  act   ::= :ai <name> <kind> | :ar <name> | :ae <id> | :ad <id> | :az | :ab <id>
            (install a new object / remove by name / enable / disable / resetPlugins / install the existing object <id> again)
(plugin ids = creation ordinals, the runner's own pointer plugin takes one; name a0 = DEF_PLUGIN_SET_POINTER; :act installs a
recording plugin that performs its actions inside its pre (0) or post (1) action).
Observation: per test ":t failed npre ids npost ids pool[0..39]" (ids without the plugins an action of that test named),
per :rm/:reset/:reinst and after :run/:runner/:runnerx ":c n ids"; ":x" = an exception left the run (the rest of the scenario is not run)."""
import os
import re
from vlib import tz
import vlib
ID = "C17"
FLAVOURS = ["asan"]
HARNESS_SRCS = ["harness/C17.cpp"]
POOL = 40
RUNNER_NAME = 0xa0


def _max_set():
    """only steers the generator (boundary, which statements of a test are reached); the model reads the value from the source"""
    try:
        m = re.search(r"MAX_SET\s*=\s*(\d+)", open(os.path.join(vlib.REPO, "include/CppUTest/TestPlugin.h")).read())
        return int(m.group(1))
    except Exception:
        return 32


MAX_SET = _max_set()
RULE = ("(a) pointer sessions: a SetPointerPlugin (+0-3 recording plugins, any enabled pattern) and 1-6 consecutive tests with 0-36 "
        "UT_PTR_SET per test (weights on 31/32/33 and beyond), ~30% repeated targets, direct writes in between, spread over setup/body/"
        "teardown, each phase ending normally / FAIL / longjmp-style fail / throw int / throw std::exception at any position; "
        "(b) chains: exhaustively every chain of 0-6 uniquely named plugins x removal of every position (and of an absent name), "
        "each followed by a test that logs the order; random chains of 0-7 plugins with every enabled pattern, duplicate names, "
        "install/enable/disable/remove/reset sequences; (c) runs: chains of 1-5 plugins (recording, pointer, acting), one or two "
        "runAllTests over 2-6 tests in which setup/body/teardown statements and the pre/post actions of acting plugins remove the head / "
        "a middle / the last plugin / an absent name, install a new head (fresh, duplicate or the runner's name), enable, disable, reset, "
        "remove or disable the acting plugin itself -- exhaustively: every chain of 1-4 plugins x removal of every position and "
        "installation of a new head x from setup, body, teardown, a pre action, a post action, each followed by a further test; "
        "(d) the command line runner: registries of 0-4 plugins named a0 (the runner's own plugin name) or otherwise, pointer plugin "
        "or not, enabled or not -- exhaustively for 0-2 plugins -- then runAllTestsMain (-r1..3) over 1-4 tests with redirections "
        "(incl. the limit), failures, throws and actions; "
        "(e) re-installing plugin OBJECTS: exhaustively every chain of 1-5 plugins x removal by name of every position x the removed "
        "object installed again (once, twice; two objects removed and brought back in either order; all brought back after "
        "resetPlugins in any rotation), a test after every step; inside runs: the removal in one test and the re-install in a later "
        "one from setup / body / teardown / a plugin's pre / post action, and an acting plugin that removes and re-installs another "
        "plugin in every test; random histories over 2-7 objects (install new, remove by name at head / middle / tail / absent / "
        "duplicate names, reset, re-install an object that is outside the chain, enable / disable objects inside and outside the "
        "chain, tests and runs in between, pointer plugins with redirections); "
        "(f) several runs in ONE process, the process-wide switches not reset in between: exhaustively an earlier runner invocation "
        "without -e / with -e / both / with -f / -vv -c / twice (nothing throws) x a runner invocation WITH -e in which a test redirects "
        "pointers and throws (int / std::exception x setup / body / teardown) x 4 registries, -r2, a third run, the direct API "
        "(setRethrowExceptions(true) then a run with -e; on, off, then a registry run with a throwing test; a run without -e, "
        "setRethrowExceptions(false), registry runs), -f left behind with failing tests later, -p (forked tests, every outcome); random "
        "processes of 2-5 runs (command lines from -e -f -p -v -vv -c -r1..3, registry runs, single tests, setRethrowExceptions / "
        "setCrashOnFail calls) where a throwing test is placed with probability 0.8 in a run whose own -e turns off what an earlier "
        "run left on.  non-trivial = at least one test with a "
        "redirection, a removal on a chain of >= 2 plugins, a re-install, or an action inside a run")
ASSUMPTIONS = ["a test that uses UT_PTR_SET runs with an enabled SetPointerPlugin installed (the user's own, or the one CommandLineTestRunner "
               "installs) that no action of that very test names, and no SetPointerPlugin is constructed while that test runs",
               "plugin names differ from \"null\", the name of the chain's sentinel",
               "the scripted plugin actions install / remove / enable / disable plugins but neither fail nor throw; an acting plugin is named "
               "only by itself, in the last of its actions",
               "a test that throws runs where exceptions are not rethrown: under a runner invocation whose OWN command line has -e, or in a "
               "registry run when every switch event since the last setRethrowExceptions(false) (or the start of the process) was a runner "
               "invocation with -e (with rethrowing on, the exception is meant to leave the run: no post actions, nothing restored; Coq: "
               "C17_rethrown_test_refuted)",
               "in a session that uses -p (tests in forked children) no test or plugin action touches the registry and there are no acting "
               "plugins (what a forked test does to its copy of the registry is lost; Coq: C17_forked_registry_actions_refuted); the harness keeps "
               "the pointer pool and the plugins' event log in memory shared with the children",
               "-f is run with a crash method that returns (UtestShell::setCrashMethod); shuffle, reverse, filters, -ri are not used",
               "whether a plugin that an action of a test installs, removes, enables or disables sees that very test's pre / post action is "
               "not fixed by the property: its log entries for that test are not observed (from the next test on they are)",
               "after the runner, a user plugin that shares the runner's plugin name may or may not be left installed (not observed)",
               "installPlugin is handed only plugin objects that are NOT in the chain at that moment (new ones, or ones removed by name / "
               "dropped by resetPlugins earlier): handing it an object that is in the chain makes the chain circular (pre / post actions and "
               "removal never end; Coq: C17_install_in_chain_refuted, C17_circular_chain_never_ends) and is outside the property; the "
               "runner's own plugin object is gone when the runner returns and is never installed again"]
CRASH_IS_VIOLATION = True
ABORTS = [":fail", ":failc", ":thr", ":thrstd"]
ACTS = {":ai": 2, ":ar": 1, ":ae": 1, ":ad": 1, ":az": 0, ":ab": 1}
OPS = (":inst", ":act", ":en", ":dis", ":rm", ":reset", ":reinst", ":test", ":run", ":runner", ":runnerx", ":rethrow", ":crashonfail")
THROWS = (":thr", ":thrstd")


# ----------------------------------------------------------------------------- scenario syntax
def parse_act(t, i):
    k = t[i]
    n = ACTS[k]
    return tuple(t[i:i + 1 + n]), i + 1 + n


def parse_xtest(t, i):
    ph = []
    for _ in range(3):
        n = int(t[i], 16)
        i += 1
        st = []
        for _ in range(n):
            if t[i] in (":set", ":wr"):
                st.append(tuple(t[i:i + 3]))
                i += 3
            elif t[i] in ABORTS:
                st.append((t[i],))
                i += 1
            else:
                a, i = parse_act(t, i)
                st.append(a)
        ph.append(st)
    return ph, i


def parse(s):
    """scenario line -> list of ops (tuples); raises on malformed input"""
    t = s.split()
    i = 0
    ops = []
    while i < len(t):
        k = t[i]
        if k == ":inst":
            ops.append(("inst", t[i + 1], t[i + 2]))
            i += 3
        elif k == ":act":
            n = int(t[i + 3], 16)
            j = i + 4
            acts = []
            for _ in range(n):
                a, j = parse_act(t, j)
                acts.append(a)
            ops.append(("act", t[i + 1], t[i + 2], acts))
            i = j
        elif k in (":en", ":dis", ":rm", ":reinst", ":rethrow", ":crashonfail"):
            ops.append((k[1:], t[i + 1]))
            i += 2
        elif k == ":runnerx":
            flags = tuple(t[i + 1:i + 6])
            rep = t[i + 6]
            n = int(t[i + 7], 16)
            j = i + 8
            xs = []
            for _ in range(n):
                x, j = parse_xtest(t, j)
                xs.append(x)
            ops.append(("runnerx", flags, rep, xs))
            i = j
        elif k == ":reset":
            ops.append(("reset",))
            i += 1
        elif k == ":test":
            x, i = parse_xtest(t, i + 1)
            ops.append(("test", x))
        elif k in (":run", ":runner"):
            j = i + 1
            rep = None
            if k == ":runner":
                rep = t[j]
                j += 1
            n = int(t[j], 16)
            j += 1
            xs = []
            for _ in range(n):
                x, j = parse_xtest(t, j)
                xs.append(x)
            ops.append(("run", xs) if k == ":run" else ("runner", rep, xs))
            i = j
        else:
            raise ValueError("op " + k)
    return ops


def fmt_xtest(ph):
    return " ".join(("%x " % len(p) + " ".join(" ".join(s) for s in p)).strip() for p in ph)


def fmt_op(o):
    k = o[0]
    if k == "inst":
        return ":inst %s %s" % (o[1], o[2])
    if k == "act":
        return (":act %s %s %x " % (o[1], o[2], len(o[3])) + " ".join(" ".join(a) for a in o[3])).strip()
    if k in ("en", "dis", "rm", "reinst", "rethrow", "crashonfail"):
        return ":%s %s" % (k, o[1])
    if k == "runnerx":
        return (":runnerx %s %s %x " % (" ".join(o[1]), o[2], len(o[3])) + " ".join(fmt_xtest(x) for x in o[3])).strip()
    if k == "reset":
        return ":reset"
    if k == "test":
        return ":test " + fmt_xtest(o[1])
    if k == "run":
        return (":run %x " % len(o[1]) + " ".join(fmt_xtest(x) for x in o[1])).strip()
    return (":runner %s %x " % (o[1], len(o[2])) + " ".join(fmt_xtest(x) for x in o[2])).strip()


def fmt(ops):
    return " ".join(fmt_op(o) for o in ops)


# ----------------------------------------------------------------------------- textbook registry (generator-side mirror of `valid`)
class Plug:
    __slots__ = ("id", "name", "kind", "on", "role")

    def __init__(self, i, name, kind, role=None):
        self.id, self.name, self.kind, self.on, self.role = i, name, kind, True, role   # role: None | ("act", post, acts) | "runner"

    def acts(self):
        return self.role[2] if isinstance(self.role, tuple) else []


def keeps(a, x):
    if a[0] == ":ai":
        return True
    if a[0] == ":ar":
        return int(a[1], 16) != x.name
    if a[0] in (":ae", ":ad", ":ab"):
        return int(a[1], 16) != x.id
    return False


class Reg:
    """used only to keep generated scenarios valid and to word signatures; never to judge"""

    def __init__(self):
        self.c = []      # newest first
        self.nx = 0
        self.names = []  # (id, name) of every plugin created
        self.out = []    # the plugin objects that exist but are not in the chain (removed by name, dropped by reset)
        self.bad = False # an object was re-installed that is in the chain / does not exist / is the runner's: not a valid scenario

    def clone(self):
        r = Reg()
        def cp(p):
            q = Plug(p.id, p.name, p.kind, p.role)
            q.on = p.on
            return q
        r.c = [cp(p) for p in self.c]
        r.out = [cp(p) for p in self.out]
        r.nx, r.names, r.bad = self.nx, list(self.names), self.bad
        return r

    def assign(self, r):
        self.c, self.out, self.nx, self.names, self.bad = r.c, r.out, r.nx, r.names, r.bad

    def returnable(self):
        return [p for p in self.out if p.role != "runner"]

    def install(self, name, kind, role=None):
        p = Plug(self.nx, name, kind, role)
        self.c.insert(0, p)
        self.names.append((self.nx, name))
        self.nx += 1
        return p

    def act(self, a):
        """apply one action; returns the ids it names"""
        k = a[0]
        if k == ":ai":
            self.install(int(a[1], 16), int(a[2], 16))
            return [self.nx - 1]
        if k == ":ar":
            n = int(a[1], 16)
            self.out = [p for p in self.c if p.name == n] + self.out
            self.c = [p for p in self.c if p.name != n]
            return [i for i, m in self.names if m == n]
        if k in (":ae", ":ad"):
            i = int(a[1], 16)
            for p in self.c + self.out:
                if p.id == i:
                    p.on = (k == ":ae")
            return [i]
        if k == ":ab":
            i = int(a[1], 16)
            ps = [p for p in self.out if p.id == i and p.role != "runner"]
            if ps:
                self.out = [p for p in self.out if p.id != i]
                self.c.insert(0, ps[0])
            else:
                self.bad = True
            return [i]
        self.out = self.c + self.out
        self.c = []
        return [i for i, _ in self.names]

    def sp(self):
        return any(p.kind == 1 and p.on for p in self.c)

    # --- one test
    @staticmethod
    def stmt_acts(x):
        return [s for ph in x for s in ph if s[0] in ACTS]

    @staticmethod
    def has_set(x):
        return any(s[0] == ":set" for ph in x for s in ph)

    @staticmethod
    def executed(x):
        """the actions the statements perform (those in front of the statement that leaves the phase)"""
        out = []
        n = 0
        ok_setup = True
        for pi, ph in enumerate(x):
            if pi == 1 and not ok_setup:
                continue
            for s in ph:
                if s[0] == ":set":
                    if n >= MAX_SET:
                        if pi == 0:
                            ok_setup = False
                        break
                    n += 1
                elif s[0] in ABORTS:
                    if pi == 0:
                        ok_setup = False
                    break
                elif s[0] in ACTS:
                    out.append(s)
        return out

    def test_ok(self, x):
        for ph in x:
            for s in ph:
                if s[0] in (":set", ":wr") and not (int(s[1], 16) < POOL and int(s[2], 16) < (1 << 64)):
                    return False
        sa = self.stmt_acts(x)
        for p in self.c:
            if isinstance(p.role, tuple):
                if not all(keeps(a, p) for a in sa):
                    return False
                for y in self.c:
                    if y.id != p.id and not all(keeps(a, p) for a in y.acts()):
                        return False
                if not all(keeps(a, p) for a in p.acts()[:-1]):
                    return False
        if self.has_set(x):
            alla = sa + [a for y in self.c for a in y.acts()]
            if any(a[0] == ":ai" and int(a[2], 16) == 1 for a in alla):
                return False
            if not any(p.on and p.kind == 1 and all(keeps(a, p) for a in alla) for p in self.c):
                return False
        return True

    def run_test(self, x):
        """apply the test's actions (the test is assumed valid); returns (ids named, enabled logging ids at the start)"""
        start = [p.id for p in self.c if p.on and p.role != "runner"]
        pre = [a for p in self.c if p.on and isinstance(p.role, tuple) and not int(p.role[1]) for a in p.role[2]]
        post = [a for p in reversed(self.c) if p.on and isinstance(p.role, tuple) and int(p.role[1]) for a in p.role[2]]
        named = []
        for a in pre + self.executed(x) + post:
            named += self.act(a)
        return named, start


def has_throw(xs):
    return any(s[0] in THROWS for x in xs for ph in x for s in ph)


def has_acts(xs):
    return any(s[0] in ACTS for x in xs for ph in x for s in ph)


def simulate(ops):
    """-> (valid, trace) ; trace = per op what the textbook expects (used by signature)"""
    r = Reg()
    trace = []
    coff = True          # exceptions are certainly not rethrown in a registry run now (mirror of throws_ok in C17_ModelP.v)
    if any(o[0] == "runnerx" and int(o[1][2], 16) for o in ops):      # -p somewhere: nothing touches the registry from inside a test
        for o in ops:
            if o[0] == "act":
                return False, trace
            if o[0] in ("test", "run", "runner", "runnerx") and has_acts([o[1]] if o[0] == "test" else o[-1]):
                return False, trace
    for idx, o in enumerate(ops):
        k = o[0]
        if k == "rethrow":
            coff = not int(o[1], 16)
            continue
        if k == "crashonfail":
            continue
        if k == "runnerx":
            if has_throw(o[3]) and not int(o[1][0], 16):
                return False, trace
            ctx = "-e" if int(o[1][0], 16) else "no -e"
            coff = coff and bool(int(o[1][0], 16))
            o = ("runner", o[2], o[3])
            k = "runner"
        elif k == "runner":
            coff = True
        elif k in ("test", "run") and has_throw([o[1]] if k == "test" else o[1]) and not coff:
            return False, trace
        if k == "inst":
            r.install(int(o[1], 16), int(o[2], 16))
        elif k == "act":
            r.install(int(o[1], 16), 0, ("act", int(o[2], 16), o[3]))
        elif k in ("en", "dis"):
            r.act((":ae" if k == "en" else ":ad", o[1]))
        elif k == "rm":
            n = len(r.c)
            pos = [i for i, p in enumerate(r.c) if p.name == int(o[1], 16)]
            r.act((":ar", o[1]))
            trace.append(("c", [p.id for p in r.c], "chain after :rm wrong (chain of %d, named plugin at %s)" % (n, pos)))
        elif k == "reset":
            r.act((":az",))
            trace.append(("c", [], "chain after :reset wrong"))
        elif k == "reinst":
            r.act((":ab", o[1]))
            if r.bad:
                return False, trace
            trace.append(("c", [p.id for p in r.c], "chain after :reinst wrong (an object that was removed / dropped, installed again)"))
        else:
            xs = [o[1]] if k == "test" else (o[1] if k == "run" else o[2] * int(o[1], 16))
            if k == "runner":
                if int(o[1], 16) < 1:
                    return False, trace
                r.install(RUNNER_NAME, 1, "runner")
            for j, x in enumerate(xs):
                if not r.test_ok(x):
                    return False, trace
                first = j == 0
                named, start = r.run_test(x)
                if r.bad:
                    return False, trace
                vis = [i for i in start if i not in named]
                nset = sum(1 for ph in x for s in ph if s[0] == ":set")
                trace.append(("t", vis, k, j, bool(named), nset))
            if k == "runner":
                amb = any(p.name == RUNNER_NAME and p.role != "runner" for p in r.c)
                nxt = [q for q in ops[idx + 1:] if q[0] not in ("rethrow", "crashonfail")]     # the switch calls are no registry operations
                if amb and nxt and nxt[0][0] != "reset":
                    return False, trace
                r.act((":ar", "%x" % RUNNER_NAME))
            if k != "test":
                trace.append(("c", [p.id for p in r.c], "chain after the %s wrong" % ("run" if k == "run" else "runner")))
    return True, trace


def py_valid(s):
    try:
        return simulate(parse(s))[0]
    except Exception:
        return False


# ----------------------------------------------------------------------------- generation: pointer statements
def phase_stmts(rng, nset, nwr, targets, abort_p):
    ops = [":set"] * nset + [":wr"] * nwr
    rng.shuffle(ops)
    out = []
    for k in ops:
        out.append((k, "%x" % rng.choice(targets), "%x" % rng.choice([0, 1, rng.randrange(1 << 12), rng.randrange(1 << 48), (1 << 64) - 1])))
    if rng.random() < abort_p:
        out.insert(rng.randrange(len(out) + 1), (rng.choice(ABORTS),))
    return out


def gen_ptest(rng, with_sets, small=False):
    """a test of pointer statements only -> [setup, body, teardown]"""
    if with_sets:
        c = rng.random()
        if small:
            total = rng.randrange(0, 5) if c < 0.9 else rng.choice([MAX_SET, MAX_SET + 1])
        elif c < 0.35:
            total = rng.choice([MAX_SET - 1, MAX_SET, MAX_SET + 1, MAX_SET + 2, MAX_SET + 4])
        elif c < 0.6:
            total = rng.randrange(0, 6)
        else:
            total = rng.randrange(0, MAX_SET + 5)
    else:
        total = 0
    # repeated targets: draw from a small subset with probability 0.3, else spread
    if rng.random() < 0.3:
        targets = [rng.randrange(POOL) for _ in range(rng.randrange(1, 4))]
    else:
        targets = list(range(POOL))
    a = rng.randrange(total + 1) if rng.random() < 0.5 else 0
    c_ = rng.randrange(total - a + 1) if rng.random() < 0.3 else 0
    b = total - a - c_
    ap = 0.25
    nw = (lambda k: rng.randrange(0, 2)) if small else (lambda k: rng.randrange(0, k))
    return [phase_stmts(rng, a, nw(4), targets, ap), phase_stmts(rng, b, nw(5), targets, ap), phase_stmts(rng, c_, nw(3), targets, ap)]


def pointer_session(rng):
    r = Reg()
    ops = []
    k = rng.randrange(0, 4)
    pos = rng.randrange(k + 1)
    for i in range(k + 1):
        kind = 1 if i == pos else (1 if rng.random() < 0.1 else 0)
        r.install(i + 1, kind)
        ops.append(("inst", "%x" % (i + 1), "%x" % kind))
    for p in list(r.c):
        if p.kind == 0 and rng.random() < 0.3:
            p.on = False
            ops.append(("dis", "%x" % p.id))
    for _ in range(rng.randrange(1, 7)):
        if rng.random() < 0.12:     # toggle the SetPointerPlugin between tests
            sp = [p for p in r.c if p.kind == 1]
            if sp:
                p = rng.choice(sp)
                p.on = not p.on
                ops.append(("en" if p.on else "dis", "%x" % p.id))
        ops.append(("test", gen_ptest(rng, r.sp())))
    return fmt(ops)


def exhaustive_removals():
    out = []
    for n in range(0, 7):
        for pos in range(n + 1):       # pos == n: a name that is not installed
            ops = [":inst %x 0" % (i + 1) for i in range(n)]
            name = (n - pos) if pos < n else 0x63   # chain is newest first: position pos from the head has name n - pos
            ops.append(":rm %x" % name)
            ops.append(":test 0 0 0")
            out.append(" ".join(ops))
    # every enabled pattern for chains up to 5
    for n in range(0, 6):
        for mask in range(1 << n):
            ops = [":inst %x 0" % (i + 1) for i in range(n)]
            ops += [":dis %x" % i for i in range(n) if not (mask >> i) & 1]
            ops.append(":test 0 0 0")
            out.append(" ".join(ops))
    return out


def chain_session(rng):
    r = Reg()
    ops = []
    names = list(range(1, 9))
    dup = rng.random() < 0.2
    for _ in range(rng.randrange(0, 8)):
        n = rng.choice(names[:3]) if dup else names.pop(rng.randrange(len(names)))
        kind = 1 if rng.random() < 0.2 else 0
        r.install(n, kind)
        ops.append(("inst", "%x" % n, "%x" % kind))
    for _ in range(rng.randrange(1, 9)):
        c = rng.random()
        if c < 0.35 and r.c:
            n = rng.choice(r.c).name
            r.act((":ar", "%x" % n))
            ops.append(("rm", "%x" % n))
        elif c < 0.42:
            n = rng.randrange(1, 12)
            r.act((":ar", "%x" % n))
            ops.append(("rm", "%x" % n))
        elif c < 0.6 and r.nx:
            i = rng.randrange(r.nx + 1)
            b = rng.random() < 0.5
            r.act((":ae" if b else ":ad", "%x" % i))
            ops.append(("en" if b else "dis", "%x" % i))
        elif c < 0.65:
            r.act((":az",))
            ops.append(("reset",))
        elif c < 0.8:
            n = rng.randrange(1, 12)
            kind = 1 if rng.random() < 0.3 else 0
            r.install(n, kind)
            ops.append(("inst", "%x" % n, "%x" % kind))
        else:
            ops.append(("test", gen_ptest(rng, r.sp() and rng.random() < 0.3)))
    ops.append(("test", gen_ptest(rng, r.sp() and rng.random() < 0.3)))
    return fmt(ops)


# ----------------------------------------------------------------------------- generation: actions inside runs
def pick_action(rng, r, avoid_ids=(), avoid_names=(), allow_sp=True):
    """an action aimed at the chain as it stands: the head, a middle one, the last, an absent name, a new head ..."""
    c = rng.random()
    cand = [p for p in r.c if p.id not in avoid_ids and p.name not in avoid_names]
    back = [p for p in r.returnable() if p.id not in avoid_ids and p.name not in avoid_names and (allow_sp or p.kind == 0)]
    if back and rng.random() < 0.3:
        return (":ab", "%x" % rng.choice(back).id)
    if c < 0.4 and cand:
        w = rng.random()
        p = cand[0] if w < 0.45 else (cand[-1] if w < 0.6 else rng.choice(cand))
        return (":ar", "%x" % p.name)
    if c < 0.45:
        return (":ar", "%x" % rng.choice([0x63, RUNNER_NAME, rng.randrange(1, 12)]))
    if c < 0.75:
        w = rng.random()
        n = rng.randrange(0x20, 0x30) if w < 0.6 else (rng.choice(r.c).name if r.c and w < 0.85 else RUNNER_NAME)
        return (":ai", "%x" % n, "1" if allow_sp and rng.random() < 0.2 else "0")
    if c < 0.95:
        ids = [p.id for p in cand] or [0]
        i = rng.choice(ids) if rng.random() < 0.8 else rng.randrange(r.nx + 2)
        return (":ae" if rng.random() < 0.4 else ":ad", "%x" % i)
    return (":az",)


def gen_xtest(rng, r, p_act=0.6, small=True, sets=None):
    """a test valid on registry r (r is advanced by the test's actions)"""
    for _ in range(8):
        want_sets = r.sp() and (rng.random() < 0.6 if sets is None else sets)
        x = gen_ptest(rng, want_sets, small=small)
        if rng.random() < p_act:
            actors = [p for p in r.c if isinstance(p.role, tuple)]
            avoid_ids = [p.id for p in actors]
            avoid_names = [p.name for p in actors]
            if want_sets:
                sps = [p for p in r.c if p.kind == 1 and p.on]
                if sps:
                    s = rng.choice(sps)
                    avoid_ids.append(s.id)
                    avoid_names.append(s.name)
            for _k in range(rng.choice([1, 1, 1, 2, 3])):
                ph = x[rng.choice([0, 1, 1, 1, 2])]
                ph.insert(rng.randrange(len(ph) + 1), pick_action(rng, r, avoid_ids, avoid_names, allow_sp=not want_sets))
        r2 = r.clone()
        if r2.test_ok(x):
            r2.run_test(x)
            if not r2.bad:
                r.assign(r2)
                return x
    x = [[], [], []]
    if not r.test_ok(x):       # cannot happen with generated actors; keeps the generator total
        raise ValueError("no valid test")
    r.run_test(x)
    if r.bad:                  # an acting plugin re-installs an object that is in the chain by now
        raise ValueError("no valid test")
    return x


def gen_actor(rng, r, name):
    """an acting plugin: names others (never another acting plugin), itself only last"""
    post = rng.random() < 0.5
    actors = [p for p in r.c if isinstance(p.role, tuple)]
    acts = []
    for _ in range(rng.choice([0, 1, 1, 2])):
        acts.append(pick_action(rng, r, [p.id for p in actors], [p.name for p in actors] + [name], allow_sp=False))
        if acts[-1] == (":az",) or (acts[-1][0] == ":ar" and int(acts[-1][1], 16) == name):
            acts.pop()
    w = rng.random()
    if w < 0.45:
        acts.append((":ar", "%x" % name))            # removes itself from inside its own action
    elif w < 0.6:
        acts.append((":ad", "%x" % r.nx))            # disables itself
    elif w < 0.65 and not actors:
        acts.append((":az",))
    return ("act", "%x" % name, "1" if post else "0", acts)


def setup_chain(rng, r, ops, n, p_actor=0.25, p_sp=0.3, names=None):
    pool = names or list(range(1, 12))
    for _ in range(n):
        name = rng.choice(pool)
        if rng.random() < p_actor and not any(p.name == name for p in r.c):
            o = gen_actor(rng, r, name)
            saved = (list(r.c), r.nx, list(r.names))
            r.install(name, 0, ("act", int(o[2], 16), o[3]))
            if r.test_ok([[], [], []]):      # the acting plugins do not name one another
                ops.append(o)
                continue
            r.c, r.nx, r.names = saved
        kind = 1 if rng.random() < p_sp else 0
        r.install(name, kind)
        ops.append(("inst", "%x" % name, "%x" % kind))
    for p in list(r.c):
        if rng.random() < 0.15:
            p.on = False
            ops.append(("dis", "%x" % p.id))


def run_session(rng):
    r = Reg()
    ops = []
    setup_chain(rng, r, ops, rng.randrange(1, 6))
    try:
        for _ in range(rng.choice([1, 1, 2])):
            xs = [gen_xtest(rng, r) for _ in range(rng.randrange(2, 7))]
            ops.append(("run", xs))
            if rng.random() < 0.4:
                setup_chain(rng, r, ops, rng.randrange(0, 3))
            if r.returnable() and rng.random() < 0.3:      # bring an object back between two runs
                p = rng.choice(r.returnable())
                r.act((":ab", "%x" % p.id))
                ops.append(("reinst", "%x" % p.id))
        if rng.random() < 0.3:
            ops.append(("test", gen_xtest(rng, r, p_act=0.2)))
    except ValueError:
        pass
    return fmt(ops)


# ----------------------------------------------------------------------------- generation: plugin objects installed again
QUIET = [[], [], []]


def exhaustive_reinstalls():
    """every chain of 1-5 uniquely named plugins (object i has name i+1; the chain is newest first) x removal by name of every
    position x the removed object installed again -- once, twice, two objects in either order, after resetPlugins --, a test
    after every step"""
    out = []
    T = ":test 0 0 0"
    for n in range(1, 6):
        base = [":inst %x 0" % (i + 1) for i in range(n)]
        for i in range(n):                       # object i, name i+1, position n-1-i from the head
            rm, re_ = ":rm %x" % (i + 1), ":reinst %x" % i
            out.append(" ".join(base + [rm, T, re_, T]))
            out.append(" ".join(base + [rm, re_, T, rm, T, re_, T]))                         # twice
            out.append(" ".join(base + [rm, ":dis %x" % i, re_, T, ":en %x" % i, T]))         # disabled while outside the chain
            out.append(" ".join(base + [rm, ":inst 20 0", re_, T, ":rm 20", T]))             # a new object in between
            for j in range(n):
                if j != i and n <= 4:
                    rm2, re2 = ":rm %x" % (j + 1), ":reinst %x" % j
                    out.append(" ".join(base + [rm, rm2, T, re_, T, re2, T]))
                    out.append(" ".join(base + [rm, rm2, re2, re_, T]))
        # resetPlugins, then the objects come back in a rotated order (each keeps the stale link it had in the old chain)
        for k in range(n):
            order = [(k + d) % n for d in range(n)]
            out.append(" ".join(base + [":reset"] + [":reinst %x" % i for i in order] + [T]))
        if n >= 2:
            out.append(" ".join(base + [":reset", ":reinst %x" % (n - 1), T, ":reinst 0", T]))
    # inside a run: removal in the second test, the same object back in the fourth, from where
    for n in range(2, 5):
        base = [("inst", "%x" % (i + 1), "0") for i in range(n)]
        for i in range(n):
            rm, ab = (":ar", "%x" % (i + 1)), (":ab", "%x" % i)
            for where in ("setup", "body", "teardown"):
                t_rm = [[rm] if where == "setup" else [], [rm] if where == "body" else [], [rm] if where == "teardown" else []]
                t_ab = [[ab] if where == "setup" else [], [ab] if where == "body" else [], [ab] if where == "teardown" else []]
                out.append(fmt(base + [("run", [QUIET, t_rm, QUIET, t_ab, QUIET, QUIET])]))
                out.append(fmt(base + [("run", [[[rm], [ab], []] if where == "setup" else ([[], [rm, ab], []] if where == "body" else [[], [rm], [ab]]), QUIET, QUIET])]))
            for ph in ("0", "1"):
                # an acting plugin (head / first installed) that takes the object out and puts it back in every test
                out.append(fmt(base + [("act", "30", ph, [rm, ab]), ("run", [QUIET, QUIET, QUIET])]))
                out.append(fmt([("act", "30", ph, [rm, (":ab", "%x" % (i + 1))])] + [("inst", "%x" % (k + 1), "0") for k in range(n)] + [("run", [QUIET, QUIET, QUIET])]))
                # removed between runs, brought back by a plugin's action in the first test of the next run
                out.append(fmt(base + [("rm", "%x" % (i + 1)), ("act", "30", ph, [ab, (":ar", "30")]), ("run", [QUIET, QUIET])]))
    return out


def reinstall_session(rng):
    """a random history over a handful of plugin objects: install new, remove by name (head / middle / tail / absent name /
    a name two objects share), reset, install an object again that is outside the chain, enable / disable objects inside and
    outside the chain, tests (with redirections while a pointer plugin is active) and runs in between"""
    r = Reg()
    ops = []
    names = [1, 2, 3, 4, 5, 6] if rng.random() < 0.75 else [1, 1, 2, 2, 3]     # shared names: one :rm takes several objects out
    for _ in range(rng.randrange(2, 6)):
        n = rng.choice(names)
        kind = 1 if rng.random() < 0.2 else 0
        r.install(n, kind)
        ops.append(("inst", "%x" % n, "%x" % kind))
    steps = rng.randrange(4, 16)
    try:
        for _ in range(steps):
            c = rng.random()
            back = r.returnable()
            if c < 0.3 and back:
                p = rng.choice(back)
                r.act((":ab", "%x" % p.id))
                ops.append(("reinst", "%x" % p.id))
            elif c < 0.55 and r.c:
                w = rng.random()
                p = r.c[0] if w < 0.3 else (r.c[-1] if w < 0.5 else rng.choice(r.c))
                r.act((":ar", "%x" % p.name))
                ops.append(("rm", "%x" % p.name))
            elif c < 0.6:
                r.act((":az",))
                ops.append(("reset",))
            elif c < 0.68 and r.nx < 8:
                n = rng.choice(names)
                kind = 1 if rng.random() < 0.2 else 0
                r.install(n, kind)
                ops.append(("inst", "%x" % n, "%x" % kind))
            elif c < 0.76 and r.nx:
                i = rng.randrange(r.nx)
                b = rng.random() < 0.5
                r.act((":ae" if b else ":ad", "%x" % i))
                ops.append(("en" if b else "dis", "%x" % i))
            elif c < 0.9:
                ops.append(("test", gen_xtest(rng, r, p_act=0.25, sets=rng.random() < 0.3)))
            else:
                ops.append(("run", [gen_xtest(rng, r, p_act=0.5) for _ in range(rng.randrange(2, 5))]))
        ops.append(("test", gen_xtest(rng, r, p_act=0.0, sets=False)))
    except ValueError:
        pass
    return fmt(ops)


def exhaustive_runs():
    """every chain of 1-4 plugins x (remove position / install a new head) x from where, each followed by further tests"""
    out = []
    quiet = [[], [], []]
    for n in range(1, 5):
        targets = [("rm", pos) for pos in range(n)] + [("ai", None)]
        for what, pos in targets:
            a = (":ar", "%x" % (n - pos)) if what == "rm" else (":ai", "20", "0")
            for where in ("setup", "body", "teardown", "pre", "post"):
                if where in ("pre", "post"):
                    ph = "1" if where == "post" else "0"
                    variants = []
                    if what == "rm":
                        # the plugin removes itself from inside its own action
                        variants.append([("act", "%x" % (i + 1), ph, [a]) if i + 1 == n - pos else ("inst", "%x" % (i + 1), "0") for i in range(n)])
                    # another plugin (the head, or the first installed) does it, and stays / then removes itself
                    base = [("inst", "%x" % (i + 1), "0") for i in range(n)]
                    variants.append(base + [("act", "30", ph, [a])])
                    variants.append(base + [("act", "30", ph, [a, (":ar", "30")])])
                    variants.append([("act", "30", ph, [a])] + base)
                    for v in variants:
                        out.append(fmt(v + [("run", [quiet, quiet, quiet])]))
                else:
                    ops = [("inst", "%x" % (i + 1), "0") for i in range(n)]
                    t1 = [[a] if where == "setup" else [], [a] if where == "body" else [], [a] if where == "teardown" else []]
                    out.append(fmt(ops + [("run", [quiet, t1, quiet, quiet])]))
    return out


# ----------------------------------------------------------------------------- generation: the command line runner
def runner_tests(rng, r, n):
    return [gen_xtest(rng, r, p_act=0.15, small=rng.random() < 0.75, sets=rng.random() < 0.85) for _ in range(n)]


def runner_session(rng):
    r = Reg()
    ops = []
    names = [RUNNER_NAME, RUNNER_NAME, 1, 2, 3, 0xa1]
    setup_chain(rng, r, ops, rng.randrange(0, 5), p_actor=0.1, p_sp=0.4, names=names)
    for p in list(r.c):
        if p.name == RUNNER_NAME and p.on and rng.random() < 0.4:
            p.on = False
            ops.append(("dis", "%x" % p.id))
    for round_ in range(rng.choice([1, 1, 2])):
        rep = rng.choice([1, 1, 1, 2, 3])
        r.install(RUNNER_NAME, 1, "runner")
        xs = runner_tests(rng, r, rng.randrange(1, 5))
        ok = True
        for _ in range(rep - 1):       # the repetitions see the chain the actions of the earlier ones left
            for x in xs:
                if not r.test_ok(x):
                    ok = False
                    break
                r.run_test(x)
            if not ok:
                break
        if not ok or r.bad:
            return None
        ops.append(("runner", "%x" % rep, xs))
        amb = any(p.name == RUNNER_NAME and p.role != "runner" for p in r.c)
        r.act((":ar", "%x" % RUNNER_NAME))
        if amb:
            if rng.random() < 0.5:
                break
            r.act((":az",))
            ops.append(("reset",))
        if rng.random() < 0.5:
            setup_chain(rng, r, ops, rng.randrange(0, 3), p_actor=0.0, p_sp=0.4, names=names)
        if rng.random() < 0.3:
            ops.append(("test", gen_xtest(rng, r, p_act=0.2)))
    return fmt(ops)


def exhaustive_runner():
    """registries of 0-2 plugins: name (the runner's / another) x pointer plugin or not x enabled or not, then the runner over
    a passing test that redirects twice, a failing one, and one that only looks"""
    out = []
    variants = [(nm, kind, on) for nm in (RUNNER_NAME, 5) for kind in (0, 1) for on in (1, 0)]
    tests = "0 3 :set 0 5 :set 1 6 :set 0 7 0 0 2 :set 1 8 :fail 0 0 0 0"
    chains = [[]] + [[v] for v in variants] + [[v, w] for v in variants for w in variants]
    for ch in chains:
        ops = []
        for i, (nm, kind, on) in enumerate(ch):
            ops.append(":inst %x %x" % (nm, kind))
        for i, (nm, kind, on) in enumerate(ch):
            if not on:
                ops.append(":dis %x" % i)
        ops.append(":runner 1 3 " + tests)
        out.append(" ".join(ops))
    return out

# ----------------------------------------------------------------------------- generation: several runs in one process
def cmdline(e=0, f=0, p=0, v=0, c=0):
    return ("%x" % e, "%x" % f, "%x" % p, "%x" % v, "%x" % c)


def thrower(kind, phase, nset=1, after=()):
    """a test that redirects nset pointers in its setup and then throws (kind) from the given phase"""
    x = [[(":set", "%x" % i, "%x" % (0x50 + i)) for i in range(nset)], [], []]
    x[phase] = x[phase] + [(kind,)] + list(after)
    return x


def no_throws(x):
    return [[((":fail",) if s[0] in THROWS else s) for s in ph] for ph in x]


def with_throw(rng, x):
    """put a throw behind a redirection (or anywhere if there is none)"""
    x = [list(ph) for ph in x]
    spots = [(pi, si + 1) for pi, ph in enumerate(x) for si, s in enumerate(ph) if s[0] == ":set"]
    if spots and rng.random() < 0.8:
        pi, si = rng.choice(spots)
        pj = rng.choice([q for q in range(pi, 3)])          # same phase or a later one
        x[pj].insert(si if pj == pi else rng.randrange(len(x[pj]) + 1), (rng.choice(THROWS),))
    else:
        pj = rng.randrange(3)
        x[pj].insert(rng.randrange(len(x[pj]) + 1), (rng.choice(THROWS),))
    return x


QUIETS = [[[], [], []], [[], [(":set", "0", "9"), (":set", "1", "a"), (":set", "0", "b")], []], [[], [(":set", "2", "7"), (":fail",)], [(":wr", "3", "1")]]]


def exhaustive_process():
    """the conditions of red-team change C17-2 (round 5) and their neighbours: an earlier run / API call that leaves the rethrow
    switch on (or off), then a run with its own -e (or the switch set off again) in which a test redirects pointers and throws"""
    out = []
    chains = [([], False), ([":inst 1 0"], False), ([":inst 1 0", ":inst 2 1"], True), ([":inst a1 1", ":inst 3 0", ":dis 0"], False)]
    for ch, user_sp in chains:
        for kind in THROWS:
            for phase in range(3):
                t = fmt_xtest(thrower(kind, phase, 2, [(":set", "5", "5")]))
                q = fmt_xtest(QUIETS[1])
                # earlier runner invocations: without -e (nothing throws) / with -e / with -e then without / -f / -vv
                for first in ([cmdline()], [cmdline(e=1)], [cmdline(e=1), cmdline()], [cmdline(f=1)], [cmdline(v=2, c=1)], [cmdline(), cmdline()]):
                    pre = [":runnerx %s 1 1 %s" % (" ".join(c), q) for c in first]
                    out.append(" ".join(ch + pre + [":runnerx %s 1 2 %s %s" % (" ".join(cmdline(e=1)), t, q)]))
                # -r2 in either run, and a third run after the throwing one
                out.append(" ".join(ch + [":runnerx %s 2 1 %s" % (" ".join(cmdline()), q), ":runnerx %s 2 1 %s" % (" ".join(cmdline(e=1)), t),
                                          ":runnerx %s 1 1 %s" % (" ".join(cmdline()), q)]))
                # the direct API: switched on, then a run with -e; switched on and off again, then a registry run
                out.append(" ".join(ch + [":rethrow 1", ":runnerx %s 1 1 %s" % (" ".join(cmdline(e=1)), t)]))
                out.append(" ".join(ch + [":runnerx %s 1 1 %s" % (" ".join(cmdline()), q), ":rethrow 1", ":rethrow 0", ":runnerx %s 1 1 %s" % (" ".join(cmdline(e=1)), t)]))
                if user_sp:
                    out.append(" ".join(ch + [":rethrow 1", ":test " + q, ":rethrow 0", ":run 2 %s %s" % (t, q)]))
                    out.append(" ".join(ch + [":runnerx %s 1 1 %s" % (" ".join(cmdline()), q), ":rethrow 0", ":test " + t, ":run 1 " + q]))
                    out.append(" ".join(ch + [":runnerx %s 1 1 %s" % (" ".join(cmdline(e=1)), q), ":test " + t]))
                    out.append(" ".join(ch + [":runner 1 1 " + q, ":test " + t, ":runnerx %s 1 1 %s" % (" ".join(cmdline(e=1)), t)]))
        # -f (crash on fail, with a crash method that returns) left behind, failing tests later; -p (forked tests) with every outcome
        f = fmt_xtest([[], [(":set", "2", "7"), (":fail",), (":wr", "4", "9"), (":set", "5", "1")], [(":wr", "3", "1"), (":failc",), (":wr", "6", "2")]])   # statements behind the failure
        out.append(" ".join(ch + [":runnerx %s 1 1 %s" % (" ".join(cmdline(f=1)), f), ":runnerx %s 1 2 %s %s" % (" ".join(cmdline(e=1)), f, fmt_xtest(QUIETS[1]))]))
        out.append(" ".join(ch + [":crashonfail 1", ":runnerx %s 1 1 %s" % (" ".join(cmdline()), f), ":crashonfail 0", ":runnerx %s 1 1 %s" % (" ".join(cmdline()), f)]))
        if not any(c.startswith(":act") for c in ch):
            for e in (0, 1):
                tests = [QUIETS[1], QUIETS[2]] + ([thrower(":thrstd", 1, 2), thrower(":thr", 2, 1)] if e else [])
                out.append(" ".join(ch + [":runnerx %s 1 1 %s" % (" ".join(cmdline()), fmt_xtest(QUIETS[0])),
                                          ":runnerx %s 1 %x %s" % (" ".join(cmdline(e=e, p=1)), len(tests), " ".join(fmt_xtest(x) for x in tests)),
                                          ":runnerx %s 1 1 %s" % (" ".join(cmdline(e=1)), fmt_xtest(thrower(":thr", 0, 1)))]))
    return out


def process_session(rng):
    """a process: a registry with 0-3 plugins, then 2-5 runs -- runner invocations with random command lines, registry runs, single
    tests -- with setRethrowExceptions / setCrashOnFail calls in between; tests redirect pointers and pass / fail / throw; a throwing
    test is generated (most of the time) right where an EARLIER run or call has left rethrowing on and the run's own -e turns it off"""
    r = Reg()
    ops = []
    sep_session = rng.random() < 0.12
    setup_chain(rng, r, ops, rng.randrange(0, 4), p_actor=0.0 if sep_session else 0.1, p_sp=0.4, names=[RUNNER_NAME, 1, 2, 3, 0xa1])
    coff = True
    left_on = False       # the switch as the code has it
    p_act = 0.0 if sep_session else 0.12
    try:
        for _ in range(rng.randrange(2, 6)):
            c = rng.random()
            if c < 0.62:
                want_throw = rng.random() < (0.8 if left_on else 0.45)
                e = 1 if want_throw else int(rng.random() < 0.3)
                rep = rng.choice([1, 1, 1, 2, 3])
                r.install(RUNNER_NAME, 1, "runner")
                xs = [no_throws(gen_xtest(rng, r, p_act=p_act, small=rng.random() < 0.85, sets=rng.random() < 0.85)) for _ in range(rng.randrange(1, 4))]
                if want_throw:
                    k = rng.randrange(len(xs))
                    xs[k] = with_throw(rng, xs[k])
                    if rng.random() < 0.3:
                        k = rng.randrange(len(xs))
                        xs[k] = with_throw(rng, xs[k])
                ok = True
                r2 = r.clone()
                for _k in range(rep - 1):
                    for x in xs:
                        if not r.test_ok(x):
                            ok = False
                            break
                        r.run_test(x)
                    if not ok:
                        break
                if not ok or r.bad:
                    return None
                # validity is judged on the tests as they are (a throw leaves its phase: actions behind it are not performed)
                ops.append(("runnerx", cmdline(e=e, f=int(rng.random() < 0.15), p=int(sep_session and rng.random() < 0.6), v=rng.choice([0, 0, 1, 2]), c=int(rng.random() < 0.1)), "%x" % rep, xs))
                amb = any(p.name == RUNNER_NAME and p.role != "runner" for p in r.c)
                r.act((":ar", "%x" % RUNNER_NAME))
                coff = coff and bool(e)
                left_on = not e
                if amb:
                    if rng.random() < 0.5:
                        break
                    r.act((":az",))
                    ops.append(("reset",))
            elif c < 0.74:
                b = int(rng.random() < 0.5)
                ops.append(("rethrow", "%x" % b))
                coff = not b
                left_on = bool(b)
            elif c < 0.8:
                ops.append(("crashonfail", "%x" % int(rng.random() < 0.6)))
            else:
                n = 1 if rng.random() < 0.5 else rng.randrange(2, 4)
                xs = [no_throws(gen_xtest(rng, r, p_act=p_act, sets=rng.random() < 0.7)) for _ in range(n)]
                if coff and rng.random() < 0.6:
                    k = rng.randrange(len(xs))
                    xs[k] = with_throw(rng, xs[k])
                ops.append(("test", xs[0]) if n == 1 else ("run", xs))
            if rng.random() < 0.15 and not sep_session:
                setup_chain(rng, r, ops, 1, p_actor=0.0, p_sp=0.4, names=[RUNNER_NAME, 1, 2, 3])
    except ValueError:
        pass
    line = fmt(ops)
    return line if py_valid(line) else None


def generate(tier, rng):
    out = exhaustive_removals() + exhaustive_runs() + exhaustive_runner() + exhaustive_reinstalls() + exhaustive_process()
    n = 1000 if tier == "quick" else 14000
    for _ in range(n):
        s = process_session(rng)
        if s:
            out.append(s)
    for _ in range(n):
        out.append(reinstall_session(rng))
    for _ in range(n):
        out.append(pointer_session(rng))
    for _ in range(n):
        out.append(chain_session(rng))
    for _ in range(n):
        out.append(run_session(rng))
    for _ in range(n):
        s = runner_session(rng)
        if s:
            out.append(s)
    return out


def nontrivial(s):
    t = s.split()
    if ":set" in t:
        return True
    if (":run" in t or ":runner" in t) and any(a in t for a in ACTS):
        return True
    if ":reinst" in t or ":ab" in t:
        return True
    if ":runnerx" in t and (":thr" in t or ":thrstd" in t):
        return True
    n = 0
    for i, x in enumerate(t):
        if x in (":inst", ":act"):
            n += 1
        if x == ":rm" and n >= 2:
            return True
    return False


def classify(s):
    t = s.split()
    lab = []
    nset = t.count(":set")
    lab.append("sets:" + ("0" if nset == 0 else "1-30" if nset <= 30 else "31-33" if nset <= 33 else ">33"))
    lab.append("plugins:%d" % (t.count(":inst") + t.count(":act")))
    if ":rm" in t:
        lab.append("removal")
    if ":reinst" in t:
        lab.append("reinstall:%s" % ("1" if t.count(":reinst") == 1 else "2+"))
        if ":reset" in t:
            lab.append("reinstall-after-reset")
    if any(a in t for a in ABORTS):
        lab.append("abort")
    if ":dis" in t:
        lab.append("disabled")
    if ":run" in t:
        lab.append("run")
    if ":runner" in t:
        lab.append("runner")
        try:
            ops = parse(s)
            i = [k for k, o in enumerate(ops) if o[0] == "runner"][0]
            pre = [o for o in ops[:i] if o[0] == "inst"]
            if any(int(o[1], 16) == RUNNER_NAME for o in pre):
                lab.append("runner:registry-holds-the-runner's-plugin-name")
        except Exception:
            pass
    if ":runnerx" in t or ":rethrow" in t or ":crashonfail" in t:
        try:
            ops = parse(s)
            runs = [o for o in ops if o[0] in ("runnerx", "runner", "run", "test")]
            lab.append("process:runs=%s" % ("1" if len(runs) <= 1 else "2" if len(runs) == 2 else "3+"))
            on = False           # the rethrow switch as earlier runs / calls have left it
            for o in ops:
                if o[0] == "rethrow":
                    on = bool(int(o[1], 16))
                elif o[0] == "runner":
                    on = False
                elif o[0] == "runnerx":
                    e = bool(int(o[1][0], 16))
                    if has_throw(o[3]):
                        lab.append("throw-under-own-e:switch-was-" + ("on" if on else "off"))
                    for i, nm in enumerate(("-e", "-f", "-p", "-v", "-c")):
                        if int(o[1][i], 16):
                            lab.append("cmdline:" + nm)
                    if int(o[2], 16) > 1:
                        lab.append("cmdline:-r")
                    on = not e
                elif o[0] in ("test", "run") and has_throw([o[1]] if o[0] == "test" else o[1]):
                    lab.append("throw-in-registry-run")
            if ":rethrow" in t:
                lab.append("api:setRethrowExceptions")
            if ":crashonfail" in t:
                lab.append("api:setCrashOnFail")
        except Exception:
            pass
    if ":act" in t:
        lab.append("acting-plugin")
    for a, l in ((":ar", "in-run-remove"), (":ai", "in-run-install"), (":ae", "in-run-enable"), (":ad", "in-run-disable"), (":az", "in-run-reset"), (":ab", "in-run-reinstall")):
        if a in t:
            lab.append(l)
    return lab


def items(o):
    res, cur = [], []
    for x in o.split():
        if x in (":t", ":c", ":x") and cur:
            res.append(cur)
            cur = []
        cur.append(x)
    if cur:
        res.append(cur)
    return res


def signature(s, o):
    """coarse: which part of the observation first departs from the textbook expectation"""
    if o.startswith("!"):
        return "crash " + o[:60]
    try:
        ops = parse(s)
        if ":x" in o.split():
            # which run did the exception leave, and what had been left in the rethrow switch before it
            runs = [q for q in ops if q[0] in ("runnerx", "runner", "run", "test", "rethrow")]
            ever_on = False      # rethrowing was switched on at some time before (by a run without -e or by the API)
            for q in runs:
                if q[0] == "rethrow":
                    ever_on = ever_on or bool(int(q[1], 16))
                elif q[0] == "runner":
                    ever_on = ever_on or not has_throw(q[2])
                elif q[0] == "runnerx":
                    if has_throw(q[3]) and int(q[1][0], 16):
                        return "exception left a runner invocation that has -e (%s)" % (
                            "rethrowing had been switched on earlier in the process" if ever_on else "rethrowing was never switched on before")
                    ever_on = ever_on or not int(q[1][0], 16)
                elif has_throw([q[1]] if q[0] == "test" else q[1]):
                    return "exception left a registry run although rethrowing was switched off"
            return "exception left a run in which nothing throws"
        ok, trace = simulate(ops)
        its = items(o)
        later = None
        for k, e in enumerate(trace):
            if k >= len(its):
                return "observation too short"
            it = its[k]
            if e[0] == "c":
                if it[0] != ":c" or [int(x, 16) for x in it[2:]] != e[1]:
                    return e[2]
            else:
                _, vis, kind, j, noisy, nset = e
                where = {"test": "", "run": " in a run", "runner": " under the runner"}[kind]
                if it[0] != ":t":
                    return "malformed observation"
                npre = int(it[2], 16)
                pre = [int(x, 16) for x in it[3:3 + npre]]
                npost = int(it[3 + npre], 16)
                post = [int(x, 16) for x in it[4 + npre:4 + npre + npost]]
                if pre != vis:
                    return "pre-action order wrong" + where
                if post != vis[::-1]:
                    return "post-action order wrong" + where
                if later is None:
                    later = "pointer values / verdict wrong (%s redirections)%s" % ("<= limit" if nset <= MAX_SET else "> limit", where if kind == "runner" else "")
        if len(its) != len(trace):
            return "observation too long"
        return later or "observation wrong"
    except Exception:
        return "malformed observation"


# ----------------------------------------------------------------------------- shrinking
def shrink(s):
    seen = set()
    for c in shrink_all(s):
        if c.strip() and c not in seen and py_valid(c):
            seen.add(c)
            yield c


def shrink_xtest(x):
    for p in range(3):
        for k in range(len(x[p])):
            x2 = [list(ph) for ph in x]
            del x2[p][k]
            yield x2


def shrink_all(s):
    try:
        ops = parse(s)
    except Exception:
        return
    for i in range(len(ops)):
        yield fmt(ops[:i] + ops[i + 1:])
    for i, o in enumerate(ops):
        if o[0] == "test":
            for x2 in shrink_xtest(o[1]):
                yield fmt(ops[:i] + [("test", x2)] + ops[i + 1:])
        elif o[0] in ("run", "runner"):
            xs = o[1] if o[0] == "run" else o[2]
            mk = (lambda l: ("run", l)) if o[0] == "run" else (lambda l, o=o: ("runner", o[1], l))
            for j in range(len(xs)):
                yield fmt(ops[:i] + [mk(xs[:j] + xs[j + 1:])] + ops[i + 1:])
            if o[0] == "runner" and int(o[1], 16) > 1:
                yield fmt(ops[:i] + [("runner", "1", xs)] + ops[i + 1:])
            for j in range(len(xs)):
                for x2 in shrink_xtest(xs[j]):
                    yield fmt(ops[:i] + [mk(xs[:j] + [x2] + xs[j + 1:])] + ops[i + 1:])
        elif o[0] == "runnerx":
            xs = o[3]
            mk = lambda l, o=o: ("runnerx", o[1], o[2], l)
            for j in range(len(xs)):
                yield fmt(ops[:i] + [mk(xs[:j] + xs[j + 1:])] + ops[i + 1:])
            if int(o[2], 16) > 1:
                yield fmt(ops[:i] + [("runnerx", o[1], "1", xs)] + ops[i + 1:])
            for b in (1, 2, 3, 4):          # drop -f / -p / -v / -c (never -e: it is what makes a throwing run valid)
                if int(o[1][b], 16):
                    fl = list(o[1])
                    fl[b] = "0"
                    yield fmt(ops[:i] + [("runnerx", tuple(fl), o[2], xs)] + ops[i + 1:])
            for j in range(len(xs)):
                for x2 in shrink_xtest(xs[j]):
                    yield fmt(ops[:i] + [mk(xs[:j] + [x2] + xs[j + 1:])] + ops[i + 1:])
        elif o[0] == "act":
            for j in range(len(o[3])):
                yield fmt(ops[:i] + [("act", o[1], o[2], o[3][:j] + o[3][j + 1:])] + ops[i + 1:])


LEVEL_TEXT = ("Machine-checked (Coq) theorems over an executable model of CppUTestStore / SetPointerPlugin::postTestAction (bounded table, "
              "restore in reverse), Utest::run's setup/body/teardown control flow, the plugin chain's pre/post recursion with enable flags, "
              "TestRegistry install/remove/reset, whole runs (runAllTests: every test takes the chain as the actions of the run so far have "
              "left it; test statements and plugins' pre/post actions install, remove, enable, disable plugins, also themselves), plugin "
              "OBJECTS that are removed by name or dropped by resetPlugins and handed to installPlugin again (the chain level: new head with the "
              "flags it carries; below it the code's own representation -- objects with a next_ link, firstPlugin_ -- with installPlugin "
              "overwriting the link and removal leaving the removed object's link stale, proved to stay exactly the chain for every history) and "
              "CommandLineTestRunner::runAllTestsMain on registries that already hold arbitrary plugins: every redirected pointer is back at "
              "its pre-test value for all statement sequences and outcomes, the table is empty before every test, the limit fails the test "
              "without writing past the table, post order = reverse pre order, removal by name = the chain without the plugins of that name "
              "(from the next test of the same run on), a re-installed object is the head and every enabled installed plugin is reached exactly "
              "once by the walks over the links, under the runner every pointer is restored whatever the registry held; and, one level up, "
              "a PROCESS of several runs (runner invocations with any command line from -e -f -p -v -vv -c -r<n>, registry runs, "
              "UtestShell::setRethrowExceptions / setCrashOnFail calls in between; tests pass, fail or THROW) whose state carries "
              "rethrowExceptions_, the crashing-terminator switch, the current-test statics and the registry's separate-process switch from "
              "run to run: on every valid session the observation is that of the session with the command lines erased (each run behaves as "
              "if alone; a runner invocation reads none of the switches it finds; a caught throw is a failure at that statement; forked "
              "tests lose nothing), no exception leaves a run, the statics are back; the runner that only ever switches rethrowing ON is "
              "refuted. Tied to the "
              "code by a differential run of the extracted model against a real TestRegistry / CommandLineTestRunner with recording and "
              "acting plugins and scripted tests, with the extracted model-free spec judging the implementation.")
LEVEL_NOTE = ("Partial for memory safety: the model's table is a bounded list, real accesses to the static table are seen only by ASan. Trusted: Coq "
              "kernel, extraction, harness, generator. Modelled not verified: the C++ itself; exceptions/longjmp by their contract (a failing "
              "statement leaves the phase). Inside the test in which an action names a plugin that plugin's own log entries are not observed "
              "(the model walks the chain as it stood at the test's start, a plugin taking its turn if still installed and enabled). The link-level "
              "model of installPlugin / removePluginByName / resetPlugins is hand-written from TestRegistry.cpp / TestPlugin.cpp (not regenerated); "
              "installing an object that is in the chain (circular chain) is outside the property and excluded by `valid`. The static "
              "CommandLineTestRunner::RunAllTests wrapper (memory-leak plugin, console output) is not driven, runAllTestsMain is. "
              "Process level: a throwing test where rethrowing is on is outside `valid` (the exception is meant to leave the run); -p sessions "
              "are judged only without registry actions; the crash-on-fail switch and the current-test statics are carried by the model but "
              "nothing observed depends on them; shuffle / reverse / filters / output formats are not exercised. "
              "MAX_SET is re-read from TestPlugin.h on every run.")
TECHNIQUE = "Coq proof over hand-written executable model + extracted-model/implementation correspondence check (differential, exhaustive small chains)"
READY = True
