"""C17 -- pointers set for a test are restored after it; plugin actions nest properly.
Scenario: a session  op*  with
  op   ::= :inst <name> <kind 0 plain|1 SetPointerPlugin> | :en <id> | :dis <id> | :rm <name> | :reset
         | :test <n> stmt*n <n> stmt*n <n> stmt*n                   (setup, body, teardown of one test run through the registry)
  stmt ::= :set <loc> <val> | :wr <loc> <val> | :fail | :failc | :thr | :thrstd
(plugin ids = creation ordinals).  Observation: per :test ":t failed npre ids npost ids pool[0..39]", per :rm/:reset ":c n ids"."""
from vlib import tz
ID = "C17"
FLAVOURS = ["asan"]
HARNESS_SRCS = ["harness/C17.cpp"]
POOL = 40
MAX_SET = 32   # only steers the generator towards the boundary; the model reads the value from the source
RULE = ("(a) pointer sessions: a SetPointerPlugin (+0-3 recording plugins, any enabled pattern) and 1-6 consecutive tests with 0-36 "
        "UT_PTR_SET per test (weights on 31/32/33 and beyond), ~30% repeated targets, direct writes in between, spread over setup/body/"
        "teardown, each phase ending normally / FAIL / longjmp-style fail / throw int / throw std::exception at any position; "
        "(b) chains: exhaustively every chain of 0-6 uniquely named plugins x removal of every position (and of an absent name), "
        "each followed by a test that logs the order; random chains of 0-7 plugins with every enabled pattern, duplicate names, "
        "install/enable/disable/remove/reset sequences; (c) mixed sessions of both.  non-trivial = at least one test with a "
        "redirection or a removal on a chain of >= 2 plugins")
ASSUMPTIONS = ["a test that uses UT_PTR_SET runs with an enabled SetPointerPlugin installed (as CommandLineTestRunner arranges)",
               "plugin names differ from \"null\", the name of the chain's sentinel",
               "plugin actions themselves neither fail nor throw; tests run in the current process; exceptions are not rethrown (default)"]
CRASH_IS_VIOLATION = True
ABORTS = [":fail", ":failc", ":thr", ":thrstd"]


class Chain:
    """textbook chain used only to keep generated scenarios valid (a test with :set needs an enabled SetPointerPlugin)"""

    def __init__(self):
        self.c = []   # [id, name, kind, on] newest first
        self.nx = 0

    def inst(self, name, kind):
        self.c.insert(0, [self.nx, name, kind, True])
        self.nx += 1
        return ":inst %x %x" % (name, kind)

    def on(self, i, b):
        for p in self.c:
            if p[0] == i:
                p[3] = b
        return "%s %x" % (":en" if b else ":dis", i)

    def rm(self, name):
        self.c = [p for p in self.c if p[1] != name]
        return ":rm %x" % name

    def reset(self):
        self.c = []
        return ":reset"

    def sp(self):
        return any(p[2] == 1 and p[3] for p in self.c)


def phase(rng, nset, nwr, targets, abort_p):
    ops = [":set"] * nset + [":wr"] * nwr
    rng.shuffle(ops)
    out = []
    for k in ops:
        out.append("%s %x %x" % (k, rng.choice(targets), rng.choice([0, 1, rng.randrange(1 << 12), rng.randrange(1 << 48), (1 << 64) - 1])))
    n = len(out)
    if rng.random() < abort_p:
        out.insert(rng.randrange(n + 1), rng.choice(ABORTS))
        n += 1
    return "%x %s" % (n, " ".join(out)) if n else "0"


def gen_test(rng, with_sets):
    if with_sets:
        c = rng.random()
        if c < 0.35:
            total = rng.choice([MAX_SET - 1, MAX_SET, MAX_SET + 1, MAX_SET + 2, MAX_SET + 4])
        elif c < 0.6:
            total = rng.randrange(0, 6)
        else:
            total = rng.randrange(0, MAX_SET + 5)
    else:
        total = 0
    # repeated targets: draw from a small subset with probability 0.3, else spread
    if rng.random() < 0.3:
        targets = [rng.randrange(POOL) for _ in range(rng.randrange(1, 4))]
    else:
        targets = list(range(POOL))
    a = rng.randrange(total + 1) if rng.random() < 0.5 else 0
    c_ = rng.randrange(total - a + 1) if rng.random() < 0.3 else 0
    b = total - a - c_
    ap = 0.25
    return ":test " + " ".join([phase(rng, a, rng.randrange(0, 4), targets, ap), phase(rng, b, rng.randrange(0, 5), targets, ap),
                                phase(rng, c_, rng.randrange(0, 3), targets, ap)])


def pointer_session(rng):
    ch = Chain()
    ops = []
    k = rng.randrange(0, 4)
    pos = rng.randrange(k + 1)
    for i in range(k + 1):
        ops.append(ch.inst(i + 1, 1 if i == pos else (1 if rng.random() < 0.1 else 0)))
    for p in list(ch.c):
        if p[2] == 0 and rng.random() < 0.3:
            ops.append(ch.on(p[0], False))
    for _ in range(rng.randrange(1, 7)):
        if rng.random() < 0.12:     # toggle the SetPointerPlugin between tests
            sp = [p for p in ch.c if p[2] == 1]
            if sp:
                p = rng.choice(sp)
                ops.append(ch.on(p[0], not p[3]))
        ops.append(gen_test(rng, ch.sp()))
    return " ".join(ops)


def order_test(rng, ch):
    return gen_test(rng, ch.sp() and rng.random() < 0.3)


def exhaustive_removals():
    out = []
    for n in range(0, 7):
        for pos in range(n + 1):       # pos == n: a name that is not installed
            ch = Chain()
            ops = [ch.inst(i + 1, 0) for i in range(n)]
            name = (n - pos) if pos < n else 0x63   # chain is newest first: position pos from the head has name n - pos
            ops.append(ch.rm(name))
            ops.append(":test 0 0 0")
            out.append(" ".join(ops))
    # every enabled pattern for chains up to 5
    for n in range(0, 6):
        for mask in range(1 << n):
            ch = Chain()
            ops = [ch.inst(i + 1, 0) for i in range(n)]
            ops += [ch.on(i, False) for i in range(n) if not (mask >> i) & 1]
            ops.append(":test 0 0 0")
            out.append(" ".join(ops))
    return out


def chain_session(rng):
    ch = Chain()
    ops = []
    names = list(range(1, 9))
    dup = rng.random() < 0.2
    for _ in range(rng.randrange(0, 8)):
        ops.append(ch.inst(rng.choice(names[:3]) if dup else names.pop(rng.randrange(len(names))), 1 if rng.random() < 0.2 else 0))
    for _ in range(rng.randrange(1, 9)):
        c = rng.random()
        if c < 0.35 and ch.c:
            ops.append(ch.rm(rng.choice(ch.c)[1]))
        elif c < 0.42:
            ops.append(ch.rm(rng.randrange(1, 12)))
        elif c < 0.6 and ch.nx:
            ops.append(ch.on(rng.randrange(ch.nx + 1), rng.random() < 0.5))
        elif c < 0.65:
            ops.append(ch.reset())
        elif c < 0.8:
            ops.append(ch.inst(rng.randrange(1, 12), 1 if rng.random() < 0.3 else 0))
        else:
            ops.append(order_test(rng, ch))
    ops.append(order_test(rng, ch))
    return " ".join(ops)


def generate(tier, rng):
    out = exhaustive_removals()
    n = 1500 if tier == "quick" else 20000
    for _ in range(n):
        out.append(pointer_session(rng))
    for _ in range(n):
        out.append(chain_session(rng))
    return out


def nontrivial(s):
    t = s.split()
    if ":set" in t:
        return True
    n = 0
    for i, x in enumerate(t):
        if x == ":inst":
            n += 1
        if x == ":rm" and n >= 2:
            return True
    return False


def classify(s):
    t = s.split()
    lab = []
    nset = t.count(":set")
    lab.append("sets:" + ("0" if nset == 0 else "1-30" if nset <= 30 else "31-33" if nset <= 33 else ">33"))
    lab.append("tests:%d" % t.count(":test"))
    lab.append("plugins:%d" % t.count(":inst"))
    if ":rm" in t:
        lab.append("removal")
    if any(a in t for a in ABORTS):
        lab.append("abort")
    if ":dis" in t:
        lab.append("disabled")
    return lab


def split_ops(s):
    t = s.split()
    ops, cur = [], []
    for x in t:
        if x in (":inst", ":en", ":dis", ":rm", ":reset", ":test") and cur:
            ops.append(cur)
            cur = []
        cur.append(x)
    if cur:
        ops.append(cur)
    return ops


def items(o):
    res, cur = [], []
    for x in o.split():
        if x in (":t", ":c") and cur:
            res.append(cur)
            cur = []
        cur.append(x)
    if cur:
        res.append(cur)
    return res


def signature(s, o):
    """coarse: which part of the observation first departs from the textbook expectation"""
    if o.startswith("!"):
        return "crash " + o[:60]
    ch = Chain()
    its = items(o)
    k = 0
    try:
        for op in split_ops(s):
            if op[0] == ":inst":
                ch.inst(int(op[1], 16), int(op[2], 16))
            elif op[0] in (":en", ":dis"):
                ch.on(int(op[1], 16), op[0] == ":en")
            elif op[0] in (":rm", ":reset"):
                n = len(ch.c)
                pos = [i for i, p in enumerate(ch.c) if op[0] == ":rm" and p[1] == int(op[1], 16)]
                ch.rm(int(op[1], 16)) if op[0] == ":rm" else ch.reset()
                it = its[k]
                k += 1
                if it[0] != ":c" or [int(x, 16) for x in it[2:]] != [p[0] for p in ch.c]:
                    return "chain after %s wrong (chain of %d, named plugin at %s)" % (op[0], n, pos)
            elif op[0] == ":test":
                it = its[k]
                k += 1
                en = [p[0] for p in ch.c if p[3]]
                npre = int(it[2], 16)
                pre = [int(x, 16) for x in it[3:3 + npre]]
                npost = int(it[3 + npre], 16)
                post = [int(x, 16) for x in it[4 + npre:4 + npre + npost]]
                if pre != en:
                    return "pre-action order wrong"
                if post != en[::-1]:
                    return "post-action order wrong"
                nset = op.count(":set")
                return_later = "pointer values / verdict wrong (%s redirections)" % ("<= limit" if nset <= MAX_SET else "> limit")
    except Exception:
        return "malformed observation"
    return locals().get("return_later", "observation wrong")


def parse_test(op):
    """[':test', n, stmts.., n, stmts.., n, stmts..] -> three lists of statement token lists"""
    i = 1
    ph = []
    for _ in range(3):
        n = int(op[i], 16)
        i += 1
        st = []
        for _ in range(n):
            if op[i] in (":set", ":wr"):
                st.append(op[i:i + 3])
                i += 3
            else:
                st.append(op[i:i + 1])
                i += 1
        ph.append(st)
    return ph


def fmt_test(ph):
    return ":test " + " ".join(("%x " % len(p) + " ".join(" ".join(s) for s in p)).strip() for p in ph)


def py_valid(s):
    ch = Chain()
    for op in split_ops(s):
        if op[0] == ":inst":
            ch.inst(int(op[1], 16), int(op[2], 16))
        elif op[0] in (":en", ":dis"):
            ch.on(int(op[1], 16), op[0] == ":en")
        elif op[0] == ":rm":
            ch.rm(int(op[1], 16))
        elif op[0] == ":reset":
            ch.reset()
        elif ":set" in op and not ch.sp():
            return False
    return True


def shrink(s):
    for c in shrink_all(s):
        if c.strip() and py_valid(c):
            yield c


def shrink_all(s):
    ops = split_ops(s)
    for i in range(len(ops)):
        yield " ".join(" ".join(o) for j, o in enumerate(ops) if j != i)
    for i, op in enumerate(ops):
        if op[0] != ":test":
            continue
        ph = parse_test(op)
        for p in range(3):
            for k in range(len(ph[p])):
                ph2 = [list(x) for x in ph]
                del ph2[p][k]
                yield " ".join(" ".join(o) if j != i else fmt_test(ph2) for j, o in enumerate(ops))


LEVEL_TEXT = ("Machine-checked (Coq) theorems over an executable model of CppUTestStore / SetPointerPlugin::postTestAction (bounded table, "
              "restore in reverse), Utest::run's setup/body/teardown control flow, the plugin chain's pre/post recursion with enable flags and "
              "TestRegistry install/remove/reset: every redirected pointer is back at its pre-test value for all statement sequences and outcomes, "
              "the table is empty before every test, the limit fails the test without writing past the table, post order = reverse pre order, "
              "removal by name = the chain without the plugins of that name. Tied to the code by a differential run of the extracted model against "
              "a real TestRegistry with recording plugins and scripted tests, with the extracted model-free spec judging the implementation.")
LEVEL_NOTE = ("Partial for memory safety: the model's table is a bounded list, real accesses to the static table are seen only by ASan. Trusted: Coq "
              "kernel, extraction, harness, generator. Modelled not verified: the C++ itself; exceptions/longjmp by their contract (a failing "
              "statement leaves the phase). MAX_SET is re-read from TestPlugin.h on every run.")
TECHNIQUE = "Coq proof over hand-written executable model + extracted-model/implementation correspondence check (differential, exhaustive small chains)"
READY = True
