"""C09 -- mock parameter values compare by mathematical value, symmetrically.
Scenario: two values.  value ::= :b 0|1 | :i <ty 0..5> <z> | :d <bits> <tolbits> | :s <bytes|~> | :p a | :cp a | :f a | :m <bytes>
  (every string / buffer in an allocation of its own), or both payloads inside ONE allocation:
  :am <arena> oa la ob lb   memory buffers [arena+oa,+la) and [arena+ob,+lb)
  :as <arena> oa ob         C strings starting at arena+oa and arena+ob (the arena is followed by one NUL)
  or ONE read of a stored value through one accessor of one family of read-back accessors:
  :rd <family> <store path> <accessor> <stored value | :none> <default>
     family   :nv MockNamedValue::getXValue | :ac / :acd actual call returnXValue / returnXValueOrDefault(d) | :ms / :msd MockSupport
              xReturnValue / returnXValueOrDefault(d) | :cac / :cacd / :cms / :cmsd the C table's accessors on the actual call / on
              mock_c() | :cact / :cmst the MockValue_c union of ->returnValue() (the member named by the tag)
     store    :cpp andReturnValue(T) | :c the C table's andReturnXValue(T)
     accessor :bool :int :uint :long :ulong :llong :ullong :double :string :ptr :cptr :fptr :mem
     default  :b x | :i z | :d bits | :s bytes | :a addr | :m bytes   (of the accessor's type; used by the OrDefault families only)
  or RE-USED value objects (a second / third store into the same MockNamedValue):
  :ru <box> <family> <nA> <value>*nA <nB> <value>*nB
     box      :named a MockNamedValue (setValue / setMemoryBuffer nA times) | :ret / :retc the return value of ONE expectation
              (andReturnValue / the C table's andReturnXValue nA times) | :data / :datac ONE slot of mock().setData / mock_c()->setXData (nA times under one name)
     object A (in the box) receives the nA values in order, object B (a MockNamedValue) the nB values; A is read through the 13
     accessors of the family (:nv for :named and :data; for :ret / :retc also the ten call families) and compared with B both ways
  or value objects whose EARLIER life was a custom-type object (comparator_ / copier_ left in the object):
  :st <box> <cmpmask> <copmask> <nA> <store>*nA <nB> <store>*nB     box :named | :data | :datac, read through the MockNamedValue getters
     store    <value> | :o <type 0..2> <const 0|1> <object 0..3>   setObjectPointer / setConstObjectPointer (setDataObject / setDataConstObject)
              of an object of one of three custom types; bit i of cmpmask / copmask: a comparator / copier for type i is installed in the
              repository; the last store of each object is a built-in value.  Observation as for :ru.
  or by-content values AT THE EDGES OF THEIR REPRESENTATION, through one of three interfaces:
  :em <iface> <arena> <ref> <len> <ref> <len>   memory buffers (ref, len); ref ::= ~ (a NULL pointer; len must be 0) | offset into the arena
  :es <iface> <arena> <ref> <ref>               C strings at ref (the arena is followed by one NUL); ~ = a NULL char pointer
  :ev <iface> <value> <value>                   any two values, payloads apart
     iface    :eq MockNamedValue::equals both ways | :cpp mock().expectOneCall("f").withParameter("p", first) + mock().actualCall("f")
              .withParameter("p", second), then the sides swapped | :c the same through mock_c() (withXParameters / withMemoryBufferParameter)
Observation: equals(a,b) equals(b,a) and the six integer getters applied to a ('~' = the getter failed the test);
  for :rd what came back: :b x | :i z | :d bits | :s content | :a addr | :m bytes | :fail (test failed / tag names another member);
  for :ru A.equals(B) B.equals(A) and the 13 accessor results (bool, the six integer ones, double, string, void*, const void*, function
  pointer, memory buffer), each as for :rd;
  for :em / :es / :ev two flags: equal / the call was fulfilled (first value on the expectation side), and the same with the sides swapped."""
import itertools
from vlib import tz, tb
ID = "C09"
FLAVOURS = ["asan"]
HARNESS_SRCS = ["harness/C09.cpp"]
RULE = ("exhaustive over the 36 integer type pairs x boundary lattice {min, -2^31-1..-2^31+1, -1,0,1, 2^31-1..2^31+1, 2^32-1..2^32+1, "
        "2^63-1, 2^63, 2^64-1} (intersected with each type), all pairs of the 8 value kinds, strings incl. NULL/empty/embedded "
        "differences, buffers of differing length, double classes incl. NaN/inf; payloads sharing ONE allocation: for every small arena "
        "(periodic, with NULs, distinct bytes) all ordered pairs of windows (same address with two lengths, overlap at an offset, "
        "identical pointer and length, disjoint equal content) and all ordered pairs of char pointers (same pointer, into the middle "
        "of the other string, past an inner NUL); reads: every stored integer type x boundary value {min, -2^31-1, -2^31, -1, 0, 1, 2^31-1, "
        "2^31, 2^32-1, 2^32, 2^32+1, 2^63-1, 2^63, 2^64-1} x every integer accessor x every one of the 11 accessor families x both store "
        "paths, with a default different from the stored value; every non-integer stored kind x every accessor x every family; nothing "
        "stored x every accessor x every family; thorough adds random 64-bit values and random arenas up to 48 bytes, and random reads. "
        "non-trivial = the two values are of the same kind (so the comparison is not decided by the tag alone) or a getter applies; "
        "for a read: a value was stored; re-used objects (:ru): for every box (MockNamedValue, return value of one expectation through the "
        "C++ and the C interface, setData slot through the C++ and the C interface) every ordered pair (earlier store, last store) of {6 integer types x boundary values, bool, "
        "double classes, NULL / heap strings, the three pointer kinds with 64-bit patterns, buffers} -- earlier stores chosen for what they "
        "leave under a narrower member (non-zero upper half, sign bits, double and pointer bit patterns) -- read through all 13 accessors "
        "and compared both ways with (a) a new object holding the last value, (b) a new object holding the EARLIER value, (c) the same "
        "integer in another type on an object that was itself re-used; three stores in a row; the ten call families on a re-used return "
        "value; thorough adds random store sequences up to 4 + 3 long. non-trivial for :ru = some object received more than one store; "
        "stale members (:st): for every box (MockNamedValue, setData slot C++ / C) x repository state (comparator and copier for all / "
        "comparators only / copiers only / none / mixed) x earlier life (a const / non-const object of each custom type; an integer then an object; "
        "two objects of different types; an object then a built-in value) x last built-in value (boundary integers of every type the box takes, "
        "bool, strings, double, the pointer kinds, buffers) compared both ways with a new object holding the same value / a different value of the "
        "same type / the same number in another integer type / a value of another kind, and with an object that had the same earlier life; "
        "also the new object on the left; random histories. non-trivial for :st = some object had a custom-type life; "
        "edges (:em / :es / :ev): for every small arena every ordered pair of {NULL with size 0, every window incl. the empty ones at every offset and "
        "one past the end} through equals, the C++ mock interface and the C table (so: size 0 with NULL on the expectation side / the actual side / "
        "both / neither, the same object on both sides, same bytes elsewhere); every ordered pair of {NULL, every char pointer} of every small string "
        "arena; frames of 1..257 bytes against a copy, a copy with the last / first / a middle byte changed, one byte shorter or longer, also against "
        "(NULL, 0) and an empty window; every pair of the boundary integers x 6 x 6 types and all pairs of the other kinds through both mock "
        "interfaces; thorough adds random arenas / windows / values. non-trivial for an edge scenario = the two values are of one kind")
ASSUMPTIONS = ["LP64 data model (int 32, long 64, long long 64)", "values are in range of their declared C type (setValue takes a T)",
               "reads: one expected call with the return value, one matching actual call, the unscoped mock(); defaults of the accessor's own type",
               "re-used objects: little-endian LP64 union layout (first 8 bytes shared by all members, the tolerance in the second 8); "
               "andReturnValue(double) / setData(double) store the default tolerance 0.005",
               "stale members: custom type names are not built-in type names; the repository does not change between the stores of one scenario",
               "edges: a memory buffer is (NULL, 0) or lies inside an object (a NULL address with a size that is not 0 is no buffer); one expectation with one "
               "parameter, one actual call, the unscoped mock(); on the actual side of a mock interface a double carries no tolerance"]
LO = [-(1 << 31), 0, -(1 << 63), 0, -(1 << 63), 0]
HI = [(1 << 31) - 1, (1 << 32) - 1, (1 << 63) - 1, (1 << 64) - 1, (1 << 63) - 1, (1 << 64) - 1]
LATTICE = sorted(set([-(1 << 63), -(1 << 63) + 1, -(1 << 31) - 1, -(1 << 31), -(1 << 31) + 1, -129, -128, -2, -1, 0, 1, 2, 127, 128, 255, 256,
                      (1 << 31) - 1, 1 << 31, (1 << 31) + 1, (1 << 32) - 1, 1 << 32, (1 << 32) + 1, (1 << 63) - 1, 1 << 63, (1 << 63) + 1,
                      (1 << 64) - 2, (1 << 64) - 1]))
DBL = [0x0, 0x8000000000000000, 0x1, 0x3ff0000000000000, 0x3ff0000000000001, 0xbff0000000000000, 0x7fefffffffffffff,
       0x7ff0000000000000, 0xfff0000000000000, 0x7ff8000000000000, 0xfff8000000000001, 0x3fe0000000000000, 0x4000000000000000]
STRS = [None, b"", b"a", b"A", b"ab", b"ab\x00c", b"abc", b"\xff\x80", b"abd"]
MEMS = [b"", b"\x00", b"\x00\x00", b"ab", b"ab\x00", b"ac", b"\xff"]


# arenas for payloads that share one allocation: periodic (equal content at different addresses), with NULs, distinct bytes
AL_MEM = [b"", b"a", b"aa", b"ab", b"aaa", b"aba", b"\x00\x00\x00", b"abab", b"ab\x00ab", b"abcabc"]
AL_STR = [b"", b"a", b"aa", b"ab", b"aaa", b"abab", b"ab\x00ab", b"ab\x00abc", b"\x00\x00", b"a\x00a\x00a", b"abcab\xff"]


def alias_mem(ar, oa, la, ob, lb):
    return ":am %s %x %x %x %x" % (tb(ar), oa, la, ob, lb)


def alias_str(ar, oa, ob):
    return ":as %s %x %x" % (tb(ar), oa, ob)


def alias_family(tier, rng):
    out = []
    # exhaustive: every ordered pair of windows / of char pointers of every small arena (both orders expectation/actual arise)
    for ar in AL_MEM:
        wins = [(o, l) for o in range(len(ar) + 1) for l in range(len(ar) - o + 1)]
        out += [alias_mem(ar, oa, la, ob, lb) for (oa, la) in wins for (ob, lb) in wins]
    for ar in AL_STR:
        out += [alias_str(ar, oa, ob) for oa in range(len(ar) + 1) for ob in range(len(ar) + 1)]
    # a frame expected in full, only its head (or tail, or middle) sent -- from the same address
    frame = bytes(range(1, 17))
    for (la, lb) in ((8, 4), (16, 1), (16, 15), (1, 0), (16, 0)):
        for o in (0, 3):
            if o + max(la, lb) <= len(frame):
                out += [alias_mem(frame, o, la, o, lb), alias_mem(frame, o, lb, o, la)]
    out += [alias_mem(frame, 0, 8, 8, 8), alias_mem(frame, 0, 8, 4, 8), alias_mem(frame, 4, 8, 0, 8), alias_mem(frame, 0, 16, 0, 16)]
    n = 300 if tier == "quick" else 20000
    for _ in range(n):
        ln = rng.randrange(1, 49)
        per = rng.choice([1, 2, 3, ln])                       # small period => equal content at different addresses is likely
        unit = bytes(rng.choice([0, 0x61, 0x62, 0xff, rng.randrange(256)]) for _ in range(per))
        ar = (unit * ln)[:ln]
        if rng.random() < 0.5:
            oa = rng.randrange(ln + 1); la = rng.randrange(ln - oa + 1)
            c = rng.random()
            if c < 0.35:
                ob = oa; lb = rng.randrange(ln - ob + 1)       # same address
            elif c < 0.7:
                ob = rng.randrange(ln - la + 1); lb = la       # same length, any offset
            else:
                ob = rng.randrange(ln + 1); lb = rng.randrange(ln - ob + 1)
            out.append(alias_mem(ar, oa, la, ob, lb))
        else:
            out.append(alias_str(ar, rng.randrange(ln + 1), rng.randrange(ln + 1)))
    return out


def ival(t, z):
    return ":i %x %s" % (t, tz(z))


# ---- reads through the accessor families ----
FAMS = [":nv", ":ac", ":acd", ":ms", ":msd", ":cac", ":cacd", ":cms", ":cmsd", ":cact", ":cmst"]
DEF_FAMS = (":acd", ":msd", ":cacd", ":cmsd")
INT_ACCS = [":int", ":uint", ":long", ":ulong", ":llong", ":ullong"]
OTHER_ACCS = [":bool", ":double", ":string", ":ptr", ":cptr", ":fptr", ":mem"]
ACCS = [":bool"] + INT_ACCS + OTHER_ACCS[1:]
# the boundary values the property names for read-back
RLAT = sorted(set([-(1 << 63), -(1 << 31) - 1, -(1 << 31), -1, 0, 1, (1 << 31) - 1, 1 << 31, (1 << 32) - 1, 1 << 32, (1 << 32) + 1,
                   (1 << 63) - 1, 1 << 63, (1 << 64) - 1]))
R_OTHERS = [":b 0", ":b 1", ":d 0 0", ":d 3ff0000000000000 0", ":d 7ff8000000000000 0", ":d fff0000000000000 0", ":d 8000000000000000 0", ":d 1 0",
            ":s ~", ":s $", ":s $6162", ":s $61620063", ":p 0", ":p 1000", ":cp 0", ":cp 1008", ":f 0", ":f 1010"]


def rdefault(acc, k=0):
    """a default of the accessor's type; k picks one of a few (never NaN, no NUL in strings)"""
    if acc in INT_ACCS:
        t = INT_ACCS.index(acc)
        return ":i " + tz([0x4d, HI[t], LO[t], 0][k % 4])
    return {":bool": [":b 1", ":b 0"], ":double": [":d 4053400000000000", ":d 0"], ":string": [":s $646566", ":s ~"], ":ptr": [":a 2000", ":a 0"],
            ":cptr": [":a 2008", ":a 0"], ":fptr": [":a 2010", ":a 0"], ":mem": [":m $", ":m $"]}[acc][k % 2]


def rd(fam, via, acc, stored, dflt):
    return ":rd %s %s %s %s %s" % (fam, via, acc, stored, dflt)


def rd_ok(fam, via, acc, stored):
    if acc == ":mem" and fam != ":nv":
        return False
    if fam == ":nv" and via == ":c":
        return False
    if stored.startswith(":m") and fam != ":nv":
        return False
    return True


def read_family(tier, rng):
    out = []
    ints = [(t, z) for t in range(6) for z in RLAT if LO[t] <= z <= HI[t]]
    for fam in FAMS:
        vias = [":cpp"] if fam == ":nv" else [":cpp", ":c"]
        # every stored integer x every integer accessor, both store paths; the default differs from what is stored
        for (t, z) in ints:
            for acc in INT_ACCS:
                for via in vias:
                    k = 0 if z != 0x4d else 3
                    out.append(rd(fam, via, acc, ival(t, z), rdefault(acc, k)))
            # a stored integer through the non-integer accessors (few values: the answer is decided by the type)
            if z in (0, 1, -1, HI[t]):
                for acc in OTHER_ACCS:
                    if rd_ok(fam, ":cpp", acc, ":i"):
                        out.append(rd(fam, ":cpp", acc, ival(t, z), rdefault(acc)))
        # the default at the accessor's own limits against a small stored value of every type (default despite a set value)
        for t in range(6):
            for acc in INT_ACCS:
                for k in (1, 2):
                    out.append(rd(fam, ":cpp", acc, ival(t, 1), rdefault(acc, k)))
        # every non-integer stored kind through every accessor
        for st in R_OTHERS + [":m $", ":m $0102"]:
            for acc in ACCS:
                for via in vias:
                    if rd_ok(fam, via, acc, st) and (via == ":cpp" or acc in (":bool", ":double", ":string", ":ptr", ":cptr", ":fptr", ":int", ":ullong")):
                        out.append(rd(fam, via, acc, st, rdefault(acc)))
        # nothing stored
        for acc in ACCS:
            if rd_ok(fam, ":cpp", acc, ":none"):
                for k in (0, 1):
                    out.append(rd(fam, ":cpp", acc, ":none", rdefault(acc, k)))
    n = 1500 if tier == "quick" else 120000
    for _ in range(n):
        fam = rng.choice(FAMS)
        via = ":cpp" if fam == ":nv" else rng.choice([":cpp", ":c"])
        t = rng.randrange(6)
        c = rng.random()
        if c < 0.45:
            z = rng.choice(RLAT) + rng.randrange(-2, 3)
        elif c < 0.8:
            z = (1 << rng.randrange(0, 65)) + rng.randrange(-2, 3)
            if rng.random() < 0.4:
                z = -z
        else:
            z = rng.randrange(LO[t], HI[t] + 1)
        z = min(max(z, LO[t]), HI[t])
        acc = rng.choice(INT_ACCS) if rng.random() < 0.9 else rng.choice(OTHER_ACCS[:-1])
        if acc in INT_ACCS:
            g = INT_ACCS.index(acc)
            dz = rng.choice([0x4d, 0, HI[g], LO[g], z & 0xffffffff, min(max(z, LO[g]), HI[g])])
            d = ":i " + tz(min(max(dz, LO[g]), HI[g]))
        else:
            d = rdefault(acc, rng.randrange(2))
        out.append(rd(fam, via, acc, ival(t, z), d))
    return out


# ---- re-used value objects ----
DTOL = 0x3f747ae147ae147b          # MockNamedValue::defaultDoubleTolerance = 0.005
BOXES = [":named", ":ret", ":retc", ":data", ":datac"]


def dval(bits, tol=DTOL):
    return ":d %x %x" % (bits, tol)


def vlen(tag):
    return 3 if tag in (":i", ":d") else 2


def ru_parse(s):
    """(box, family, [A's values as token lists], [B's values])"""
    t = s.split()
    i = 3
    lists = []
    for _ in range(2):
        n = int(t[i], 16); i += 1
        l = []
        for _ in range(n):
            k = vlen(t[i]); l.append(t[i:i + k]); i += k
        lists.append(l)
    return t[1], t[2], lists[0], lists[1]


def ru(box, fam, a, b):
    """a, b: lists of value strings"""
    return ":ru %s %s %x %s %x %s" % (box, fam, len(a), " ".join(a), len(b), " ".join(b))


def box_takes(box, v):
    t = v.split()
    if box == ":named":
        return True
    if t[0] == ":m":
        return False
    if box in (":data", ":datac") and t[0] == ":i" and int(t[1], 16) >= 2:
        return False
    if t[0] == ":d" and int(t[2], 16) != DTOL:
        return False
    return True


def vkind(t):
    """what a stored value occupies in the union"""
    if t[0] == ":i":
        return "4-byte integer" if int(t[1], 16) < 2 else "8-byte integer"
    return {":b": "bool", ":d": "double", ":s": "string", ":p": "pointer", ":cp": "pointer", ":f": "pointer", ":m": "buffer"}[t[0]]


# earlier stores, chosen for what they leave behind under a narrower member: non-zero upper halves, sign bits, double / pointer patterns
STALE = ([ival(3, (1 << 32) + 7), ival(3, (1 << 64) - 1), ival(4, -1), ival(4, -(1 << 63)), ival(5, (1 << 64) - (1 << 32)), ival(5, 1 << 63),
          ival(2, -(1 << 31) - 1), ival(2, 1 << 32), ival(0, -1), ival(0, (1 << 31) - 1), ival(1, (1 << 32) - 1), ival(1, 7),
          dval(0x3ff8000000000000), dval(0xfff0000000000000), dval(0x7ff8000000000000), dval(0x8000000000000000), dval(0x3ff0000000000001),
          ":p 7ffdeadbeef0", ":cp ffffffffffffffff", ":f 555555555000", ":p 0", ":s $6162", ":s ~", ":b 1", ":b 0"])
STALE_NAMED = [":m $010203", ":m $", dval(0x3ff8000000000000, 0), dval(0x4000000000000000, 0x7ff0000000000000)]
STALE_FEW = [ival(3, (1 << 32) + 7), ival(4, -1), ival(5, (1 << 64) - (1 << 32)), dval(0x3ff8000000000000), ":p 7ffdeadbeef0", ":s $6162", ":b 1"]
LAST_OTHERS = [":b 0", ":b 1", dval(0), dval(0x3ff8000000000000), dval(0x7ff8000000000000), dval(0xfff0000000000000), dval(0x8000000000000000), dval(1),
               ":s ~", ":s $", ":s $6162", ":s $61620063", ":p 0", ":p 1000", ":p ffffffff00000000", ":cp 0", ":cp 1008", ":f 0", ":f 1010"]
LAST_NAMED = [":m $", ":m $0102", ":m $010203", dval(0x3ff8000000000000, 0), dval(0x3ff0000000000000, 0x3fe0000000000000)]


def same_number_elsewhere(v, k=0):
    """the integer of v in another type that holds it (None if there is none)"""
    t = v.split()
    ty, z = int(t[1], 16), int(t[2], 16)
    cands = [u for u in range(6) if u != ty and LO[u] <= z <= HI[u]]
    return ival(cands[k % len(cands)], z) if cands else None


def reuse_family(tier, rng):
    out = []
    ints = [ival(t, z) for t in range(6) for z in RLAT if LO[t] <= z <= HI[t]]

    def partners(first, last, k):
        """objects B to compare with: new with the last value; new with the EARLIER value; the same number in another type on a re-used object"""
        bs = [[last], [first]]
        if last.startswith(":i"):
            o = same_number_elsewhere(last, k)
            if o:
                bs.append([first, o])
        return bs

    k = 0
    for box in BOXES:
        stale = [v for v in STALE + (STALE_NAMED if box == ":named" else []) if box_takes(box, v)]
        lasts = [v for v in ints + LAST_OTHERS + (LAST_NAMED if box == ":named" else []) if box_takes(box, v)]
        for first in stale:
            for last in lasts:
                k += 1
                bs = partners(first, last, k)
                if box != ":named":          # the other boxes: one partner for a non-integer, the new object and one more for an integer
                    bs = bs[:1] + [bs[1 + k % (len(bs) - 1)]] if last.startswith(":i") else [bs[k % len(bs)]]
                for b in bs:
                    out.append(ru(box, ":nv", [first, last], b))
        # three stores in a row
        for first in stale[::3]:
            for mid in stale[1::4]:
                for last in lasts[::5]:
                    out.append(ru(box, ":nv", [first, mid, last], [last]))
        # the call families on a re-used return value
        if box in (":ret", ":retc"):
            for fam in FAMS[1:]:
                for first in STALE_FEW:
                    for last in ints + LAST_OTHERS[:2] + [dval(0x3ff8000000000000), ":s $6162", ":p 1000", ":cp 1008", ":f 1010"]:
                        k += 1
                        if box == ":ret" or k % 2:
                            out.append(ru(box, fam, [first, last], [last] if k % 3 else [first]))
    # the other object re-used as well, and the expectation side / the actual side swapped
    for first in STALE_FEW:
        for last in ints[::2]:
            out.append(ru(":named", ":nv", [last], [first, last]))
            o = same_number_elsewhere(last, 1)
            if o:
                out.append(ru(":named", ":nv", [first, o], [STALE_FEW[(len(out)) % len(STALE_FEW)], last]))
    n = 1500 if tier == "quick" else 60000
    pool = STALE + LAST_OTHERS + ints
    for _ in range(n):
        box = rng.choice(BOXES)
        fam = ":nv" if box in (":named", ":data", ":datac") or rng.random() < 0.4 else rng.choice(FAMS)

        def rv(b):
            c = rng.random()
            if c < 0.5:
                t = rng.randrange(6)
                z = rng.choice(RLAT) + rng.randrange(-2, 3) if rng.random() < 0.6 else rng.randrange(LO[t], HI[t] + 1)
                v = ival(t, min(max(z, LO[t]), HI[t]))
            elif c < 0.6:
                v = dval(rng.choice(DBL) if rng.random() < 0.6 else rng.getrandbits(64), DTOL if b != ":named" or rng.random() < 0.5 else rng.choice([0, 0x3fe0000000000000]))
            elif c < 0.7:
                v = "%s %x" % (rng.choice([":p", ":cp", ":f"]), rng.choice([0, 0x1000, rng.getrandbits(64), rng.getrandbits(47)]))
            else:
                v = rng.choice(pool + STALE_NAMED + LAST_NAMED)
            return v if box_takes(b, v) else ival(rng.randrange(2), rng.randrange(0, 1 << 31))
        a = [rv(box) for _ in range(rng.choice([1, 2, 2, 2, 3, 3, 4]))]
        c = rng.random()
        if c < 0.35:
            b = [a[-1]]
        elif c < 0.55 and len(a) > 1:
            b = [a[-2]]
        elif c < 0.8 and a[-1].startswith(":i") and same_number_elsewhere(a[-1]):
            b = [rv(":named") for _ in range(rng.randrange(3))] + [same_number_elsewhere(a[-1], rng.randrange(6))]
        else:
            b = [rv(":named") for _ in range(rng.choice([1, 2, 3]))]
        out.append(ru(box, fam, a, b))
    return out



# ---- value objects whose earlier life was a custom-type object ----
ST_BOXES = [":named", ":data", ":datac"]
ST_MASKS = [(7, 7), (7, 0), (0, 7), (0, 0), (2, 5)]


def slen(tag):
    return 4 if tag == ":o" else vlen(tag)


def obj(ty, cst, ob):
    return ":o %x %x %x" % (ty, 1 if cst else 0, ob)


def st_parse(s):
    """(box, cmpmask, copmask, [A's stores as token lists], [B's stores])"""
    t = s.split()
    i = 4
    lists = []
    for _ in range(2):
        n = int(t[i], 16); i += 1
        l = []
        for _ in range(n):
            k = slen(t[i]); l.append(t[i:i + k]); i += k
        lists.append(l)
    return t[1], int(t[2], 16), int(t[3], 16), lists[0], lists[1]


def stl(box, cm, pm, a, b):
    return ":st %s %x %x %x %s %x %s" % (box, cm, pm, len(a), " ".join(a), len(b), " ".join(b))


def st_has_object(l):
    return any(v[0] == ":o" for v in l)


def different_value(v):
    t = v.split()
    if t[0] == ":i":
        ty, z = int(t[1], 16), int(t[2], 16)
        return ival(ty, z + 1 if z < HI[ty] else z - 1)
    if t[0] == ":b":
        return ":b %d" % (1 - int(t[1], 16))
    if t[0] == ":s":
        return ":s $6163" if t[1] != "$6163" else ":s $61"
    if t[0] == ":d":
        return dval(0x4024000000000000, int(t[2], 16))
    if t[0] == ":m":
        return ":m $0103" if t[1] != "$0103" else ":m $01"
    return "%s %x" % (t[0], int(t[1], 16) ^ 0x10)


def stale_family(tier, rng):
    out = []
    quick = tier == "quick"
    k = 0
    for box in ST_BOXES:
        lasts = [ival(0, 5), ival(0, -1), ival(0, 0), ival(0, (1 << 31) - 1), ival(1, 7), ival(1, (1 << 32) - 1), ":b 1", ":b 0", ":s $6162", ":s $",
                 dval(0x3ff8000000000000), ":p 1000", ":p 0", ":cp 1008", ":f 1010"]
        if box == ":named":
            lasts += [ival(2, -(1 << 31) - 1), ival(3, (1 << 32) + 7), ival(4, 1 << 32), ival(4, -1), ival(5, (1 << 64) - 1), ival(5, 1 << 63),
                      ":m $0102", ":m $", dval(0x3ff0000000000000, 0x3fe0000000000000)]
        for (cm, pm) in ST_MASKS:
            lives = [[obj(0, True, 0)], [obj(1, False, 3)], [obj(2, True, 1)], [ival(1, (1 << 32) - 1), obj(2, False, 2)],
                     [obj(0, False, 1), obj(1, True, 0)], [obj(1, True, 2), obj(0, False, 3)], [obj(0, True, 2), ":b 1"], [obj(1, False, 0), ":s $6162"]]
            for life in (lives[(cm + pm) % 2::2] if quick and (cm, pm) != (7, 7) else lives):
                for last in lasts:
                    k += 1
                    bs = [[last], [different_value(last)], life + [last], [obj((k + 1) % 3, k % 2 == 0, k % 4), last]]
                    if last.startswith(":i") and same_number_elsewhere(last, k):
                        bs.append([same_number_elsewhere(last, k)])
                        bs.append(life + [same_number_elsewhere(last, k + 1)])
                    bs.append([lasts[(k * 7) % len(lasts)]])
                    if quick and (cm, pm) != (7, 7):
                        bs = bs[:1] + [bs[1 + k % (len(bs) - 1)]]
                    for b in bs:
                        out.append(stl(box, cm, pm, life + [last], b))
                    # the new object on the left (object A is always the one in the box)
                    if k % 3 == 0 and box_takes(box, last):
                        out.append(stl(box, cm, pm, [last], life + [last]))
    n = 600 if quick else 40000
    pool = STALE + LAST_OTHERS
    for _ in range(n):
        box = rng.choice(ST_BOXES)
        cm, pm = rng.randrange(8), rng.randrange(8)

        def rs(b, lastone):
            c = rng.random()
            if not lastone and c < 0.5:
                return obj(rng.randrange(3), rng.random() < 0.5, rng.randrange(4))
            if c < 0.75:
                t = rng.randrange(6)
                z = rng.choice(RLAT) + rng.randrange(-2, 3) if rng.random() < 0.6 else rng.randrange(LO[t], HI[t] + 1)
                v = ival(t, min(max(z, LO[t]), HI[t]))
            else:
                v = rng.choice(pool + LAST_NAMED)
            return v if box_takes(b, v) else ival(rng.randrange(2), rng.randrange(0, 1 << 31))
        na = rng.choice([1, 2, 2, 2, 3, 3, 4])
        a = [rs(box, i == na - 1) for i in range(na)]
        c = rng.random()
        if c < 0.4:
            b = [a[-1]]
        elif c < 0.6:
            b = a[:-1] + [a[-1]] if box_takes(":named", a[-1]) else [a[-1]]
        elif c < 0.8 and a[-1].startswith(":i") and same_number_elsewhere(a[-1]):
            b = [rs(":named", False) for _ in range(rng.randrange(3))] + [same_number_elsewhere(a[-1], rng.randrange(6))]
        else:
            nb = rng.choice([1, 2, 3])
            b = [rs(":named", i == nb - 1) for i in range(nb)]
        out.append(stl(box, cm, pm, a, b))
    return out


# ---- by-content values at the edges of their representation ----
IFACES = [":eq", ":cpp", ":c"]


def eref(r):
    return "~" if r is None else "%x" % r


def em(ifc, ar, ra, la, rb, lb):
    return ":em %s %s %s %x %s %x" % (ifc, tb(ar), eref(ra), la, eref(rb), lb)


def es(ifc, ar, ra, rb):
    return ":es %s %s %s %s" % (ifc, tb(ar), eref(ra), eref(rb))


def ev(ifc, a, b):
    return ":ev %s %s %s" % (ifc, a, b)


def em_parts(s):
    t = s.split()
    ar = bytes.fromhex(t[2][1:])
    r = lambda x: None if x == "~" else int(x, 16)
    return t[1], ar, r(t[3]), int(t[4], 16), r(t[5]), int(t[6], 16)


def es_parts(s):
    t = s.split()
    r = lambda x: None if x == "~" else int(x, 16)
    return t[1], bytes.fromhex(t[2][1:]), r(t[3]), r(t[4])


def ev_parts(s):
    t = s.split()
    n = vlen(t[2])
    return t[1], t[2:2 + n], t[2 + n:]


FRAME_LENS = [1, 2, 3, 4, 7, 8, 9, 15, 16, 17, 31, 32, 33, 63, 64, 65, 127, 128, 255, 256, 257]


def frame_variants(x, rng):
    """(label, other buffer) for a frame x: what differs from x"""
    n = len(x)
    flip = lambda i: x[:i] + bytes([x[i] ^ (1 << rng.randrange(8))]) + x[i + 1:]
    vs = [("copy", x), ("last byte", flip(n - 1)), ("first byte", flip(0)), ("shorter", x[:-1]), ("longer", x + bytes([rng.randrange(256)]))]
    if n > 2:
        vs.append(("middle byte", flip(rng.randrange(1, n - 1))))
    return vs


def edge_family(tier, rng):
    out = []
    quick = tier == "quick"
    # every ordered pair of {NULL, every window} / {NULL, every char pointer} of every small arena, through every interface
    for ar in AL_MEM:
        wins = [(None, 0)] + [(o, l) for o in range(len(ar) + 1) for l in range(len(ar) - o + 1)]
        for ifc in IFACES:
            if quick and ifc != ":eq" and len(ar) > 3:
                # the mock interfaces on the larger arenas: every pair that has an empty or a NULL side, and a sample of the rest
                pairs = [(a, b) for a in wins for b in wins if a[1] == 0 or b[1] == 0 or a == b] + [(rng.choice(wins), rng.choice(wins)) for _ in range(60)]
            else:
                pairs = [(a, b) for a in wins for b in wins]
            out += [em(ifc, ar, a[0], a[1], b[0], b[1]) for (a, b) in pairs]
    for ar in AL_STR:
        refs = [None] + list(range(len(ar) + 1))
        out += [es(ifc, ar, a, b) for ifc in IFACES for a in refs for b in refs]
    # frames: a copy, one byte changed (last / first / middle), one byte shorter / longer; against (NULL, 0) and the empty windows
    for n in FRAME_LENS:
        x = bytes(rng.randrange(256) for _ in range(n))
        for (_, y) in frame_variants(x, rng):
            ar = x + y
            for ifc in (IFACES if n <= 33 or not quick else [rng.choice(IFACES)]):
                out += [em(ifc, ar, 0, n, n, len(y)), em(ifc, ar, n, len(y), 0, n)]
            out.append(ev(rng.choice(IFACES[1:]), ":m " + tb(x), ":m " + tb(y)))
        ifc = rng.choice(IFACES)
        out += [em(ifc, x, 0, n, None, 0), em(ifc, x, None, 0, 0, n), em(ifc, x, 0, n, n, 0), em(ifc, x, n, 0, 0, n), em(ifc, x, 0, n, 0, n),
                em(ifc, x, n, 0, None, 0), em(ifc, x, None, 0, n, 0), em(ifc, x, 0, 0, n, 0)]
    # every kind through the two mock interfaces: the boundary integers in all 36 type pairs, all pairs of the other kinds
    ints = [(t, z) for t in range(6) for z in RLAT if LO[t] <= z <= HI[t]]
    for (t1, z1), (t2, z2) in itertools.product(ints, ints):
        if quick and z1 != z2 and rng.random() < 0.8:
            continue
        out.append(ev(IFACES[1 + (t1 + t2 + (z1 & 1)) % 2], ival(t1, z1), ival(t2, z2)))
    oth = [":b 0", ":b 1"]
    oth += [":d %x %x" % (d, t) for d in DBL[:10] for t in (0, 0x3fe0000000000000, 0x7ff0000000000000)]
    oth += [":s " + tb(x) for x in STRS]
    for tag in (":p", ":cp", ":f"):
        oth += ["%s %x" % (tag, a) for a in (0, 0x1000, 0x1008)]
    oth += [":m " + tb(m) for m in MEMS]
    oth += [ival(0, -1), ival(1, 1), ival(5, (1 << 64) - 1), ival(0, 0)]
    kinds = {}
    for v in oth:
        kinds.setdefault(v.split()[0], []).append(v)
    for ifc in IFACES[1:]:
        for k1, l1 in kinds.items():
            for k2, l2 in kinds.items():
                if k1 == k2:
                    out += [ev(ifc, a, b) for a in l1 for b in l2 if k1 != ":d" or not quick or rng.random() < 0.3]
                else:
                    out += [ev(ifc, a, b) for a in l1[:3] for b in l2[:3]]
    # random arenas, windows, values
    n = 600 if quick else 40000
    for _ in range(n):
        ifc = rng.choice(IFACES)
        c = rng.random()
        ln = rng.randrange(0, 41)
        per = rng.choice([1, 2, 3, max(ln, 1)])
        unit = bytes(rng.choice([0, 0x61, 0x62, 0xff, rng.randrange(256)]) for _ in range(per))
        ar = (unit * (ln + 1))[:ln]
        if c < 0.55:
            def win():
                k = rng.random()
                if k < 0.2:
                    return (None, 0)
                o = rng.randrange(ln + 1)
                return (o, 0) if k < 0.4 else (o, rng.randrange(ln - o + 1))
            a = win()
            b = win()
            if rng.random() < 0.4 and b[0] is not None:
                l = min(a[1], ln - b[0])
                a, b = (a[0], l), (b[0], l)
            out.append(em(ifc, ar, a[0], a[1], b[0], b[1]))
        elif c < 0.75:
            r = lambda: None if rng.random() < 0.25 else rng.randrange(ln + 1)
            out.append(es(ifc, ar, r(), r()))
        else:
            t1, t2 = rng.randrange(6), rng.randrange(6)
            z1 = rng.choice(LATTICE) + rng.randrange(-2, 3)
            z1 = min(max(z1, LO[t1]), HI[t1])
            z2 = z1 if rng.random() < 0.6 and LO[t2] <= z1 <= HI[t2] else min(max(rng.choice(LATTICE), LO[t2]), HI[t2])
            out.append(ev(rng.choice(IFACES[1:]), ival(t1, z1), ival(t2, z2)))
    return out


def edge_relation(s):
    """which side is NULL, and how the two lengths lie to each other (buffers) / which side is NULL (strings)"""
    t = s.split()
    if t[0] == ":em":
        ifc, ar, ra, la, rb, lb = em_parts(s)
        nul = {(True, True): "both NULL", (True, False): "expectation NULL", (False, True): "actual NULL",
               (False, False): "same address" if ra == rb else "no NULL"}[(ra is None, rb is None)]
        ln = "both empty" if la == 0 and lb == 0 else ("one empty" if la == 0 or lb == 0 else ("same length" if la == lb else "different length"))
        return nul + ", " + ln
    ifc, ar, ra, rb = es_parts(s)
    return {(True, True): "both NULL", (True, False): "first NULL", (False, True): "second NULL",
            (False, False): "same pointer" if ra == rb else "no NULL"}[(ra is None, rb is None)]



def others():
    vs = [":b 0", ":b 1"]
    vs += [":d %x %x" % (d, t) for d in DBL for t in (0, 0x3fe0000000000000, 0x7ff0000000000000, 0x7ff8000000000000, 0xbff0000000000000)]
    vs += [":s " + tb(s) for s in STRS]
    for tag in (":p", ":cp", ":f"):
        vs += ["%s %x" % (tag, a) for a in (0, 0x1000, 0x1008)]
    vs += [":m " + tb(m) for m in MEMS]
    return vs


def generate(tier, rng):
    out = []
    ints = [(t, z) for t in range(6) for z in LATTICE if LO[t] <= z <= HI[t]]
    for (t1, z1), (t2, z2) in itertools.product(ints, ints):
        out.append(ival(t1, z1) + " " + ival(t2, z2))
    oth = others()
    # every kind against every kind (one representative each) + all same-kind pairs
    kinds = {}
    for v in oth:
        kinds.setdefault(v.split()[0], []).append(v)
    kinds[":i"] = [ival(0, -1), ival(1, 1), ival(5, (1 << 64) - 1), ival(0, 0), ival(3, 0x1000)]
    for k1, l1 in kinds.items():
        for k2, l2 in kinds.items():
            if k1 == k2:
                for a in l1:
                    for b in l2:
                        out.append(a + " " + b)
            else:
                for a in l1[:3]:
                    for b in l2[:3]:
                        out.append(a + " " + b)
    out += alias_family(tier, rng)
    out += read_family(tier, rng)
    out += reuse_family(tier, rng)
    out += edge_family(tier, rng)
    out += stale_family(tier, rng)
    n = 3000 if tier == "quick" else 200000
    for _ in range(n):
        t1, t2 = rng.randrange(6), rng.randrange(6)
        def rv(t):
            c = rng.random()
            if c < 0.4:
                v = rng.randrange(LO[t], HI[t] + 1)
            elif c < 0.7:
                v = rng.choice(LATTICE) + rng.randrange(-3, 4)
            else:
                v = (1 << rng.randrange(0, 65)) + rng.randrange(-2, 3)
                if rng.random() < 0.5:
                    v = -v
            return min(max(v, LO[t]), HI[t])
        z1 = rv(t1)
        z2 = z1 if rng.random() < 0.5 and LO[t2] <= z1 <= HI[t2] else rv(t2)
        out.append(ival(t1, z1) + " " + ival(t2, z2))
    if tier == "thorough":
        for _ in range(20000):
            d1 = rng.choice(DBL) if rng.random() < 0.5 else rng.getrandbits(64)
            d2 = d1 if rng.random() < 0.3 else (rng.choice(DBL) if rng.random() < 0.5 else d1 ^ (1 << rng.randrange(64)))
            t = rng.choice([0, 0x3fe0000000000000, 0x7ff0000000000000, 0x7ff8000000000000, rng.getrandbits(63)])
            out.append(":d %x %x :d %x 0" % (d1, t, d2))
    return out


def rd_parts(s):
    """(family, store path, accessor, stored tokens, default tokens) of a read scenario"""
    t = s.split()
    n = 1 if t[4] == ":none" else (3 if t[4] in (":i", ":d") else 2)
    return t[1], t[2], t[3], t[4:4 + n], t[4 + n:]


def nontrivial(s):
    t = s.split()
    if t[0] == ":st":
        box, cm, pm, a, b = st_parse(s)
        return st_has_object(a) or st_has_object(b)
    if t[0] == ":ru":
        box, fam, a, b = ru_parse(s)
        return len(a) > 1 or len(b) > 1
    if t[0] == ":rd":
        return t[4] != ":none"
    if t[0] in (":am", ":as", ":em", ":es"):
        return True
    if t[0] == ":ev":
        ifc, a, b = ev_parts(s)
        return a[0] == b[0]
    return t[0] == t[3 if t[0] in (":i", ":d") else 2]


def alias_relation(s):
    """how the two payloads of an aliased scenario lie to each other (addresses only)"""
    t = s.split()
    if t[0] == ":am":
        oa, la, ob, lb = (int(x, 16) for x in t[2:6])
        if oa == ob:
            return "same address, same length" if la == lb else "same address, different length"
        if la == lb:
            return "same length, overlapping" if abs(oa - ob) < la else "same length, disjoint"
        return "different address and length"
    oa, ob = int(t[2], 16), int(t[3], 16)
    return "same pointer" if oa == ob else "different pointers"


def stored_kind(st):
    if st[0] == ":i":
        return "int type %s" % st[1]
    return {":none": "nothing", ":b": "bool", ":d": "double", ":s": "string", ":p": "void*", ":cp": "const void*", ":f": "function pointer", ":m": "memory buffer"}[st[0]]


def ru_label(a):
    return "%s stored over %s" % (vkind(a[-1]), vkind(a[-2])) if len(a) > 1 else "a single store"


def st_label(l, cm, pm):
    objs = [v for v in l if v[0] == ":o"]
    if not objs:
        return "no custom-type life"
    ty = int(objs[-1][1], 16)
    return "custom-type life (comparator %s, copier %s)" % ("installed" if (cm >> ty) & 1 else "absent", "installed" if (pm >> ty) & 1 else "absent")


def classify(s):
    t = s.split()
    if t[0] == ":st":
        box, cm, pm, a, b = st_parse(s)
        return ["stale members %s: %s now after %s" % (box, vkind(a[-1]), st_label(a, cm, pm)),
                "stale members: partner %s after %s" % (vkind(b[-1]), st_label(b, cm, pm))]
    if t[0] == ":ru":
        box, fam, a, b = ru_parse(s)
        return ["re-used %s: %s" % (box, ru_label(a)), "re-used %s read through %s" % (box, fam), "re-used: %d stores / partner %d stores" % (len(a), len(b))]
    if t[0] == ":rd":
        fam, via, acc, st, d = rd_parts(s)
        return ["read %s: %s accessor of stored %s" % (fam, "integer" if acc in INT_ACCS else "other",
                                                        "integer" if st[0] == ":i" else ("nothing" if st[0] == ":none" else "non-integer")),
                "read via store path %s" % via]
    if t[0] in (":am", ":as"):
        return ["%s one allocation: %s" % ("buffers in" if t[0] == ":am" else "strings in", alias_relation(s))]
    if t[0] in (":em", ":es"):
        return ["edge %s via %s: %s" % ("buffers" if t[0] == ":em" else "strings", t[1], edge_relation(s))]
    if t[0] == ":ev":
        ifc, a, b = ev_parts(s)
        return ["edge values via %s: %s/%s" % (ifc, a[0], b[0])]
    k2 = t[3 if t[0] in (":i", ":d") else 2]
    if t[0] == ":i" and k2 == ":i":
        return ["int(%s,%s)" % (t[1], t[4])]
    return ["%s/%s" % (t[0], k2)]


def signature(s, o):
    t = s.split()
    if t[0] == ":st":
        box, cm, pm, a, b = st_parse(s)
        who = {(True, True): "both objects", (True, False): "the object in the box", (False, True): "the partner", (False, False): "neither object"}
        return "stale members: a built-in value on an object that had a custom-type life (%s)" % who[(st_has_object(a), st_has_object(b))]
    if t[0] == ":ru":
        box, fam, a, b = ru_parse(s)
        return "re-used %s read through %s: %s" % (box, fam, ru_label(a))
    if t[0] == ":rd":
        fam, via, acc, st, d = rd_parts(s)
        return "read %s %s of stored %s" % (fam, acc, stored_kind(st))
    if t[0] in (":am", ":as"):
        return "%s in one allocation, %s => %s" % ("memory buffers" if t[0] == ":am" else "strings", alias_relation(s), " ".join(o.split()[:2]))
    if t[0] in (":em", ":es"):
        return "edge %s: %s => %s" % ("memory buffers" if t[0] == ":em" else "strings", edge_relation(s), o)
    if t[0] == ":ev":
        ifc, a, b = ev_parts(s)
        if a[0] == ":i" and b[0] == ":i":
            return "edge values via %s: int pair types %s,%s" % (ifc, a[1], b[1])
        rel = ""
        if a[0] == b[0] and a[0] in (":m", ":s") and "~" not in (a[1], b[1]):
            rel = " same length" if len(a[1]) == len(b[1]) else " different length"
        return "edge values: %s/%s%s => %s" % (a[0], b[0], rel, o)
    if t[0] == ":i" and t[3] == ":i":
        return "int pair types %s,%s" % (t[1], t[4])
    return s + " => " + o

def shrink(s):
    """aliased scenarios: cut unused arena bytes, then shorten the windows; reads: C++ store path, plain default, a stored integer
    of smaller magnitude (boundary values first)"""
    t = s.split()
    if t[0] == ":st":
        box, cm, pm, a, b = st_parse(s)
        a = [" ".join(v) for v in a]; b = [" ".join(v) for v in b]
        # fewer stores, the plainest box, the partner a new object, fewer installed comparators / copiers, plain objects, smaller numbers
        if len(b) > 1:
            yield stl(box, cm, pm, a, b[-1:])
            yield stl(box, cm, pm, a, b[1:])
        for i in range(len(a) - 1):
            yield stl(box, cm, pm, a[:i] + a[i + 1:], b)
        if box == ":datac":
            yield stl(":data", cm, pm, a, b)
        if box != ":named":
            yield stl(":named", cm, pm, a, b)
        if b != a[-1:]:
            yield stl(box, cm, pm, a, a[-1:])
        if pm:
            yield stl(box, cm, 0, a, b)
        for i in range(3):
            if (cm >> i) & 1:
                yield stl(box, cm & ~(1 << i), pm, a, b)
            if (pm >> i) & 1:
                yield stl(box, cm, pm & ~(1 << i), a, b)
        for (l, which) in ((a, 0), (b, 1)):
            for i in range(len(l)):
                v = l[i].split()
                if v[0] == ":o" and v[1:] != ["0", "1", "0"]:
                    ty = int(v[1], 16)
                    cands = [":o %x 1 0" % ty]
                    if ty and ((cm >> ty) & 1, (pm >> ty) & 1) == (cm & 1, pm & 1):
                        cands.append(":o 0 1 0")
                    for c in cands:
                        if c != l[i]:
                            l2 = l[:i] + [c] + l[i + 1:]
                            yield stl(box, cm, pm, l2, b) if which == 0 else stl(box, cm, pm, a, l2)
        la, lb = a[-1].split(), b[-1].split()
        if la[0] == ":i" and lb[0] == ":i" and la[2] == lb[2]:
            ta, tb_, z = int(la[1], 16), int(lb[1], 16), int(la[2], 16)
            for c in sorted(set(c for c in RLAT + [7, z // 2] if abs(c) < abs(z) and LO[ta] <= c <= HI[ta] and LO[tb_] <= c <= HI[tb_]), key=abs):
                yield stl(box, cm, pm, a[:-1] + [ival(ta, c)], b[:-1] + [ival(tb_, c)])
        for (l, which) in ((a, 0), (b, 1)):
            for i in range(len(l) - 1, -1, -1):
                v = l[i].split()
                if v[0] == ":i":
                    ty = int(v[1], 16); z = int(v[2], 16)
                    for c in sorted(set(c for c in RLAT + [7, z // 2] if abs(c) < abs(z) and LO[ty] <= c <= HI[ty]), key=abs):
                        l2 = l[:i] + [ival(ty, c)] + l[i + 1:]
                        yield stl(box, cm, pm, l2, b) if which == 0 else stl(box, cm, pm, a, l2)
        return
    if t[0] == ":ru":
        box, fam, a, b = ru_parse(s)
        a = [" ".join(v) for v in a]; b = [" ".join(v) for v in b]
        # fewer stores, the plainest box and family, the partner a new object; then smaller numbers
        if len(b) > 1:
            yield ru(box, fam, a, b[-1:])
            yield ru(box, fam, a, b[1:])
        for i in range(len(a) - 1):
            yield ru(box, fam, a[:i] + a[i + 1:], b)
        if fam != ":nv":
            yield ru(box, ":nv", a, b)
        if box == ":retc":
            yield ru(":ret", fam, a, b)
        if box == ":datac":
            yield ru(":data", fam, a, b)
        if box != ":named" and fam == ":nv":
            yield ru(":named", fam, a, b)
        if b != a[-1:]:
            yield ru(box, fam, a, a[-1:])
        la, lb = a[-1].split(), b[-1].split()
        if la[0] == ":i" and lb[0] == ":i" and la[2] == lb[2]:          # the same number on both sides: shrink it on both
            ta, tb_, z = int(la[1], 16), int(lb[1], 16), int(la[2], 16)
            for c in sorted(set(c for c in RLAT + [7, z // 2] if abs(c) < abs(z) and LO[ta] <= c <= HI[ta] and LO[tb_] <= c <= HI[tb_]), key=abs):
                yield ru(box, fam, a[:-1] + [ival(ta, c)], b[:-1] + [ival(tb_, c)])
        for (l, which) in ((a, 0), (b, 1)):
            for i in range(len(l) - 1, -1, -1):
                v = l[i].split()
                if v[0] == ":i":
                    ty = int(v[1], 16); z = int(v[2], 16)
                    cands = sorted(set(c for c in RLAT + [7, (1 << 32) + 7, z // 2, 1 << max(abs(z).bit_length() - 1, 0), -(1 << max(abs(z).bit_length() - 1, 0))]
                                       if abs(c) < abs(z) and LO[ty] <= c <= HI[ty]), key=abs)
                    for c in cands:
                        l2 = l[:i] + [ival(ty, c)] + l[i + 1:]
                        yield ru(box, fam, l2, b) if which == 0 else ru(box, fam, a, l2)
        return
    if t[0] == ":rd":
        fam, via, acc, st, d = rd_parts(s)
        if via == ":c":
            yield rd(fam, ":cpp", acc, " ".join(st), " ".join(d))
        if d[0] == ":i" and d[1] != "0":
            yield rd(fam, via, acc, " ".join(st), ":i 0")
        if st[0] == ":i":
            ty = int(st[1], 16); z = int(st[2], 16)
            cands = sorted(set(c for c in RLAT + [z // 2, z - 1 if z > 0 else z + 1, 1 << max(abs(z).bit_length() - 1, 0), -(1 << max(abs(z).bit_length() - 1, 0))]
                               if abs(c) < abs(z) and LO[ty] <= c <= HI[ty]), key=abs)
            for c in cands:
                yield rd(fam, via, acc, ival(ty, c), " ".join(d))
        return
    if t[0] == ":em":
        # the plainest interface, the unused arena bytes cut, shorter windows, plain bytes (every candidate stays a valid scenario)
        ifc, ar, ra, la, rb, lb = em_parts(s)
        if ifc != ":eq":
            yield em(":eq", ar, ra, la, rb, lb)
        if ifc == ":c":
            yield em(":cpp", ar, ra, la, rb, lb)
        used = [(r, l) for (r, l) in ((ra, la), (rb, lb)) if r is not None]
        lo = min([r for (r, l) in used] + [len(ar)]); hi = max([r + l for (r, l) in used] + [lo])
        if lo > 0 or hi < len(ar):
            sh = lambda r: None if r is None else r - lo
            yield em(ifc, ar[lo:hi], sh(ra), la, sh(rb), lb)
        if la > 0 and lb > 0:
            yield em(ifc, ar, ra, la - 1, rb, lb - 1)
            yield em(ifc, ar, ra, la // 2, rb, lb // 2)
            yield em(ifc, ar, ra + 1, la - 1, rb + 1, lb - 1)
        if la > 0:
            yield em(ifc, ar, ra, la - 1, rb, lb)
        if lb > 0:
            yield em(ifc, ar, ra, la, rb, lb - 1)
        if ra is not None and rb is not None and ra != rb:
            if ra + lb <= len(ar):
                yield em(ifc, ar, ra, la, ra, lb)
            elif rb + la <= len(ar):
                yield em(ifc, ar, rb, la, rb, lb)
        if any(c != 0x61 for c in ar):
            yield em(ifc, b"a" * len(ar), ra, la, rb, lb)
        return
    if t[0] == ":es":
        ifc, ar, ra, rb = es_parts(s)
        if ifc != ":eq":
            yield es(":eq", ar, ra, rb)
        if ifc == ":c":
            yield es(":cpp", ar, ra, rb)
        refs = [r for r in (ra, rb) if r is not None]
        lo = min(refs + [len(ar)])
        if lo > 0:
            yield es(ifc, ar[lo:], None if ra is None else ra - lo, None if rb is None else rb - lo)
        if len(ar) > max(refs + [0]):
            yield es(ifc, ar[:-1], ra, rb)
        return
    if t[0] == ":ev":
        ifc, a, b = ev_parts(s)
        if ifc == ":c":
            yield ev(":cpp", " ".join(a), " ".join(b))
        if a[0] == ":i" and b[0] == ":i":
            ta, tb_, za, zb = int(a[1], 16), int(b[1], 16), int(a[2], 16), int(b[2], 16)
            if za == zb:
                for c in sorted(set(c for c in RLAT + [7, za // 2] if abs(c) < abs(za) and LO[ta] <= c <= HI[ta] and LO[tb_] <= c <= HI[tb_]), key=abs):
                    yield ev(ifc, ival(ta, c), ival(tb_, c))
            else:
                for c in sorted(set(c for c in RLAT + [7, za // 2] if abs(c) < abs(za) and c != zb and LO[ta] <= c <= HI[ta]), key=abs):
                    yield ev(ifc, ival(ta, c), " ".join(b))
                for c in sorted(set(c for c in RLAT + [7, zb // 2] if abs(c) < abs(zb) and c != za and LO[tb_] <= c <= HI[tb_]), key=abs):
                    yield ev(ifc, " ".join(a), ival(tb_, c))
        if a[0] == b[0] and a[0] in (":m", ":s") and "~" not in (a[1], b[1]):
            # both payloads cut alike: the front half off, the first byte off, the last byte off
            x = bytes.fromhex(a[1][1:]); y = bytes.fromhex(b[1][1:])
            if len(x) > 0 and len(y) > 0:
                for k in (min(len(x), len(y)) // 2, 1):
                    if k > 0:
                        yield ev(ifc, "%s %s" % (a[0], tb(x[k:])), "%s %s" % (b[0], tb(y[k:])))
                yield ev(ifc, "%s %s" % (a[0], tb(x[:-1])), "%s %s" % (b[0], tb(y[:-1])))
        for (v, first) in ((a, True), (b, False)):
            if v[0] in (":m", ":s") and v[1] not in ("~", "$"):
                x = bytes.fromhex(v[1][1:])
                for y in (x[:-1], x[1:], x[:len(x) // 2]):
                    w = "%s %s" % (v[0], tb(y))
                    yield ev(ifc, w, " ".join(b)) if first else ev(ifc, " ".join(a), w)
        return
    if t[0] == ":am":
        ar = bytes.fromhex(t[1][1:]); oa, la, ob, lb = (int(x, 16) for x in t[2:6])
        lo, hi = min(oa, ob), max(oa + la, ob + lb)
        if lo > 0 or hi < len(ar):
            yield alias_mem(ar[lo:hi], oa - lo, la, ob - lo, lb)
        if la > 0 and lb > 0:
            yield alias_mem(ar, oa, la - 1, ob, lb - 1)
            yield alias_mem(ar, oa, la // 2, ob, lb // 2)
        if la > 0:
            yield alias_mem(ar, oa, la - 1, ob, lb)
        if lb > 0:
            yield alias_mem(ar, oa, la, ob, lb - 1)
        if any(c != 0x61 for c in ar):
            yield alias_mem(b"a" * len(ar), oa, la, ob, lb)
    elif t[0] == ":as":
        ar = bytes.fromhex(t[1][1:]); oa, ob = int(t[2], 16), int(t[3], 16)
        lo = min(oa, ob)
        if lo > 0:
            yield alias_str(ar[lo:], oa - lo, ob - lo)
        if len(ar) > max(oa, ob):
            yield alias_str(ar[:-1], oa, ob)


LEVEL_TEXT = ("Machine-checked (Coq) theorems over an executable model of MockNamedValue::equals (all 36 integer type pairs with the C casts and "
              "usual arithmetic conversions written out) and of the six integer getters: equality iff same mathematical integer, symmetry, "
              "cross-kind inequality, NaN, getter exactness/totality; every family of read-back accessors (actual call, MockSupport, the C table, the "
              "MockValue_c union; with and without default) is proved to hand back the exact stored integer or nothing, and a value of its own type only; for strings and memory buffers that share one allocation the model compares at "
              "addresses (MemCmp loop over one arena) and is proved to answer by length and content only, whatever the addresses; re-used value objects "
              "(a second / third store into one MockNamedValue, return value or setData slot) are modelled with the stale bytes of the union kept in the state, "
              "and every read and both comparisons are proved to be functions of the last store only; by-content values at the edges of their representation "
              "(a buffer given as (NULL, 0) on either side or both, empty windows at any address, the same object on both sides, a NULL char pointer) are run "
              "at ADDRESSES in a memory with no object at 0, through equals, the C++ mock interface and the C table, and proved never to read outside an object "
              "and to answer by length and content alone (two empty buffers equal whatever the addresses; a null-guarded MemCmp refuted); value objects whose earlier life was a custom-type object "
              "(setObjectPointer / setConstObjectPointer, setDataObject on the mock and the C table, with a comparator and / or copier in the repository) carry the stale "
              "comparator_ / copier_ members in the model's state, and for ANY stale members, repository and user comparator equals and the getters are proved to be "
              "functions of the last built-in store (a comparator consulted before the built-in types refuted). Tied to the code by an exhaustive lattice + random differential run of the "
              "extracted model against the real class, with the extracted spec evaluated on the implementation's answers.")
LEVEL_NOTE = ("Trusted: Coq kernel, extraction (ExtrOcamlBasic), the harness and generators, LP64. Modelled not verified: the C++ itself; doubles other "
              "than NaN are decided by C03's model of doubles_equal; custom-type comparators are in the model only as stale members of an object whose current value is of a built-in type (object-against-object comparison through a comparator is not constrained); the accessor forwarding table is "
              "hand-written and tied to the code by observation (spec constrains integer read-back only; the other accessors are compared with the model); "
              "the union layout of the re-used object (little endian, which bytes each setter writes) is hand-written too, and the harness decides a failed STRCMP_EQUAL "
              "of a getter in a shell of its own (QuietShell: the library's StrCmp, no failure text) for the re-use scenarios; the mock interfaces are modelled as "
              "`the call is fulfilled iff expected.equals(actual)` (one expectation, one parameter) and observed as `the test did not fail`. Flocq brings the stdlib axioms "
              "classic, functional_extensionality_dep, sig_forall_dec, sig_not_dec (named by Print Assumptions in the evidence).")
TECHNIQUE = "Coq proof over hand-written executable model + extracted-model/implementation correspondence check (differential, exhaustive boundary lattice)"
READY = True
