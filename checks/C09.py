"""C09 -- mock parameter values compare by mathematical value, symmetrically.
Scenario: two values.  value ::= :b 0|1 | :i <ty 0..5> <z> | :d <bits> <tolbits> | :s <bytes|~> | :p a | :cp a | :f a | :m <bytes>
Observation: equals(a,b) equals(b,a) and the six integer getters applied to a ('~' = the getter failed the test)."""
import itertools
from vlib import tz, tb
ID = "C09"
FLAVOURS = ["asan"]
HARNESS_SRCS = ["harness/C09.cpp"]
RULE = ("exhaustive over the 36 integer type pairs x boundary lattice {min, -2^31-1..-2^31+1, -1,0,1, 2^31-1..2^31+1, 2^32-1..2^32+1, "
        "2^63-1, 2^63, 2^64-1} (intersected with each type), all pairs of the 8 value kinds, strings incl. NULL/empty/embedded "
        "differences, buffers of differing length, double classes incl. NaN/inf; thorough adds random 64-bit values. "
        "non-trivial = the two values are of the same kind (so the comparison is not decided by the tag alone) or a getter applies")
ASSUMPTIONS = ["LP64 data model (int 32, long 64, long long 64)", "values are in range of their declared C type (setValue takes a T)"]
LO = [-(1 << 31), 0, -(1 << 63), 0, -(1 << 63), 0]
HI = [(1 << 31) - 1, (1 << 32) - 1, (1 << 63) - 1, (1 << 64) - 1, (1 << 63) - 1, (1 << 64) - 1]
LATTICE = sorted(set([-(1 << 63), -(1 << 63) + 1, -(1 << 31) - 1, -(1 << 31), -(1 << 31) + 1, -129, -128, -2, -1, 0, 1, 2, 127, 128, 255, 256,
                      (1 << 31) - 1, 1 << 31, (1 << 31) + 1, (1 << 32) - 1, 1 << 32, (1 << 32) + 1, (1 << 63) - 1, 1 << 63, (1 << 63) + 1,
                      (1 << 64) - 2, (1 << 64) - 1]))
DBL = [0x0, 0x8000000000000000, 0x1, 0x3ff0000000000000, 0x3ff0000000000001, 0xbff0000000000000, 0x7fefffffffffffff,
       0x7ff0000000000000, 0xfff0000000000000, 0x7ff8000000000000, 0xfff8000000000001, 0x3fe0000000000000, 0x4000000000000000]
STRS = [None, b"", b"a", b"A", b"ab", b"ab\x00c", b"abc", b"\xff\x80", b"abd"]
MEMS = [b"", b"\x00", b"\x00\x00", b"ab", b"ab\x00", b"ac", b"\xff"]


def ival(t, z):
    return ":i %x %s" % (t, tz(z))


def others():
    vs = [":b 0", ":b 1"]
    vs += [":d %x %x" % (d, t) for d in DBL for t in (0, 0x3fe0000000000000, 0x7ff0000000000000, 0x7ff8000000000000, 0xbff0000000000000)]
    vs += [":s " + tb(s) for s in STRS]
    for tag in (":p", ":cp", ":f"):
        vs += ["%s %x" % (tag, a) for a in (0, 0x1000, 0x1008)]
    vs += [":m " + tb(m) for m in MEMS]
    return vs


def generate(tier, rng):
    out = []
    ints = [(t, z) for t in range(6) for z in LATTICE if LO[t] <= z <= HI[t]]
    for (t1, z1), (t2, z2) in itertools.product(ints, ints):
        out.append(ival(t1, z1) + " " + ival(t2, z2))
    oth = others()
    # every kind against every kind (one representative each) + all same-kind pairs
    kinds = {}
    for v in oth:
        kinds.setdefault(v.split()[0], []).append(v)
    kinds[":i"] = [ival(0, -1), ival(1, 1), ival(5, (1 << 64) - 1), ival(0, 0), ival(3, 0x1000)]
    for k1, l1 in kinds.items():
        for k2, l2 in kinds.items():
            if k1 == k2:
                for a in l1:
                    for b in l2:
                        out.append(a + " " + b)
            else:
                for a in l1[:3]:
                    for b in l2[:3]:
                        out.append(a + " " + b)
    n = 3000 if tier == "quick" else 200000
    for _ in range(n):
        t1, t2 = rng.randrange(6), rng.randrange(6)
        def rv(t):
            c = rng.random()
            if c < 0.4:
                v = rng.randrange(LO[t], HI[t] + 1)
            elif c < 0.7:
                v = rng.choice(LATTICE) + rng.randrange(-3, 4)
            else:
                v = (1 << rng.randrange(0, 65)) + rng.randrange(-2, 3)
                if rng.random() < 0.5:
                    v = -v
            return min(max(v, LO[t]), HI[t])
        z1 = rv(t1)
        z2 = z1 if rng.random() < 0.5 and LO[t2] <= z1 <= HI[t2] else rv(t2)
        out.append(ival(t1, z1) + " " + ival(t2, z2))
    if tier == "thorough":
        for _ in range(20000):
            d1 = rng.choice(DBL) if rng.random() < 0.5 else rng.getrandbits(64)
            d2 = d1 if rng.random() < 0.3 else (rng.choice(DBL) if rng.random() < 0.5 else d1 ^ (1 << rng.randrange(64)))
            t = rng.choice([0, 0x3fe0000000000000, 0x7ff0000000000000, 0x7ff8000000000000, rng.getrandbits(63)])
            out.append(":d %x %x :d %x 0" % (d1, t, d2))
    return out


def nontrivial(s):
    t = s.split()
    return t[0] == t[3 if t[0] in (":i", ":d") else 2]


def classify(s):
    t = s.split()
    k2 = t[3 if t[0] in (":i", ":d") else 2]
    if t[0] == ":i" and k2 == ":i":
        return ["int(%s,%s)" % (t[1], t[4])]
    return ["%s/%s" % (t[0], k2)]


def signature(s, o):
    t = s.split()
    if t[0] == ":i" and t[3] == ":i":
        return "int pair types %s,%s" % (t[1], t[4])
    return s + " => " + o

LEVEL_TEXT = ("Machine-checked (Coq) theorems over an executable model of MockNamedValue::equals (all 36 integer type pairs with the C casts and "
              "usual arithmetic conversions written out) and of the six integer getters: equality iff same mathematical integer, symmetry, "
              "cross-kind inequality, NaN, getter exactness/totality. Tied to the code by an exhaustive lattice + random differential run of the "
              "extracted model against the real class, with the extracted spec evaluated on the implementation's answers.")
LEVEL_NOTE = ("Trusted: Coq kernel, extraction (ExtrOcamlBasic), the harness and generators, LP64. Modelled not verified: the C++ itself; doubles other "
              "than NaN are decided by C03's model of doubles_equal; custom-type comparators are outside the model. Flocq brings the stdlib axioms "
              "classic, functional_extensionality_dep, sig_forall_dec, sig_not_dec (named by Print Assumptions in the evidence).")
TECHNIQUE = "Coq proof over hand-written executable model + extracted-model/implementation correspondence check (differential, exhaustive boundary lattice)"
READY = True
