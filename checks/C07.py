"""C07 -- per-test leak verdict: leaking tests fail, clean ones pass, blame is correct.
Scenario:  <mode> <tbd> <pre> <ntests> { <before> <ipre> <setup> <body> <teardown> <ipost> } <tail>
   list ::= <n> stmt*n      stmt ::= :a id size kind | :f id | :r id size | :x | :e n | :i
                                    | :pn j shared | :pd j | :pa j id size | :pf j id | :pr j id size | :pb j | :pe j | :pq j k
   (:p* = statements about FURTHER MemoryLeakWarningPlugin instances q[j]: construct on a private detector / on the runner's detector,
   destroy, allocate/release/realloc through the private detector, q[j]->preTestAction / postTestAction with a TestResult of its own,
   q[j]->FinalReport(k); they may stand in any list but <pre>)
   mode 0 = local detector handed to the plugin (blocks through allocMemory/deallocMemory), 1 = fresh global detector (blocks
   through operator new / new [] / cpputest_malloc); tbd = FinalReport(toBeDeletedLeaks); <pre> = statements run before the plugin
   is created (detector disabled); <before> = pre-action of a plugin installed after the leak plugin (runs before the leak
   plugin's pre-action); <ipre>/<ipost> = pre-/post-action of a plugin installed before the leak plugin (run inside the checking
   window; :x there adds a failure without leaving); <tail> = statements after the last test, before FinalReport.
Observation: <err> <ntests> { nfail nleak noleaks many total k (ordinal size)^k } <stray> <empty> <noleaks> <many> <total> k (ordinal size)^k
             <nsec> { 0 j nfail nleak noleaks many total k (ordinal size)^k | 1 j empty noleaks many total k (ordinal size)^k }"""
ID = "C07"
FLAVOURS = ["asan"]
HARNESS_SRCS = ["harness/C07.cpp"]
PER_TIMEOUT = 20.0
CRASH_IS_VIOLATION = True
RULE = ("random programs of 1-30 scripted tests (both ways of reaching the detector), each with 0-12 allocations/releases by block id "
        "spread over setup/body/teardown, the pre-action of a plugin that runs before the leak plugin's, and the pre/post actions of a "
        "plugin that runs inside the checking window (which may also report failures and declare leaks); blocks obtained before the plugin "
        "exists; ~40% of the releases name blocks of earlier tests or of code outside tests; block ids (addresses) are reused after "
        "release; cpputest_realloc of own, earlier and NULL blocks; an own failing check at any position of any phase (skipping the rest of the phase, and the body after a failed setup, "
        "with statements that must not run placed behind it); EXPECT_N_LEAKS with n in {0, L, L-1, L+1, random} at any position (also "
        "behind the failing check, also twice), IGNORE_ALL_LEAKS_IN_TEST (also twice); leaks placed in each of the three phases; "
        "FinalReport(k) with k in {0, outstanding, outstanding+-1}; reports kept below the 4096-byte buffer. "
        "In ~55% of the programs further MemoryLeakWarningPlugin instances are woven in at executed positions (before / between / inside / "
        "after tests, a few behind failing checks where they never run): constructed on a private detector or on the runner's detector "
        "(the latter outside the checking window only), destroyed in any order, slots reused, several alive at once; blocks obtained / "
        "released / reallocated through the private detector, also before the instance's first preTestAction; the instance's own "
        "pre/postTestAction around such statements (leaking and clean) with a TestResult of its own; its FinalReport(k) with "
        "k in {0, outstanding, outstanding+-1}; firstPlugin_ starts NULL and is left to the code, so that tests using the macros after "
        "another instance was constructed / destroyed are frequent (styles: construct+destroy early, allocate early + report later, nested tests). "
        "non-trivial = at least two tests, one block outliving its test and one release of an earlier test's block or an expectation")
ASSUMPTIONS = ["new/delete overloads are on (otherwise the plugin only prints a warning)",
               "the test does not call enable()/disable()/startChecking() on the detector itself, and does not misuse memory (C06)",
               "the underlying allocator does not fail and never returns a block that is still in use",
               "cpputest_realloc is given malloc-family blocks or NULL only (anything else is a mismatch report, C06)",
               "plugins other than the leak plugin add their failures to the TestResult (the plugin compares failure counts)",
               "reports stay below the 4096-byte buffer (C14); beyond it only subset + total are demanded",
               "tests run in the current process; failure counts stay below 2^32",
               "the runner's plugin is the first MemoryLeakWarningPlugin of the process and outlives the run (as in CommandLineTestRunner); the macros "
               "after the death of the first plugin go through a dangling pointer",
               "no plugin is constructed ON THE RUNNER'S DETECTOR inside a test (its constructor calls enable() there: the same as the test calling "
               "enable() itself); statements through another instance go through a private detector of that instance",
               "an instance's FinalReport is not asked between its preTestAction and its postTestAction"]
BEFORE, IPRE, SETUP, BODY, TEARDOWN, IPOST = range(6)
MAXID = 4096
NSLOT = 8
ARITY = {":a": 3, ":f": 1, ":r": 2, ":x": 0, ":e": 1, ":i": 0,
         ":pn": 2, ":pd": 1, ":pa": 3, ":pf": 2, ":pr": 3, ":pb": 1, ":pe": 1, ":pq": 2}


# ----------------------------------------------------------------------------- reading a scenario
def parse(s):
    t = s.split()
    pos = [2]

    def lst():
        n = int(t[pos[0]], 16)
        pos[0] += 1
        out = []
        for _ in range(n):
            k = t[pos[0]]
            ar = ARITY[k]
            out.append(tuple([k] + [int(x, 16) for x in t[pos[0] + 1:pos[0] + 1 + ar]]))
            pos[0] += 1 + ar
        return out
    mode, tbd = int(t[0], 16), int(t[1], 16)
    pre = lst()
    nt = int(t[pos[0]], 16)
    pos[0] += 1
    tests = []
    for _ in range(nt):
        tests.append([lst(), lst(), lst(), lst(), lst(), lst()])
    tail = lst()
    return mode, tbd, pre, tests, tail


def fmt_list(l):
    return " ".join(["%x" % len(l)] + [" ".join([st[0]] + ["%x" % v for v in st[1:]]) for st in l])


def fmt(mode, tbd, pre, tests, tail):
    return " ".join(["%x %x" % (mode, tbd), fmt_list(pre), "%x" % len(tests)] + [" ".join(fmt_list(p) for p in t) for t in tests] + [fmt_list(tail)])




def upto_fail(l):
    out = []
    for st in l:
        out.append(st)
        if st[0] == ":x":
            return out, True
    return out, False


def executed(t):
    a, fa = upto_fail(t[SETUP])
    b = [] if fa else upto_fail(t[BODY])[0]
    return t[IPRE] + a + b + upto_fail(t[TEARDOWN])[0] + t[IPOST]


m_executed = executed      # the statements about other instances stand in the same lists


def leaked(base, l):
    """a reallocation is a release followed by an allocation"""
    out = []
    for i, st in enumerate(l):
        if st[0] in (":a", ":r"):
            if not any(x[0] in (":f", ":r") and x[1] == st[1] for x in l[i + 1:]):
                out.append((base, st[2]))
            base += 1
    return out


def allocs(l):
    return sum(1 for st in l if st[0] in (":a", ":r"))


def declared(ex):
    e = 0
    for st in ex:
        if st[0] == ":e":
            e = st[1]
    return e


def trace(tests, tail):
    tr = []
    for t in tests:
        tr += t[0] + executed(t)
    return tr + tail


def is_inst(st):
    return st[0].startswith(":p")


class Insts:
    """what the text says about the further instances (mirror of tstep / demand in coq/C07_ModelM.v)"""

    def __init__(self):
        self.al = {}          # slot -> dict(shared, text, win)

    def step(self, st):
        """-> (ok, demand) ; demand = None | ("post", j, base, W) | ("final", j, out, k)"""
        k = st[0]
        if not is_inst(st):
            return True, None
        j = st[1]
        if k == ":pn":
            if j >= NSLOT or j in self.al or st[2] > 1:
                return False, None
            self.al[j] = dict(shared=bool(st[2]), text=[], win=None)
            return True, None
        t = self.al.get(j)
        if t is None:
            return False, None
        if k == ":pd":
            del self.al[j]
            return True, None
        if t["shared"]:
            return False, None
        allt = t["text"] + (t["win"] or [])
        if k in (":pa", ":pf", ":pr"):
            b = (":a", st[2], st[3], 2) if k == ":pa" else (":f", st[2]) if k == ":pf" else (":r", st[2], st[3])
            if not trace_ok(allt + [b]):
                return False, None
            (t["win"] if t["win"] is not None else t["text"]).append(b)
            return True, None
        if k == ":pb":
            if t["win"] is not None:
                return False, None
            t["win"] = []
            return True, None
        if k == ":pe":
            if t["win"] is None:
                return False, None
            d = ("post", j, 1 + allocs(t["text"]), list(t["win"]))
            t["text"] = allt
            t["win"] = None
            return True, d
        if k == ":pq":
            if t["win"] is not None or st[2] >= 1 << 32:
                return False, None
            return True, ("final", j, leaked(1, t["text"]), st[2])
        return False, None


def trace_ok(l):
    live = {}
    for st in l:
        if st[0] == ":a":
            if st[1] in live or st[1] >= MAXID or st[2] > 64 or st[3] > 2:
                return False
            live[st[1]] = st[3]
        elif st[0] == ":r":
            if live.get(st[1], 2) != 2 or st[1] >= MAXID or st[2] > 64:
                return False
            live[st[1]] = 2
        elif st[0] == ":f":
            live.pop(st[1], None)
        elif st[0] == ":e" and st[1] >= 1 << 32:
            return False
    return True


def py_valid(pre, tests, tail):
    for t in tests:
        if any(st[0] not in (":a", ":f", ":r") and not is_inst(st) for st in t[0]):
            return False
        for p in (IPRE, SETUP, BODY, TEARDOWN, IPOST):
            if any(st[0] == ":pn" and st[2] for st in t[p]):      # a plugin on the runner's detector constructed inside the window
                return False
    if any(st[0] not in (":a", ":f", ":r") and not is_inst(st) for st in tail):
        return False
    if any(st[0] not in (":a", ":f", ":r") for st in pre):
        return False
    tr = trace(tests, tail)
    if not trace_ok([st for st in pre + tr if not is_inst(st)]):
        return False
    ins = Insts()
    for st in tr:
        if not ins.step(st)[0]:
            return False
    return True


def report_bytes(ents):
    return sum(115 + 80 * ((sz + 15) // 16) for _, sz in ents) + 60


# ----------------------------------------------------------------------------- generation
def gen_program(rng, big=False):
    mode = rng.randrange(2)
    nt = rng.choice([1, 2, 2, 3, 3, 4, 5, 6, 8]) if not big else rng.randrange(8, 31)
    maxops = rng.choice([2, 4, 6, 12])
    idpool = rng.choice([4, 8, 40, 200])         # small pools force address reuse
    p_fail = rng.choice([0.0, 0.15, 0.3, 0.6])
    p_inner = rng.choice([0.0, 0.0, 0.3, 0.7])   # how often the inner plugin does something
    live = {}                                    # id -> index of the test that allocated it (-1: outside any test, -2: before the plugin)
    kind = {}                                    # id -> allocator family of the block that had this id last
    p_realloc = rng.choice([0.0, 0.1, 0.25])
    tests = []

    def size():
        return rng.choice([0, 1, 1, 2, 3, 8, 16]) if rng.random() < 0.9 else rng.randrange(17, 65)

    def mem_op(owner, p_old):
        """one alloc/free statement that is valid against `live` (or None)"""
        mine = [i for i, o in live.items() if o == owner]
        old = [i for i, o in live.items() if o != owner]
        c = rng.random()
        if rng.random() < p_realloc:
            # cpputest_realloc of a malloc block of this test / of an earlier test / of a NULL pointer
            cand = [i for i in live if kind[i] == 2] + [i for i in range(idpool) if i not in live][:2]
            if cand:
                i = rng.choice(cand)
                live[i] = owner
                kind[i] = 2
                return (":r", i, size())
        if c < 0.5 or not live:
            free_ids = [i for i in range(idpool) if i not in live]
            if not free_ids:
                return None
            i = rng.choice(free_ids)
            live[i] = owner
            kind[i] = rng.choice([0, 1, 2, 2])
            return (":a", i, size(), kind[i])
        if rng.random() < p_old and old:
            i = rng.choice(old)
        elif mine:
            i = rng.choice(mine)
        elif rng.random() < 0.3:
            i = rng.randrange(idpool + 2)        # p[id] may be NULL: nothing happens
        else:
            return None
        live.pop(i, None)
        return (":f", i)

    def mem_ops(n, owner, p_old):
        return [st for st in (mem_op(owner, p_old) for _ in range(n)) if st]

    def junk():
        """a statement that never runs (behind a failing check): anything, also allocations of ids in use"""
        c = rng.random()
        if c < 0.35:
            return (":a", rng.randrange(idpool), size(), rng.randrange(3))
        if c < 0.45:
            return (":r", rng.randrange(idpool), size())
        if c < 0.6:
            return (":f", rng.randrange(idpool))
        if c < 0.8:
            return (":e", rng.randrange(4))
        return rng.choice([(":i",), (":x",)])

    def phase(n, owner, dead, fail_at):
        ops = []
        for k in range(n + 1):
            if k == fail_at:
                ops.append((":x",))
                dead = True
            if k < n:
                st = junk() if dead else mem_op(owner, 0.4)
                if st:
                    ops.append(st)
        return ops, dead

    def inner(owner):
        """action of the inner plugin: a few blocks, sometimes a failure it reports (the action goes on)"""
        if rng.random() >= p_inner:
            return []
        ops = mem_ops(rng.choice([0, 1, 1, 2]), owner, 0.3)
        if rng.random() < 0.3:
            ops.insert(rng.randrange(len(ops) + 1), (":x",))
        return ops

    pre = mem_ops(rng.choice([0, 0, 0, 1, 2, 4]), -2, 0.3)
    base = 1 + allocs(pre)
    for ti in range(nt):
        saved = dict(live)
        for _attempt in range(30):
            live.clear()
            live.update(saved)
            before = mem_ops(rng.choice([0, 0, 0, 1, 2]), -1, 0.5)
            n = rng.randrange(maxops + 1)
            cut = sorted(rng.randrange(n + 1) for _ in range(2))
            style = rng.random()
            if style < 0.15:
                cut = [0, n]          # everything in the body
            elif style < 0.25:
                cut = [n, n]          # everything in setup
            elif style < 0.35:
                cut = [0, 0]          # everything in teardown
            sizes = [cut[0], cut[1] - cut[0], n - cut[1]]
            fails = [rng.randrange(sizes[p] + 1) if rng.random() < p_fail / (1 if p == 1 else 2) else -1 for p in range(3)]
            ipre = inner(ti)
            s0, d0 = phase(sizes[0], ti, False, fails[0])
            s1, _ = phase(sizes[1], ti, d0, fails[1])
            s2, _ = phase(sizes[2], ti, False, fails[2])
            ipost = inner(ti)
            t = [before, ipre, s0, s1, s2, ipost]
            L = leaked(base + allocs(before), executed(t))
            if report_bytes(L) <= 3000:
                break
        else:
            live.clear()
            live.update(saved)
            t = [[], [], [], [], [], []]
            L = []
        # declarations: the number declared relative to the number really leaked; anywhere, also behind the failing check,
        # also by the inner plugin; the ignore request sometimes twice
        nl = len(L)
        if rng.random() < 0.55:
            for _ in range(rng.choice([1, 1, 2])):
                n = rng.choice([nl, nl, max(nl - 1, 0), nl + 1, 0, rng.randrange(6)])
                p = rng.choice([SETUP, BODY, TEARDOWN, BODY, IPRE, IPOST])
                t[p].insert(rng.randrange(len(t[p]) + 1), (":e", n))
        if rng.random() < 0.2:
            for _ in range(rng.choice([1, 1, 2])):
                p = rng.choice([SETUP, BODY, TEARDOWN, BODY, IPRE, IPOST])
                t[p].insert(rng.randrange(len(t[p]) + 1), (":i",))
        base += allocs(t[0]) + allocs(executed(t))
        tests.append(t)
    tail = mem_ops(rng.choice([0, 0, 1, 3]), -1, 0.7)
    # release blocks in the tail until the final report fits the buffer
    b0 = 1 + allocs(pre)
    while report_bytes(leaked(b0, trace(tests, tail))) > 3000 and live:
        i = rng.choice(sorted(live))
        del live[i]
        tail.append((":f", i))
    out = leaked(b0, trace(tests, tail))
    tbd = rng.choice([0, 0, len(out), len(out), max(len(out) - 1, 0), len(out) + 1])
    p_op = rng.choice([0.0, 0.0, 0.08, 0.2, 0.4])      # further plugin instances: none / a few / many
    if p_op:
        weave(rng, tests, tail, p_op)
    return fmt(mode, tbd, pre, tests, tail)


def weave(rng, tests, tail, p_op):
    """statements about further plugin instances, put at executed positions of the program (and a few behind failing checks, where
    they never run): construct (private detector / the runner's detector -- the latter only outside the checking window), destroy,
    allocate / release / realloc through the private detector, the instance's pre/postTestAction, its FinalReport(k).  Aimed at:
    an instance destroyed BEFORE a later test that uses the macros; an instance constructed when firstPlugin_ is already set, with
    an allocation before its first preTestAction and a FinalReport later; construction / destruction inside a test between a macro
    and the end of the test; slots reused; several instances alive at once."""
    ins = Insts()
    style = rng.choice(["mix", "mix", "newdel", "early-alloc", "nested-tests"])

    def size():
        return rng.choice([0, 1, 1, 2, 8, 16])

    def one(outside):
        al = ins.al
        free = [j for j in range(rng.choice([1, 2, 3, NSLOT])) if j not in al]
        priv = [j for j, t in al.items() if not t["shared"]]
        cands = []
        if free:
            cands += ["new"] * (4 if not al else 1)
        if al:
            cands += ["del"] * (3 if style == "newdel" else 1)
        for j in priv:
            t = al[j]
            live = live_ids(t["text"] + (t["win"] or []))
            if len(live) < 5:
                cands += [("pa", j)] * (4 if (style == "early-alloc" and not t["text"]) else 2)
            cands += [("pf", j)]
            if rng.random() < 0.3:
                cands += [("pr", j)]
            if t["win"] is None:
                cands += [("pq", j)] * (3 if t["text"] else 1)
                cands += [("pb", j)] * (3 if style == "nested-tests" else 1)
            else:
                cands += [("pe", j)] * 2
        if not cands:
            return None
        c = rng.choice(cands)
        if c == "new":
            j = rng.choice(free)
            return (":pn", j, 1 if (outside and rng.random() < 0.3) else 0)
        if c == "del":
            return (":pd", rng.choice(sorted(al)))
        k, j = c
        t = al[j]
        live = live_ids(t["text"] + (t["win"] or []))
        if k == "pa":
            ids = [i for i in range(8) if i not in live]
            return (":pa", j, rng.choice(ids), size())
        if k == "pf":
            return (":pf", j, rng.choice(sorted(live)) if live and rng.random() < 0.8 else rng.randrange(8))
        if k == "pr":
            return (":pr", j, rng.choice(sorted(live)) if live and rng.random() < 0.6 else rng.randrange(8), size())
        if k == "pq":
            out = len(leaked(1, t["text"]))
            return (":pq", j, rng.choice([0, 0, out, max(out - 1, 0), out + 1]))
        return (":" + k, j)

    def put(lst, upto, outside):
        """insert into lst at positions 0..upto (all executed)"""
        pos = 0
        while pos <= upto:
            if rng.random() < p_op:
                st = one(outside)
                if st and ins.step(st)[0]:
                    lst.insert(pos, st)
                    pos += 1
                    upto += 1
                    continue
            pos += 1

    def dead(lst, frm):
        """behind a failing check: never runs"""
        if rng.random() < 0.3:
            lst.insert(rng.randrange(frm, len(lst) + 1), rng.choice([(":pn", rng.randrange(NSLOT), 0), (":pd", rng.randrange(NSLOT)), (":pb", 0), (":pq", 1, 0), (":pa", 0, 1, 1)]))

    for t in tests:
        put(t[BEFORE], len(t[BEFORE]), True)
        put(t[IPRE], len(t[IPRE]), False)
        setup_failed = False
        for p in (SETUP, BODY, TEARDOWN):
            if p == BODY and setup_failed:
                dead(t[p], 0)
                continue
            fx = [i for i, st in enumerate(t[p]) if st[0] == ":x"]
            if fx:
                n0 = len(t[p])
                put(t[p], fx[0], False)
                dead(t[p], fx[0] + 1 + len(t[p]) - n0)
                if p == SETUP:
                    setup_failed = True
            else:
                put(t[p], len(t[p]), False)
        put(t[IPOST], len(t[IPOST]), False)
    put(tail, len(tail), True)


def live_ids(l):
    live = set()
    for st in l:
        if st[0] in (":a", ":r"):
            live.add(st[1])
        elif st[0] == ":f":
            live.discard(st[1])
    return live


def generate(tier, rng):
    out = []
    n = 700 if tier == "quick" else 40000
    for k in range(n):
        s = gen_program(rng, big=(k % 10 == 9))
        m, tbd, pre, tests, tail = parse(s)
        if not py_valid(pre, tests, tail):
            raise RuntimeError("generator produced an invalid program: " + s)
        out.append(s)
    return out


# ----------------------------------------------------------------------------- evidence / failures
def test_facts(base, t):
    ex = executed(t)
    L = leaked(base, ex)
    own = sum(1 for st in ex if st[0] == ":x")
    ign = any(st[0] == ":i" for st in ex)
    d = declared(ex)
    cls = ("own-failed" if own else "ignore" if ign else "leaks=expected=0" if len(L) == d == 0 else
           "leaks=expected>0" if len(L) == d else "leaks>expected" if len(L) > d else "leaks<expected")
    return ex, L, own, ign, d, cls


def nontrivial(s):
    _, _, pre, tests, tail = parse(s)
    if len(tests) < 2:
        return False
    base = 1 + allocs(pre)
    outlives = False
    owner = {st[1]: -2 for st in pre if st[0] in (":a", ":r")}
    cross = False
    for ti, t in enumerate(tests):
        for st in t[0]:
            if st[0] in (":a", ":r"):
                owner[st[1]] = -1
            elif st[0] == ":f":
                owner.pop(st[1], None)
        base += allocs(t[0])
        ex = executed(t)
        if leaked(base, ex):
            outlives = True
        for st in ex:
            if st[0] in (":f", ":r"):
                if owner.get(st[1], ti) != ti:
                    cross = True
                owner.pop(st[1], None)
            if st[0] in (":a", ":r"):
                owner[st[1]] = ti
            elif st[0] == ":e":
                cross = True
        base += allocs(ex)
    return outlives and cross


def classify(s):
    mode, tbd, pre, tests, tail = parse(s)
    lab = ["mode:%d" % mode, "tests:" + ("0" if not tests else "1" if len(tests) == 1 else "2-4" if len(tests) <= 4 else "5-8" if len(tests) <= 8 else ">8")]
    base = 1 + allocs(pre)
    kinds = set()
    if pre:
        kinds.add("before-plugin-allocation")
    for t in tests:
        base += allocs(t[0])
        ex, L, own, ign, d, cls = test_facts(base, t)
        kinds.add(cls)
        if own and len(L) != d:
            kinds.add("own-failed+leak")
        if any(not is_inst(st) for st in t[0]):
            kinds.add("outside-allocation")
        if any(not is_inst(st) for st in t[IPRE] + t[IPOST]):
            kinds.add("inner-plugin-action")
        if any(st[0] == ":x" for st in t[IPRE] + t[IPOST]):
            kinds.add("inner-plugin-failure")
        if sum(1 for st in ex if st[0] == ":e") > 1:
            kinds.add("declared-twice")
        if sum(1 for st in ex if st[0] == ":i") > 1:
            kinds.add("ignore-twice")
        if any(st[0] == ":r" for st in ex):
            kinds.add("realloc")
        for p in (SETUP, BODY, TEARDOWN):
            pe = upto_fail(t[p])[0]
            if leaked(0, pe) and not (p == BODY and upto_fail(t[SETUP])[1]):
                kinds.add("alloc-in-phase-%d" % (p - 1))
        base += allocs(ex)
    lab += sorted("test:" + k for k in kinds)
    out = leaked(1 + allocs(pre), trace(tests, tail))
    lab.append("final:" + ("silent" if len(out) == tbd else "report"))
    # the further plugin instances
    ik = set()
    ins = Insts()
    deleted = False
    early = set()             # slots with an allocation made before the instance's first preTestAction
    hadpre = set()
    used = set()
    base = 1 + allocs(pre)

    def walk(lst, where):
        nonlocal deleted
        for st in lst:
            if not is_inst(st):
                continue
            k, j = st[0], st[1]
            if k == ":pn":
                ik.add("new-shared" if st[2] else "new-private")
                ik.add("new-" + where)
                if j in used:
                    ik.add("slot-reused")
                used.add(j)
                early.discard(j)
                hadpre.discard(j)
            ok, d = ins.step(st)
            if k == ":pn" and len(ins.al) > 1:
                ik.add("several-alive")
            if k == ":pd":
                deleted = True
                ik.add("del-" + where)
            if k in (":pa", ":pr") and j not in hadpre:
                early.add(j)
            if k == ":pb":
                hadpre.add(j)
            if d and d[0] == "post":
                ik.add("own-test-leaks" if leaked(d[2], d[3]) else "own-test-clean")
            if d and d[0] == "final":
                ik.add("final-" + ("silent" if len(d[2]) == d[3] else "report") + ("-with-early-allocation" if j in early and d[2] else ""))
    for t in tests:
        walk(t[0], "between-tests")
        base += allocs(t[0])
        ex, L, own, ign, d, cls = test_facts(base, t)
        if deleted and any(st[0] in (":e", ":i") for st in ex) and L and not own:
            ik.add("macro-test-that-leaks-after-a-destruction" + ("(declared=leaked)" if len(L) == d and not ign else ""))
        if ins.al and any(st[0] in (":e", ":i") for st in ex) and L:
            ik.add("macro-test-that-leaks-with-instances-alive")
        walk(ex, "inside-test")
        base += allocs(ex)
    walk(tail, "after-tests")
    lab += sorted("inst:" + k for k in ik) if ik else ["inst:none"]
    return lab


def signature(s, o):
    if o.startswith("!"):
        return "crash " + o[:60]
    try:
        mode, tbd, pre, tests, tail = parse(s)
        t = o.split()
        i = 2
        base = 1 + allocs(pre)

        def ents_at(i):
            k = int(t[i], 16)
            return [(int(t[i + 1 + 2 * j], 16), int(t[i + 2 + 2 * j], 16)) for j in range(k)], i + 1 + 2 * k
        seen_del = False
        for ti, tt in enumerate(tests):
            nfail, nleak = int(t[i], 16), int(t[i + 1], 16)
            ents, i = ents_at(i + 5)
            base += allocs(tt[0])
            ex, L, own, ign, d, cls = test_facts(base, tt)
            want = own == 0 and not ign and len(L) != d
            ctx = " after another plugin instance was destroyed" if seen_del and any(st[0] in (":e", ":i") for st in ex) else ""
            if nleak != (1 if want else 0):
                return "verdict wrong (%s leak failure) for a test with %s%s" % ("missing" if want else "unwanted", cls, ctx)
            if nfail != own + nleak:
                return "failure count wrong for a test with " + cls
            if want and sorted(ents) != sorted(L):
                return "report lists the wrong blocks (%s)" % ("foreign" if set(ents) - set(L) else "missing")
            base += allocs(ex)
            seen_del = seen_del or any(st[0] == ":pd" for st in tt[0] + m_executed(tt))
        stray, empty = int(t[i], 16), int(t[i + 1], 16)
        ents, i = ents_at(i + 5)
        out = leaked(1 + allocs(pre), trace(tests, tail))
        if stray or bool(empty) != (len(out) == tbd) or (not empty and sorted(ents) != sorted(out)):
            return "final report / stray failures wrong"
        # the further instances
        ins = Insts()
        dem = [d for d in (ins.step(st)[1] for st in trace(tests, tail)) if d]
        n = int(t[i], 16)
        i += 1
        if n != len(dem):
            return "another plugin instance: number of observations"
        for d in dem:
            kind, j = int(t[i], 16), int(t[i + 1], 16)
            if d[0] == "post":
                nfail, nleak = int(t[i + 2], 16), int(t[i + 3], 16)
                ents, i = ents_at(i + 7)
                L = leaked(d[2], d[3])
                if kind != 0 or j != d[1] or nleak != (1 if L else 0) or nfail != nleak:
                    return "another plugin instance: verdict of its own test wrong (%s leak failure)" % ("missing" if L else "unwanted")
                if L and sorted(ents) != sorted(L):
                    return "another plugin instance: report of its own test lists the wrong blocks"
            else:
                empty = int(t[i + 2], 16)
                ents, i = ents_at(i + 6)
                if kind != 1 or j != d[1] or bool(empty) != (len(d[2]) == d[3]):
                    return "another plugin instance: FinalReport %s (blocks obtained since its construction)" % ("silent" if empty else "not silent")
                if not empty and sorted(ents) != sorted(d[2]):
                    return "another plugin instance: FinalReport lists the wrong blocks"
        return "observation differs"
    except Exception:
        return "malformed observation"


def shrink(s):
    mode, tbd, pre, tests, tail = parse(s)
    cands = []
    for i in range(len(tests)):
        cands.append((mode, tbd, pre, tests[:i] + tests[i + 1:], tail))
    if tail:
        cands.append((mode, tbd, pre, tests, []))
    if pre:
        cands.append((mode, tbd, [], tests, tail))
    for i, t in enumerate(tests):
        for p in range(6):
            for k in range(len(t[p])):
                t2 = [list(x) for x in t]
                del t2[p][k]
                cands.append((mode, tbd, pre, tests[:i] + [t2] + tests[i + 1:], tail))
    for k in range(len(tail)):
        cands.append((mode, tbd, pre, tests, tail[:k] + tail[k + 1:]))
    for k in range(len(pre)):
        cands.append((mode, tbd, pre[:k] + pre[k + 1:], tests, tail))
    if tbd:
        cands.append((mode, 0, pre, tests, tail))
    slots = sorted({st[1] for t in tests for p in t for st in p if is_inst(st)} | {st[1] for st in tail if is_inst(st)})
    for j in slots:           # without plugin instance j
        def drop(l):
            return [st for st in l if not (is_inst(st) and st[1] == j)]
        cands.insert(0, (mode, tbd, pre, [[drop(p) for p in t] for t in tests], drop(tail)))
    for i, t in enumerate(tests):
        for p in range(6):
            for k, st in enumerate(t[p]):
                if st[0] in (":a", ":r") and st[2] > 1:
                    t2 = [list(x) for x in t]
                    t2[p][k] = (st[0], st[1], 1) + tuple(st[3:])
                    cands.append((mode, tbd, pre, tests[:i] + [t2] + tests[i + 1:], tail))
                elif st[0] in (":pa", ":pr") and st[3] > 1:
                    t2 = [list(x) for x in t]
                    t2[p][k] = (st[0], st[1], st[2], 1)
                    cands.append((mode, tbd, pre, tests[:i] + [t2] + tests[i + 1:], tail))
    for c in cands:
        if py_valid(c[2], c[3], c[4]):
            yield fmt(*c)


LEVEL_TEXT = ("Machine-checked (Coq) theorems over an executable model of MemoryLeakWarningPlugin's constructor / preTestAction / postTestAction / "
              "FinalReport on top of the C04 model of the detector's hash table and period stamps (store, release, realloc, totals, report "
              "walk, demotion walk), inside the control flow of Utest::run and of the plugin chain's pre/post actions: for every program (any "
              "number of tests; any allocation/release/realloc script over setup/body/teardown, over another plugin's actions inside and "
              "outside the checking window, before the plugin exists and after the last test; releases of earlier tests' blocks, address "
              "reuse, expected-leak counts, ignore flag, own failing checks anywhere) a test gets exactly one leak failure iff nothing else "
              "failed in it, it did not ask to ignore leaks, and the number of blocks it obtained and did not release differs from the number "
              "it declared last; the report lists exactly those blocks; no block is charged to a later test; releasing a foreign block offsets "
              "nothing; declarations do not carry over (state invariant and a two-program theorem); the table before every pre-action is "
              "exactly the text's outstanding set (none stamped checking); the final report is silent iff outstanding = k and lists exactly "
              "the blocks obtained since the plugin exists. All right-hand sides are defined on the program text, not on the table; the "
              "oracle `spec` is proved equivalent to those text-level demands. SEVERAL PLUGIN INSTANCES (C07_ModelM.v / C07_Multi.v): the "
              "static firstPlugin_ is state of the model (serial of the object it points to); proved for every sequence of constructions, "
              "destructions and other statements: it is written once and is the first plugin constructed since it was NULL; the macros change "
              "the members of exactly that object; with the runner's plugin constructed first, every test's failures, verdict, report and the "
              "final report of a program with statements about other instances anywhere (construct on a private / on the runner's detector, "
              "destroy, allocate through the private detector, the instance's own pre/postTestAction and FinalReport) are those of the program "
              "without them (`mrun` main part = `run (erase s)`), so the table holds for tests that use the macros after other instances came "
              "and went; every instance's detector is `enabled` from its construction whenever none of its preTestActions is pending, its "
              "FinalReport(k) is silent iff the blocks obtained through its detector since the construction and not released number k and lists "
              "exactly those otherwise, and its own postTestAction follows the same table for the statements since its preTestAction. Tied to the code by a differential run of the extracted model "
              "against the real plugin and detector in a private registry (local detector, and global detector through new/new[]/malloc/"
              "realloc), with the extracted model-free spec judging the implementation.")
LEVEL_NOTE = ("Trusted: Coq kernel, extraction, harness, generator. Modelled not verified: the C++ itself; FAIL's exception/longjmp by its "
              "contract (leaves the phase). Not covered: reports longer than the 4096-byte buffer (C14; the oracle then demands only "
              "subset + total), enable()/disable() calls on the detector inside a test (blocks obtained after them are not stamped "
              "`checking`), the branch taken when new/delete overloads are off (warning only), separate-process runs, memory misuse inside "
              "a test (C06), allocation numbers beyond 2^32; a plugin constructed on the runner's detector INSIDE a test (its constructor's enable() takes "
              "the detector out of the test's checking period on the real code too: later blocks of that test are not charged to it -- treated as "
              "the test calling enable(), see example_shared_in_window_not_valid); the macros after the first plugin's death (dangling "
              "firstPlugin_); pre/postTestAction, FinalReport and allocations through an instance that shares the runner's detector; "
              "destroyGlobalDetectorAndTurnOffMemoryLeakDetectionInDestructor; the constructor/destructor are modelled by hand (not in the "
              "translated-source tie). After a run WITH failures the harness empties the detector's text buffer before "
              "FinalReport (the runner never prints the final report then; the buffer would still hold the last leak report).")
TECHNIQUE = "Coq proof over hand-written executable model + extracted-model/implementation correspondence check (differential)"
READY = True
