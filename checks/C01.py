"""C01 -- a failing check always fails the run: lifecycle, failure count, exit value.
Scenario:  <cli> <rethrow> <filter> <runign> <repeat> <ntests> { <ignored> <sel> <line> <setup> <body> <teardown> <pre> <post> }
           stmt list = <n> { <base> | :r <cond> <k> <base> <base> } ; base = :n | :c | :x <file> <line> | :j <file> <line> | :s | :o
           pre/post = <n> { <line> | :r <cond> <k> <line> } ; cond = :eq | :ne | :lt | :ge
                                                                     | :k :<kind> <agree> <file> <line>
           (:k = a check through one assert entry point (CK_NAMES: member functions of UtestShell, C-interface functions, the CHECK_COMPARE macro)
            with operands that satisfy the relation (agree=1) or not (0), handed the location <file>:<line>;
            :n no-op, :c passing check, :x C++-style failing check, :j C-style (longjmp) failing check, :s throw std::runtime_error, :o throw int;
            ":r c k A B" = static state in the test: behaves as A in the repetitions whose number (from 0) satisfies c k, as B in the others;
            a conditional plugin line is reported only in the matching repetitions; <repeat> is the number after -r, -r0 repeats twice)
           compound statements (builds with exceptions only; a base, also inside ":r"):
            ":t :<hk> <n> inner* <m> inner*" = try { n inner statements } catch (<hk>) { m inner statements }, hk = :std | :int | :unrel | :all
            ":w :<ek> <file> <line> <n> inner*" = CHECK_THROWS(<ek>, helper()) with helper() = the n inner statements, ek = :std | :int | :unrel,
              reported at FILES[file]:(7000 + 16*file + ek) (the macro takes __FILE__, __LINE__ of its expansion in the harness)
            inner = :n | :c | :x f l | :j f l | :s | :o | :k ...; every executed inner statement is logged as a sub event (test phase idx sub)
           optional suffix ":mac" = the tests are made by the public macros (TEST_GROUP / TEST / IGNORE_TEST; TEST_SETUP / TEST_TEARDOWN when the
            test has setup or teardown statements) from a fixed pool of the harness (at most 16 TESTs / 8 IGNORE_TESTs of each of the two groups)
           optional suffix ":io <sink> <sep> <verbose> <color> <cap>" = console mode: the run goes through CommandLineTestRunner, the real
            ConsoleTestOutput and the real stdio stream; descriptor 1 is a pipe (sink 1) or a regular file (sink 2), stdout fully buffered
            with <cap> bytes, -p (every test in a forked child) / -v / -c as given; the observation is read back from the captured bytes
Observation: see harness/C01.cpp."""
import itertools
ID = "C01"
FLAVOURS = ["asan", "noexc"]
HARNESS_SRCS = ["harness/C01.cpp"]
RULE = ("programs of 0-60 scripted tests, phases of 0-5 statements; every assert entry point (20 member functions of UtestShell incl. zero-length "
        "assertBinaryEqual, 19 C-interface functions, the CHECK_COMPARE macro) x operands that pass / fail x plain and NULL operand variants, each handed "
        "its own file:line (different from the TEST's and from every other statement's), in body position and the failing ones in setup and teardown, "
        "all kinds in one test, runs of 40 tests failing through a different entry point each, and mixed into the random programs; every failure kind (C++-style check, C-style check, std exception, "
        "foreign exception, plugin-reported) x phase (setup, body, teardown, plugin pre/post) systematically, pairs of failing phases, "
        "runs of 12-25 consecutive failing tests of each kind x phase (beyond the 10 jump-buffer slots), interleaved with passing / ignored / "
        "filtered-out tests, repeat 1-4 (and -r0 = twice), -ri, through TestRegistry::runAllTests and through CommandLineTestRunner::runAllTestsMain; "
        "programs whose behaviour depends on the repetition (static state): a failure of every kind x phase only in the first / a middle / the last "
        "of 2-4 repetitions, in all but one, from / up to a repetition, two tests failing in different repetitions, different failure kinds in "
        "different repetitions, alone and next to ignored / filtered-out / run-ignored tests, and random programs with conditional statements; "
        "console mode: the same programs through CommandLineTestRunner, the REAL ConsoleTestOutput and a fully buffered stdio stream whose descriptor "
        "is a pipe or a regular file, in one process and with every test in a forked child (-p), x -v x -c x buffer capacities 1 byte - 64 KiB, "
        "the captured bytes read back: every failure kind x phase in a child, runs of failing tests (the runner has printed before it forks), several "
        "repetitions (a summary has been printed before the next forks), children that print more than a buffer holds, ignored / filtered-out tests, "
        "every assert entry point failing in a child, random programs; "
        "user try blocks (builds with exceptions): a statement of a phase may be try { block } catch (std::exception& | int | an unrelated class | ...) "
        "{ handler } or CHECK_THROWS(std::exception | int | unrelated, helper-with-checks), every statement inside logged as a sub event: a failing "
        "C++-style / C-style check (every assert entry point) at every position of the block x every phase x handlers that fail again / swallow / "
        "check / throw, statements behind the check, the handler and the try block; every handler type x every way the block is left (completes, "
        "C-style check, C++-style check, std exception, foreign exception) x every way the handler is left; CHECK_THROWS x expected type x how the "
        "helper is left x file; several compound statements per test, static state, runs of 12-19 tests leaving from inside a try block; catch (...) / "
        "CHECK_THROWS around a C++-style check that can fail are generated too but only compared with the model (outside the oracle); "
        "tests made by the PUBLIC MACROS (TEST_GROUP, TEST, IGNORE_TEST, TEST_SETUP / TEST_TEARDOWN; a pool of 48 macro-made shells relabelled per "
        "scenario) instead of hand-made shells: a failing IGNORE_TEST of every kind x phase next to TESTs x -ri / not x command-line runner / "
        "registry x repeat, body-only groups and groups with setup / teardown, only ignored tests, -ri with a name filter and static state, every "
        "assert entry point in an IGNORE_TEST run with -ri, the pool's limits (48 tests, all failing), try blocks inside macro-made tests, the real "
        "console with and without -p, random programs with 20-100% ignored tests; "
        "flavour noexc (-fno-exceptions) judges the programs without throw statements and try blocks. "
        "non-trivial = at least one test that is started has a failing statement, an escaping exception or a plugin failure")
ASSUMPTIONS = ["rethrowExceptions off (-e / -ci) whenever a program can throw: DESIGN C01 scope decision",
               "catch (...) around a C++-style check that can fail (also the one inside CHECK_THROWS) is outside what the oracle judges: in a build "
               "with exceptions the language hands the exit of a failing check to every enclosing catch (...), the handler decides what happens next, "
               "no exception-based exit can prevent it; the model mirrors the language there and is compared with the implementation. A handler for "
               "std::exception or any other TYPE is inside: the exit of a failing check must pass it (no handler statement, nothing behind the try block, "
               "one record)",
               "try blocks are not nested; the statements inside are simple statements; CHECK_THROWS is reported at the place the harness expands it "
               "(one expansion per expected type and file); handler types: const std::exception&, int (the foreign exception thrown is an int), "
               "a class nothing thrown is an instance of, ...; a handler's `throw;` is not in the language (a handler that throws is)",
               "macro-made tests: the shells the macros define are relabelled (setGroupName / setTestName / setFileName / setLineNumber) and put into a "
               "private registry; CommandLineTestRunner(ac, av, registry)::runAllTestsMain is the entry point (the static RunAllTests adds the "
               "memory-leak plugin only); at most 16 TESTs and 8 IGNORE_TESTs per group and scenario",
               "fewer than 2^31 failures in total (the runner's size_t -> int return value would wrap; needs 2^32 failing checks)",
               "failing checks in constructors/destructors of tests and exceptions thrown by plugins are outside the quantifier",
               "longjmp and C++ unwinding obey their contract (the instrumented ASan/UBSan runs exhibit the real ones)",
               "a check statement of a given kind is exhibited with fixed operands chosen by the harness from (kind, agree, line): plain values, and for the "
               "string / binary / pointer functions also both-NULL (pass) and one-NULL (fail, either side) operands; the location handed over is "
               "<file>:<line> of the statement, file = the test's own or another file; the C++ entry points are called with their default terminator "
               "argument (the current NormalTestTerminator), the C-interface functions fix TestTerminatorWithoutExceptions themselves",
               "repetition-dependent behaviour is a function of the repetition number only: the scripted test reads its own static creation counter, "
               "the plugin its own call counters (equal to the runner's loop counter because every started test is created once per repetition); "
               "the number after -r is read as CommandLineArguments::setRepeatCount does (-r0 repeats twice)",
               "console mode: fork / _exit / exit / fflush / a full buffer obey the C library's contract for a buffered stream (the buffer is process "
               "memory; the descriptor and its offset are shared); the model's buffer holds whole records and a capacity in records, the real one bytes "
               "(a record may be cut in the middle); the harness flushes the stream after the run as exit() would; a child that crashes is outside "
               "the quantifier; under -p the scripted tests read the registry's repetition counter (their own statics die with the child); of the "
               "summary of a -p run the verdict, whether it reports failures, and tests / ran / ignored / filtered out are judged -- the checks "
               "figure and the number of failures are the runner's own (the counters of a child die with it: 0 checks, one failure per failed test)"]
PER_TIMEOUT = 30.0
KINDS = ["x", "j", "s", "o"]
# check kinds (harness/C01.cpp CKNAMES, coq/C01_Model.v ckind)
CXX_KINDS = ["true", "cstreq", "cstrneq", "nocaseeq", "contains", "nocasecontains", "longs", "ulongs", "llongs", "ullongs", "sbytes", "ptrs",
             "fptrs", "doubles", "equals", "binary", "binary0", "bits", "compare", "fail"]
C_KINDS = ["c_bool", "c_int", "c_uint", "c_long", "c_ulong", "c_llong", "c_ullong", "c_real", "c_char", "c_ubyte", "c_sbyte", "c_string",
           "c_pointer", "c_memcmp", "c_memcmp0", "c_bits", "c_failtext", "c_fail", "c_check"]
CK_NAMES = CXX_KINDS + C_KINDS + ["m_compare"]
C_STYLE = set(C_KINDS)
ALWAYS_FAIL = ("fail", "c_failtext", "c_fail")
ZERO_LENGTH = ("binary0", "c_memcmp0")
NULL_SENSITIVE = ("cstreq", "cstrneq", "nocaseeq", "contains", "nocasecontains", "ptrs", "binary", "binary0", "c_string", "c_pointer", "c_memcmp", "c_memcmp0")


def k_passes(kind, agree):
    """independent python reading: does the test go on after this check"""
    if kind in ALWAYS_FAIL: return False
    if kind in ZERO_LENGTH: return True
    return bool(agree)


def k_counted(kind, agree):
    """... and does it add to "checks": everything that enters an assert function; the CHECK_COMPARE macro does not when the comparison holds"""
    return 0 if (kind == "m_compare" and agree) else 1


def ck(kind, agree, line, file=0):
    return ":k :%s %x %x %x" % (kind, int(agree), file, line)


HK = ["std", "int", "unrel", "all"]
EK = ["std", "int", "unrel"]


def tr(hk, blk, hd):
    """try { blk } catch (hk) { hd }"""
    return ":t :%s %s %s" % (hk, lst(blk), lst(hd))


def cthrows(ek, blk, file=0):
    """CHECK_THROWS(ek, helper()) at the location the harness expands it at"""
    return ":w :%s %x %x %s" % (ek, file, 7000 + 16 * file + EK.index(ek), lst(blk))


def st(kind, rng=None, tline=100):
    if kind in ("n", "c", "s", "o"):
        return ":" + kind
    f = 0 if rng is None else (1 if rng.random() < 0.25 else 0)
    l = tline + 5 if rng is None else max(1, tline + rng.choice([-7, -1, 0, 1, 3, 40]))
    return ":%s %x %x" % (kind, f, l)


def lst(items):
    return " ".join(["%x" % len(items)] + list(items))


def test(ign=0, sel=1, line=100, setup=(), body=(), teardown=(), pre=(), post=()):
    pl = lambda p: p if isinstance(p, str) else "%x" % p
    return " ".join(["%x %x %x" % (ign, sel, line), lst(setup), lst(body), lst(teardown), lst([pl(p) for p in pre]), lst([pl(p) for p in post])])


def rif(op, k, a, b):
    """statement that behaves as a in the repetitions r with `r op k`, as b in the others"""
    return ":r :%s %x %s %s" % (op, k, a, b)


def rline(op, k, line):
    return ":r :%s %x %x" % (op, k, line)


def scn(tests, cli=0, rethrow=0, filt=0, runign=0, repeat=1, io=None, mac=0):
    """io = (sink, sep, verbose, color, cap) or None; mac = tests made by the public macros"""
    return " ".join(["%x %x %x %x %x" % (cli, rethrow, filt, runign, repeat), lst(tests)] + ([":mac"] if mac else [])
                    + ([":io %x %x %x %x %x" % tuple(io)] if io else []))


PASS = lambda: test(body=[":c", ":n"])


def failing_test(kind, phase, rng=None, line=100, when=None, other=":c", **kw):
    """one test failing with `kind` in `phase` (0 setup, 1 body, 2 teardown, 3 plugin pre, 4 plugin post), passing statements around it;
    when=(op, k): only in the repetitions r with `r op k` (statement `other` in the remaining ones)"""
    ph = [[":c"], [":n", ":c"], [":c"]]
    pre, post = [], []
    if phase < 3:
        k = 0 if rng is None else rng.randrange(len(ph[phase]) + 1)
        x = st(kind, rng, line)
        if when is not None:
            x = rif(when[0], when[1], x, other)
        ph[phase] = ph[phase][:k] + [x] + ph[phase][k:] + [":c"]
    elif phase == 3:
        pre = [7 if when is None else rline(when[0], when[1], 7)]
    else:
        post = [9 if when is None else rline(when[0], when[1], 9)]
    return test(line=line, setup=ph[0], body=ph[1], teardown=ph[2], pre=pre, post=post, **kw)


KIND_PHASE = [(k, p) for k in KINDS for p in range(3)] + [("x", 3), ("x", 4)]


def rep_dependent(tier, rng):
    """programs whose outcome differs from one repetition to the next"""
    out = []
    # a failure of every kind x phase in exactly one repetition: the first, a middle one, the last
    for R in (2, 3, 4):
        for pos in sorted({0, R // 2, R - 1}):
            for (kind, phase) in KIND_PHASE:
                out.append(scn([PASS(), failing_test(kind, phase, rng, when=("eq", pos)), PASS()], cli=1, repeat=R))
    for (kind, phase) in KIND_PHASE:
        R = rng.choice([2, 3, 4])
        k = rng.randrange(R)
        # all repetitions but one fail (k = R-1: only the last one is OK); the first k fail; all from k on fail
        out.append(scn([failing_test(kind, phase, rng, when=("ne", R - 1))], cli=1, repeat=R))
        out.append(scn([PASS(), failing_test(kind, phase, rng, when=("ne", k))], cli=1, repeat=R))
        out.append(scn([failing_test(kind, phase, rng, when=("lt", max(1, k))), PASS()], cli=1, repeat=R))
        out.append(scn([failing_test(kind, phase, rng, when=("ge", max(1, k))), PASS()], cli=1, repeat=R))
        # next to ignored and filtered-out tests; the flaky test itself ignored (never runs / runs with -ri) or filtered out (never runs)
        pos = rng.choice([0, R - 1])
        noise = [test(ign=1, body=[":x 0 5"]), test(sel=0, body=[":j 0 6"])]
        out.append(scn([noise[0], failing_test(kind, phase, rng, when=("eq", pos)), noise[1]], cli=1, filt=1, repeat=R))
        out.append(scn([noise[1], failing_test(kind, phase, rng, when=("eq", pos), ign=1), PASS()], cli=1, filt=1, repeat=R))
        out.append(scn([PASS(), failing_test(kind, phase, rng, when=("eq", pos), ign=1), noise[1]], cli=1, filt=1, runign=1, repeat=R))
        out.append(scn([failing_test(kind, phase, rng, when=("eq", pos), sel=0), PASS(), noise[0]], cli=1, filt=1, repeat=R))
        # the flaky test is the only one that is started, the rest is ignored / filtered out
        out.append(scn([noise[0], noise[1], failing_test(kind, phase, rng, when=("eq", pos))], cli=1, filt=1, repeat=R))
        # a different failure kind in the other repetitions: every repetition fails, with different records and counts
        if phase < 3:
            k2 = rng.choice(KINDS)
            out.append(scn([failing_test(kind, phase, rng, when=("eq", pos), other=st(k2, rng)), PASS()], cli=1, repeat=R))
    # two tests failing in different repetitions; with R = 3 the middle (or the last) repetition is the only OK one
    for (k1, p1), (k2, p2) in zip(KIND_PHASE, KIND_PHASE[5:] + KIND_PHASE[:5]):
        for (a, b, R) in ((0, 1, 2), (0, 2, 3), (0, 1, 3), (1, 2, 4)):
            out.append(scn([failing_test(k1, p1, rng, when=("eq", a)), PASS(), failing_test(k2, p2, rng, when=("eq", b))], cli=1, repeat=R))
    # nothing is ever started (ran nothing in every repetition) although the program text has a flaky test; -r0 repeats twice
    out.append(scn([failing_test("x", 1, when=("eq", 0), sel=0)], cli=1, filt=1, repeat=2))
    out.append(scn([failing_test("x", 1, when=("eq", 0), ign=1)], cli=1, repeat=3))
    for pos in (0, 1, 2):
        out.append(scn([failing_test("x", 1, when=("eq", pos))], cli=1, repeat=0))
        out.append(scn([failing_test("j", 2, when=("eq", pos)), PASS()], cli=1, repeat=1))
        out.append(scn([failing_test("x", 0, when=("eq", pos))], cli=0))
    out.append(scn([PASS()], cli=1, repeat=0))
    out.append(scn([], cli=1, repeat=0))
    # long runs of consecutive flaky failures beyond the 10 jump-buffer slots, in one repetition only
    for kind in KINDS:
        R = rng.choice([2, 3])
        pos = rng.randrange(R)
        out.append(scn([failing_test(kind, rng.randrange(3), rng, when=("eq", pos)) for _ in range(rng.randrange(12, 20))], cli=1, repeat=R))
    if tier == "thorough":
        for R in (1, 2, 3, 4):
            for op in ("eq", "ne", "lt", "ge"):
                for k in range(R + 1):
                    for (kind, phase) in KIND_PHASE:
                        out.append(scn([failing_test(kind, phase, rng, when=(op, k)), PASS()], cli=1, repeat=R))
    return out


def rand_kind_line(rng):
    return rng.randrange(201, 3999)       # never a TEST's own line (1, 20, 100, 4000)


def rand_inner(rng, pfail, line, n=None):
    """statements inside a try block: simple ones"""
    out = []
    for _ in range(rng.choice([0, 1, 1, 2, 3]) if n is None else n):
        if rng.random() < pfail:
            if rng.random() < 0.4:
                k = rng.choice([k for k in CK_NAMES if k not in ZERO_LENGTH])
                out.append(ck(k, 0, rand_kind_line(rng), int(rng.random() < 0.25)))
            else:
                out.append(st(rng.choice(KINDS), rng, line))
        else:
            out.append(rng.choice([":n", ":c", ":c", ck("longs", 1, rand_kind_line(rng))]))
    return out


def rand_compound(rng, pfail, line):
    """a try block or a CHECK_THROWS; catch (...) / CHECK_THROWS around a C++-style check that can fail (outside the oracle) only now and then"""
    for _ in range(20):
        if rng.random() < 0.7:
            x = tr(rng.choice(["std", "std", "int", "unrel", "all"]), rand_inner(rng, max(pfail, 0.4), line), rand_inner(rng, pfail * 0.7, line))
        else:
            x = cthrows(rng.choice(EK), rand_inner(rng, max(pfail, 0.5), line), int(rng.random() < 0.3))
        cfg, tests = parse(scn([test(body=[x])]))
        if not intercepting(tests) or rng.random() < 0.1:
            return x
    return x


def rand_base(rng, pfail, line, allow_throw=True):
    if allow_throw and rng.random() < 0.07:
        return rand_compound(rng, pfail, line)
    if rng.random() < pfail:
        if rng.random() < 0.35:
            k = rng.choice([k for k in CK_NAMES if k not in ZERO_LENGTH])
            return ck(k, 0, rand_kind_line(rng), int(rng.random() < 0.25))
        return st(rng.choice(KINDS if allow_throw else KINDS[:2]), rng, line)
    if rng.random() < 0.3:
        k = rng.choice([k for k in CK_NAMES if k not in ALWAYS_FAIL])
        return ck(k, 0 if k in ZERO_LENGTH and rng.random() < 0.5 else 1, rand_kind_line(rng), int(rng.random() < 0.25))
    return rng.choice([":n", ":c", ":c"])


def check_kinds(tier, rng):
    """every assert entry point x pass/fail, with its own location (distinct from the TEST's line 100 and from every other statement's)"""
    out = []
    modes = [dict(cli=0), dict(cli=1), dict(cli=1, repeat=2)]
    n = [0]

    def mode():
        n[0] += 1
        return modes[0] if n[0] % 2 else modes[1] if n[0] % 6 else modes[2]

    def lines_for(kind):      # (line & 1, line & 2) selects the operands in the harness: plain / both or one NULL (expected, actual)
        return (110, 109, 111) if kind in NULL_SENSITIVE else (110, 109)
    # body position, between passing statements; a statement behind it that must run iff the check passes
    for kind in CK_NAMES:
        for agree in (1, 0):
            for k, line in enumerate(lines_for(kind)):
                f = 1 if not agree else int(k == 1)       # failing: in the other file (a wrong line AND a wrong file show); own file: setup family below
                t = test(line=100, setup=[":c"], body=[":c", ck(kind, agree, line, f), ":c"], teardown=[":c"])
                out.append(scn([PASS(), t, PASS()] if k == 0 else [t], **mode()))
    # the failing ones also in setup and teardown (teardown after a body that failed elsewhere, too)
    for j, kind in enumerate(CK_NAMES):
        line = (110, 109, 111)[j % 3]
        out.append(scn([test(line=100, setup=[":c", ck(kind, 0, line), ":c"], body=[":c"], teardown=[":c"]), PASS()], **mode()))
        out.append(scn([test(line=100, setup=[":c"], body=[":c"], teardown=[ck(kind, 0, line, 1), ":c"])], **mode()))
        if j % 4 == 0:
            out.append(scn([test(line=100, setup=[":c"], body=[":x 0 69", ":c"], teardown=[":n", ck(kind, 0, line), ":c"])], **mode()))
    # all kinds in one body: every one passes (zero-length comparisons with different operands included), then one fails at the very end
    allpass = [ck(k, 0 if k in ZERO_LENGTH else 1, 201 + 2 * j + (j % 2)) for j, k in enumerate(CK_NAMES) if k not in ALWAYS_FAIL]
    for m in modes:
        out.append(scn([test(line=100, setup=[":c"], body=allpass, teardown=[":c"])], **m))
        out.append(scn([test(line=100, setup=allpass[:20], body=allpass[20:] + [ck("bits", 0, 399)], teardown=allpass[5:9] + [ck("c_memcmp", 0, 401, 1)])], **m))
    # a long run (beyond the 10 jump-buffer slots) of tests failing through a different entry point each, C++ and C kinds interleaved
    mixed = [k for pair in zip(CXX_KINDS, C_KINDS) for k in pair] + CXX_KINDS[len(C_KINDS):] + ["m_compare"]
    for ph in range(3):
        tests = []
        for j, k in enumerate(mixed):
            p = [[":c"], [":c"], [":c"]]
            p[ph] = [":c", ck(k, 0, 70001 + 3 * j, (j + ph) % 2), ":c"]      # lines beyond 16 bits: a truncated line number shows
            tests.append(test(line=100, setup=p[0], body=p[1], teardown=p[2]))
        out.append(scn(tests, cli=ph % 2, repeat=1))
    # zero-length comparisons and the uncounted macro in a test that depends on the repetition
    out.append(scn([test(line=100, body=[rif("eq", 0, ck("binary0", 0, 111), ck("binary", 0, 111)), ":c"]), PASS()], cli=1, repeat=2))
    out.append(scn([test(line=100, body=[rif("eq", 1, ck("m_compare", 1, 113), ck("compare", 1, 113)), ":c"])], cli=1, repeat=3))
    if tier == "thorough":
        for kind in CK_NAMES:
            for agree in (1, 0):
                for ph in range(3):
                    for line in (110, 109, 111):
                        for m in modes:
                            p = [[":c"], [":c", ":n"], [":c"]]
                            p[ph] = p[ph] + [ck(kind, agree, line, rng.randrange(2)), ":c"]
                            out.append(scn([test(line=100, setup=p[0], body=p[1], teardown=p[2])] + ([PASS()] if rng.random() < 0.3 else []), **m))
        # pairs of kinds in one test: the second one must be reached iff the first passes
        for k1 in CK_NAMES:
            for k2 in rng.sample(CK_NAMES, 6):
                a1 = rng.randrange(2)
                out.append(scn([test(line=100, setup=[ck(k1, a1, 110)], body=[ck(k2, 0, 113), ":c"], teardown=[ck(k1, 1, 115), ck(k2, 0, 117, 1)])], cli=rng.randrange(2)))
    return out


CAPS = [0x1000, 0x40, 0x10000, 0x1000, 0x100, 1, 0x2000]       # stdio buffer sizes: the usual one of a file / pipe, tiny, huge, ...


def io_modes(rng, sep=None):
    """endless rotation over sink x -p x -v x -c x buffer capacity (every combination of the first four comes by within 16 draws)"""
    n = rng.randrange(16)
    while True:
        n += 1
        yield (1 + n % 2, (n // 2) % 2 if sep is None else sep, (n // 4) % 2, (n // 8) % 2, CAPS[n % len(CAPS)])


def console(tier, rng):
    """the bytes that reach standard output through the real ConsoleTestOutput: pipe / regular file (full buffering), one process / every test
    in a forked child (-p), -v / -c, buffer capacities; aimed at output that is in a stdio buffer when a process forks or leaves"""
    out = []
    any_mode = io_modes(rng)
    sep_mode = io_modes(rng, sep=1)
    # every failure kind x phase (plugin pre / post included) in a child and in one process, between passing tests
    for (kind, phase) in KIND_PHASE:
        for m in (next(sep_mode), next(sep_mode), next(any_mode)):
            out.append(scn([PASS(), failing_test(kind, phase, rng), PASS()], cli=1, io=m))
        out.append(scn([failing_test(kind, phase, rng)], cli=1, io=(2, 1, 0, 0, 0x1000)))       # the plain CI case: -p, stdout a file
    # nothing fails; nothing runs; empty registry; ignored / filtered-out tests next to a failing one (an ignored test is not forked)
    for m in (next(sep_mode), next(any_mode), next(sep_mode)):
        out.append(scn([PASS(), PASS()], cli=1, io=m))
        out.append(scn([], cli=1, io=m))
        out.append(scn([test(sel=0, body=[":x 0 5"])], cli=1, filt=1, io=m))
        out.append(scn([test(ign=1, body=[":x 0 5"]), failing_test("x", 1, rng), test(sel=0, body=[":j 0 6"]), PASS()], cli=1, filt=1, io=m))
        out.append(scn([test(ign=1, body=[":x 0 5"]), PASS()], cli=1, runign=1, io=m))
    # several failing tests in a row: the runner's record of test k is printed before the fork of test k+1 (and the summary of a
    # repetition before the forks of the next one); long runs beyond the 10 jump-buffer slots
    for kind in KINDS:
        for n in (2, 3, rng.randrange(12, 20)):
            out.append(scn([failing_test(kind, rng.randrange(3), rng) for _ in range(n)] + [PASS()], cli=1, repeat=rng.choice([1, 2]), io=next(sep_mode)))
    for R in (2, 3, 0):
        for m in (next(sep_mode), next(any_mode)):
            out.append(scn([failing_test("x", 1, rng), PASS(), failing_test("j", 2, rng)], cli=1, repeat=R, io=m))
            # static state: the failure only in one repetition (under -p the scripted test reads the registry's repetition counter)
            pos = rng.randrange(R if R else 2)
            out.append(scn([PASS(), failing_test(rng.choice(KINDS), rng.randrange(3), rng, when=("eq", pos))], cli=1, repeat=R, io=m))
            out.append(scn([failing_test("x", rng.choice([3, 4]), when=("ne", pos)), PASS()], cli=1, repeat=R, io=m))
    # a child that prints more than a buffer holds: many plugin failures around a failing test
    for npl in (30, 120):
        for m in (next(sep_mode), next(sep_mode)):
            out.append(scn([failing_test("x", 1, rng), test(line=100, body=[":c", ":x 1 77"], pre=list(range(200, 200 + npl)), post=list(range(500, 500 + npl // 2))), PASS()], cli=1, io=m))
    # every assert entry point failing inside a child, the record at the location it was handed
    for j, kind in enumerate(CK_NAMES):
        line = (110, 109, 111)[j % 3]
        out.append(scn([PASS(), test(line=100, setup=[":c"], body=[":c", ck(kind, 0, line, j % 2), ":c"], teardown=[":c"])], cli=1, io=next(sep_mode)))
    # two failing phases in one child; all three
    for (k1, k2) in itertools.product(KINDS, KINDS):
        t = test(setup=[":c"], body=[st(k1), ":c"], teardown=[":n", st(k2)], pre=[7] if k1 == k2 else [], post=[9] if k1 == "x" else [])
        out.append(scn([t, PASS()], cli=1, io=next(sep_mode)))
    # random programs
    n = 60 if tier == "quick" else 1000
    for _ in range(n):
        nt = rng.choice([0, 1, 2, 3, 5, 8, 13, 20])
        pfail = rng.choice([0.0, 0.15, 0.3, 0.6, 0.9])
        filt = int(rng.random() < 0.3)
        repeat = rng.choice([1, 1, 2, 3, 0])
        prep = rng.choice([0, 0.2, 0.5]) if repeat != 1 else 0
        tests = [rand_test(rng, pfail, rng.random() < 0.6, pign=rng.choice([0, 0.1, 0.5]), pout=rng.choice([0, 0.1, 0.5, 1.0]) if filt else 0.1, prep=prep) for _ in range(nt)]
        out.append(scn(tests, cli=1, filt=filt, runign=int(rng.random() < 0.3), repeat=repeat, io=next(sep_mode) if rng.random() < 0.6 else next(any_mode)))
    if tier == "thorough":
        for (kind, phase) in KIND_PHASE:
            for sink in (1, 2):
                for sep in (0, 1):
                    for (v, c) in ((0, 0), (1, 0), (0, 1), (1, 1)):
                        for cap in (1, 0x40, 0x1000):
                            out.append(scn([PASS(), failing_test(kind, phase, rng), failing_test(rng.choice(KINDS), rng.randrange(3), rng)],
                                           cli=1, repeat=rng.choice([1, 1, 2]), io=(sink, sep, v, c, cap)))
    return out


def try_blocks(tier, rng):
    """statements inside user try blocks: a failing check must pass every handler for a type (std::exception included), nothing behind it
    runs -- not the rest of the block, not the handler, not what stands behind the try block -- and it is recorded once; exceptions of the
    program's own are caught by the handlers that match; CHECK_THROWS around helpers that contain checks"""
    out = []
    modes = [dict(cli=0), dict(cli=1), dict(cli=1, repeat=2)]
    n = [rng.randrange(6)]

    def mode():
        n[0] += 1
        return modes[0] if n[0] % 2 else modes[1] if n[0] % 6 else modes[2]

    def one(ph, stmts, before=(":n",), after=(":c",), **kw):
        p = [[":c"], [":c"], [":c"]]
        p[ph] = list(before) + list(stmts) + list(after)
        return test(line=100, setup=p[0], body=p[1], teardown=p[2], **kw)
    # a failing C++-style check inside try { } catch (const std::exception&) { }, in every phase: the handler fails again / swallows /
    # checks / fails C-style; the check first or behind a passing one; statements behind the check, the handler and the try block
    for ph in range(3):
        for hd in ([":x 0 6b"], [], [":c"], [":j 1 6c"], [":n", ":c"]):
            for failing in (":x 0 69", ck("longs", 0, 0x69), ck("true", 0, 0x6d, 1)):
                for pos in (0, 1):
                    x = tr("std", [":c"] * pos + [failing, ":c"], hd)
                    out.append(scn([PASS(), one(ph, [x]), PASS()], **mode()))
    # ... through every assert entry point (C++ and C), handler = FAIL(e.what())
    for j, kind in enumerate(k for k in CK_NAMES if k not in ZERO_LENGTH):
        x = tr("std", [":c", ck(kind, 0, 201 + 2 * j, j % 2), ":c"], [":x 0 %x" % (301 + j)])
        out.append(scn([one(1 if j % 3 else (j // 3) % 3 * 2 % 3, [x])] + ([PASS()] if j % 2 else []), **mode()))
    # every handler type x how the block is left x what the handler does (catch (...) around a C++-style failing check is outside the oracle:
    # there the model is compared)
    for hk in HK:
        for ending in ([":x 0 69"], [":j 1 69"], [":s"], [":o"], [], [ck("bits", 0, 0x71)], [ck("c_int", 0, 0x73, 1)]):
            for hd in ([], [":c"], [":x 1 6b"], [":j 0 6b"], [":s"], [":o"], [":c", ck("doubles", 0, 0x75), ":c"]):
                if tier == "quick" and rng.random() < 0.45:
                    continue
                x = tr(hk, [":c"] + ending + [":c"], hd)
                out.append(scn([one(rng.choice([0, 1, 1, 2]), [x]), PASS()], **mode()))
    # CHECK_THROWS(expected, helper()) with checks inside the helper
    for ek in EK:
        for ending in ([":s"], [":o"], [], [":j 0 79"], [ck("c_string", 0, 0x7b)], [":x 0 7d"], [ck("cstreq", 0, 0x7f)]):
            for f in (0, 1):
                x = cthrows(ek, [":c"] + ending + [":n"], f)
                out.append(scn([one((f + len(ending) + EK.index(ek)) % 3, [x], after=(":c", ":n")), PASS()], **mode()))
    # several compound statements in one test; a try block in setup and one in teardown; a try block behind a failing statement (never reached)
    caught = tr("std", [":c", ":s", ":c"], [":c"])
    through = tr("int", [":n", ":x 0 81", ":c"], [":c"])
    cjump = tr("unrel", [":j 1 83"], [":x 0 85"])
    esc = tr("std", [":o"], [":c"])
    for a, b in itertools.product((caught, through, cjump, esc), repeat=2):
        out.append(scn([test(line=100, setup=[a, ":c"], body=[":c", caught, b, ":c"], teardown=[b, a]), PASS()], **mode()))
    out.append(scn([test(line=100, body=[":x 0 87", through, ":c"], teardown=[cthrows("std", [":s"]), ":c"])], **mode()))
    # static state: the check inside the try block fails in one repetition only
    for R, pos in ((2, 0), (2, 1), (3, 1)):
        x = rif("eq", pos, tr("std", [":c", ":x 0 89", ":c"], [":x 0 8b"]), tr("std", [":c", ":c"], [":x 0 8b"]))
        out.append(scn([PASS(), test(line=100, body=[":c", x, ":c"], teardown=[":c"])], cli=1, repeat=R))
        out.append(scn([test(line=100, body=[rif("ne", pos, caught, through), ":c"])], cli=1, repeat=R))
    # long runs of tests that leave from inside a try block (beyond the 10 jump-buffer slots), every way of leaving
    for x in (through, cjump, esc, tr("std", [":s"], [":j 0 8d"]), cthrows("int", [":c"]), cthrows("unrel", [":j 1 8f"])):
        for ph in ((0, 1, 2) if tier == "thorough" else (rng.randrange(3),)):
            out.append(scn([one(ph, [x]) for _ in range(rng.randrange(12, 20))] + [PASS()], cli=rng.randrange(2)))
    if tier == "thorough":
        for hk in HK:
            for ph in range(3):
                for _ in range(150):
                    x = tr(hk, rand_inner(rng, 0.5, 100), rand_inner(rng, 0.4, 100))
                    out.append(scn([one(ph, [x]), PASS()], **mode()))
        for ek in EK:
            for _ in range(150):
                out.append(scn([one(rng.randrange(3), [cthrows(ek, rand_inner(rng, 0.5, 100), rng.randrange(2))]), PASS()], **mode()))
    return out


def macro_tests(tier, rng):
    """test programs written with the public macros (TEST_GROUP, TEST, IGNORE_TEST, TEST_SETUP / TEST_TEARDOWN) instead of hand-made
    shells: what the macros generate (createTest() of the shell, the group's setup / teardown) is part of what runs; aimed at -ri"""
    out = []
    full = lambda **kw: test(setup=[":n"], body=[":c", ":n"], teardown=[":n"], **kw)
    # an IGNORE_TEST that fails (every kind x phase, plugin included) next to TESTs, with and without -ri, through the command-line runner
    # and through the registry; the failing check of an ignored test counts exactly when the test is run
    for cli in (1, 0):
        for runign in (1, 0):
            for (kind, phase) in KIND_PHASE:
                if tier == "quick" and not runign and rng.random() < 0.5:
                    continue
                out.append(scn([PASS(), failing_test(kind, phase, rng, ign=1), full()], cli=cli, runign=runign, mac=1,
                               repeat=rng.choice([1, 1, 2]) if cli else 1))
    # tests of a group without setup / teardown (body only) and of one with; only ignored tests; only a failing ignored test
    for runign in (1, 0):
        for cli in (1, 0):
            for b in (":x 0 69", ":j 1 6b", ":s", ":o", ck("longs", 0, 0x6d), ck("c_int", 0, 0x6f, 1)):
                out.append(scn([test(ign=1, body=[":c", b, ":c"])], cli=cli, runign=runign, mac=1))
                out.append(scn([test(body=[":c"]), test(ign=1, body=[":n", b, ":c"]), full(ign=1)], cli=cli, runign=runign, mac=1))
            out.append(scn([test(ign=1, body=[":c"]), full(ign=1)], cli=cli, runign=runign, mac=1))
            out.append(scn([test(ign=1), test(ign=1, setup=[":c"]), test(), test(teardown=[":c"])], cli=cli, runign=runign, mac=1))
    # -ri with a name filter, repetitions, static state in an ignored test
    for R in (2, 3, 0):
        pos = rng.randrange(R if R else 2)
        out.append(scn([full(), failing_test("x", 1, rng, ign=1, when=("eq", pos)), test(sel=0, ign=1, body=[":x 0 5"])], cli=1, filt=1, runign=1, repeat=R, mac=1))
        out.append(scn([failing_test("j", 2, rng, ign=1, when=("ne", pos)), PASS()], cli=1, runign=1, repeat=R, mac=1))
        out.append(scn([failing_test("s", 0, rng, ign=1, when=("eq", pos)), PASS()], cli=1, runign=0, repeat=R, mac=1))
    # every assert entry point inside the body of an IGNORE_TEST run with -ri
    for j, kind in enumerate(CK_NAMES):
        line = (110, 109, 111)[j % 3]
        out.append(scn([test(line=100, ign=1, setup=[":c"] if j % 2 else [], body=[":c", ck(kind, 0, line, j % 2), ":c"]), PASS()],
                       cli=j % 3 != 0, runign=1, mac=1))
    # the pool's limits: 16 TESTs and 8 IGNORE_TESTs of each group, all failing (a long failing run through macro-made shells)
    big = ([failing_test(KINDS[j % 4], j % 3, rng) for j in range(16)] + [test(body=[st(KINDS[j % 4], rng)]) for j in range(16)]
           + [failing_test(KINDS[j % 4], j % 3, rng, ign=1) for j in range(8)] + [test(ign=1, body=[":c", st(KINDS[j % 4], rng)]) for j in range(8)])
    for runign in (1, 0):
        order = list(big); rng.shuffle(order)
        out.append(scn(order, cli=1, runign=runign, mac=1))
    # try blocks and CHECK_THROWS inside macro-made tests
    for hk, blk, hd in (("std", [":c", ":x 0 69", ":c"], [":x 0 6b"]), ("std", [":s"], [":c"]), ("int", [":o"], [":j 0 6d"]), ("unrel", [":j 1 6f"], [":c"])):
        for ign in (0, 1):
            out.append(scn([test(ign=ign, body=[":c", tr(hk, blk, hd), ":c"]), full(ign=ign, line=20)], cli=1, runign=1, mac=1))
    out.append(scn([test(ign=1, setup=[cthrows("std", [":c", ":s"])], body=[cthrows("int", [":c"]), ":c"], teardown=[":c"])], cli=1, runign=1, mac=1))
    # through the real console, in one process and with every test in a forked child
    sep_mode = io_modes(rng, sep=1); any_mode = io_modes(rng)
    for (kind, phase) in KIND_PHASE[::2 if tier == "quick" else 1]:
        out.append(scn([full(), failing_test(kind, phase, rng, ign=1), PASS()], cli=1, runign=1, mac=1, io=next(sep_mode)))
        out.append(scn([failing_test(kind, phase, rng, ign=1), PASS()], cli=1, runign=rng.randrange(2), mac=1, io=next(any_mode)))
    # random programs
    n = 120 if tier == "quick" else 4000
    for _ in range(n):
        nt = rng.choice([1, 2, 3, 5, 8, 12])
        pfail = rng.choice([0.0, 0.15, 0.3, 0.6])
        filt = int(rng.random() < 0.3)
        cli = int(rng.random() < 0.7)
        repeat = rng.choice([1, 1, 2, 3, 0]) if cli else 1
        prep = rng.choice([0, 0.2, 0.5]) if repeat != 1 else 0
        tests = [rand_test(rng, pfail, rng.random() < 0.6, pign=rng.choice([0.2, 0.5, 0.5, 1.0]), pout=rng.choice([0, 0.1, 0.5]) if filt else 0.1, prep=prep)
                 for _ in range(nt)]
        if rng.random() < 0.4:      # groups without setup / teardown
            cfg, ts = parse(scn(tests))
            for t in ts:
                if rng.random() < 0.6: t["ph"][0] = []; t["ph"][2] = []
            tests = unparse(cfg, ts).split(" ", 6)[6]
            out.append(" ".join(["%x %x %x %x %x" % (cli, 0, filt, int(rng.random() < 0.6), repeat), "%x" % nt, tests, ":mac"]))
        else:
            out.append(scn(tests, cli=cli, filt=filt, runign=int(rng.random() < 0.6), repeat=repeat, mac=1))
    return out


def rand_phase(rng, pfail, line, allow_throw=True, prep=0.0):
    n = rng.choice([0, 1, 1, 2, 2, 3, 4, 5])
    out = []
    for _ in range(n):
        if rng.random() < prep:
            a = rand_base(rng, max(pfail, 0.6), line, allow_throw)
            out.append(rif(rng.choice(["eq", "eq", "ne", "lt", "ge"]), rng.randrange(4), a, rand_base(rng, pfail * 0.3, line, allow_throw)))
        else:
            out.append(rand_base(rng, pfail, line, allow_throw))
    return out


def rand_lines(rng, choices, prep):
    return [(rline(rng.choice(["eq", "ne", "lt", "ge"]), rng.randrange(4), rng.randrange(1, 50)) if rng.random() < prep else rng.randrange(1, 50))
            for _ in range(rng.choice(choices))]


def rand_test(rng, pfail, allow_throw=True, pign=0.1, pout=0.1, prep=0.0):
    line = rng.choice([1, 20, 100, 4000])
    return test(ign=int(rng.random() < pign), sel=int(rng.random() >= pout), line=line,
                setup=rand_phase(rng, pfail * 0.6, line, allow_throw, prep * 0.6), body=rand_phase(rng, pfail, line, allow_throw, prep),
                teardown=rand_phase(rng, pfail * 0.6, line, allow_throw, prep * 0.6),
                pre=rand_lines(rng, [0] * 8 + [1, 2], prep * 3), post=rand_lines(rng, [0] * 8 + [1, 3], prep * 3))


def generate(tier, rng):
    out = []
    modes = [dict(cli=0), dict(cli=1), dict(cli=1, repeat=3)]
    # empty registry, only passing, only ignored, only filtered out
    for m in modes:
        out.append(scn([], **m))
        out.append(scn([PASS()], **m))
        out.append(scn([test(ign=1, body=[":c"])], **m))
        out.append(scn([test(ign=1, body=[":x 0 5"])], runign=1, **m))
        out.append(scn([test(sel=0, body=[":c"])], filt=1, **m))
        out.append(scn([test(sel=0, body=[":x 0 5"])], filt=0, **m))
        out.append(scn([test(sel=0, body=[":c"]), test(ign=1)], filt=1, **m))
    # every kind x phase, single test and between passing tests
    for m in modes:
        for kind in KINDS:
            for phase in range(3):
                out.append(scn([failing_test(kind, phase)], **m))
                out.append(scn([PASS(), failing_test(kind, phase, rng), PASS()], **m))
        for phase in (3, 4):
            out.append(scn([failing_test("x", phase)], **m))
            out.append(scn([PASS(), failing_test("x", phase), PASS()], **m))
    # pairs of failing phases in one test
    for (k1, k2) in itertools.product(KINDS, KINDS):
        for (p1, p2) in ((0, 2), (1, 2), (0, 1)):
            ph = [[":c"], [":c"], [":c"]]
            ph[p1] = [":c", st(k1), ":c"]
            ph[p2] = [":n", st(k2), ":c"]
            out.append(scn([test(setup=ph[0], body=ph[1], teardown=ph[2]), PASS()], cli=rng.randrange(2)))
    # long runs of consecutive failing tests of each kind x phase: beyond the 10 slots
    for kind in KINDS:
        for phase in range(3):
            n = rng.randrange(12, 26)
            out.append(scn([failing_test(kind, phase, rng) for _ in range(n)], cli=rng.randrange(2)))
            out.append(scn([failing_test(kind, phase, rng) for _ in range(n)] + [PASS()], cli=1, repeat=2))
    for phase in (3, 4):
        out.append(scn([failing_test("x", phase) for _ in range(13)], cli=1))
    # two failing phases in every one of a long run
    for (k1, k2) in itertools.product(KINDS, KINDS):
        t = test(setup=[":c", st(k1)], body=[":c"], teardown=[st(k2), ":c"])
        out.append(scn([t] * 12, cli=rng.randrange(2)))
        t = test(setup=[":c"], body=[st(k1), ":c"], teardown=[":n", st(k2)])
        out.append(scn([t] * 12, cli=rng.randrange(2)))
    out += rep_dependent(tier, rng)
    out += check_kinds(tier, rng)
    out += console(tier, rng)
    out += try_blocks(tier, rng)
    out += macro_tests(tier, rng)
    # random programs
    n = 260 if tier == "quick" else 12000
    for _ in range(n):
        nt = rng.choice([0, 1, 2, 3, 5, 8, 13, 20, 30, 60]) if rng.random() < 0.7 else rng.randrange(0, 61)
        pfail = rng.choice([0.0, 0.05, 0.15, 0.3, 0.6, 0.9])
        allow_throw = rng.random() < 0.6
        filt = int(rng.random() < 0.35)
        cli = int(rng.random() < 0.6)
        repeat = rng.choice([1, 1, 2, 3, 4, 0]) if cli else 1
        # with several repetitions: few tests with static state, so that some repetitions are OK and others are not
        prep = rng.choice([0, 0.05, 0.2, 0.5]) if repeat != 1 else rng.choice([0, 0, 0.2])
        if prep and rng.random() < 0.6:
            nt = rng.choice([1, 2, 3, 5]); pfail = rng.choice([0.0, 0.0, 0.05])
        tests = [rand_test(rng, pfail, allow_throw, pign=rng.choice([0, 0.1, 0.5]), pout=rng.choice([0, 0.1, 0.5, 1.0]) if filt else 0.1, prep=prep) for _ in range(nt)]
        out.append(scn(tests, cli=cli, filt=filt, runign=int(rng.random() < 0.3), repeat=repeat))
    if tier == "thorough":
        # every single test with phases of length <= 2 over a reduced statement alphabet
        alpha = [":c", ":x 0 69", ":j 1 3", ":s", ":o"]
        phs = [[]] + [[a] for a in alpha] + [[a, b] for a in alpha for b in alpha]
        for su in phs:
            for bo in phs:
                for td in phs:
                    if rng.random() < 0.25:
                        out.append(scn([test(setup=su, body=bo, teardown=td)], cli=rng.randrange(2)))
    return out


def _toks(s):
    return s.split()


def has_throw(s):
    t = _toks(s)
    return ":s" in t or ":o" in t or ":t" in t or ":w" in t


MAC_RUN, MAC_IGN = 16, 8


def mac_fits(tests):
    """the harness has a fixed pool of macro-made shells: per (ignored, has setup or teardown statements) class"""
    used = {}
    for t in tests:
        c = (bool(t["ign"]), bool(t["ph"][0] or t["ph"][2]))
        used[c] = used.get(c, 0) + 1
    return all(n <= (MAC_IGN if c[0] else MAC_RUN) for c, n in used.items())


def applies(s, flavour):
    if flavour == "noexc" and has_throw(s):
        return False
    if ":mac" in _toks(s):
        cfg, tests = parse(s)
        return mac_fits(tests)
    return True


def nontrivial(s):
    cfg, tests = parse(s)
    return any(_fails(t) for t in tests)


OPS = {"eq": lambda r, k: r == k, "ne": lambda r, k: r != k, "lt": lambda r, k: r < k, "ge": lambda r, k: r >= k}


def parse(s):
    t = _toks(s)
    cfg = [int(x, 16) for x in t[:5]]
    pos = [5]

    def nxt():
        pos[0] += 1
        return t[pos[0] - 1]

    def base():
        k = nxt()
        if k in (":x", ":j"):
            return (k, int(nxt(), 16), int(nxt(), 16))
        if k == ":k":
            return (k, nxt()[1:], int(nxt(), 16), int(nxt(), 16), int(nxt(), 16))
        if k == ":t":
            hk = nxt()[1:]
            blk = tuple(base() for _k in range(int(nxt(), 16)))
            hd = tuple(base() for _k in range(int(nxt(), 16)))
            return (k, hk, blk, hd)
        if k == ":w":
            ek = nxt()[1:]; f = int(nxt(), 16); l = int(nxt(), 16)
            return (k, ek, f, l, tuple(base() for _k in range(int(nxt(), 16))))
        return (k,)

    def cond():
        op = nxt()[1:]
        return op, int(nxt(), 16)

    def stmt():
        if t[pos[0]] == ":r":
            nxt(); op, k = cond()
            return (":r", op, k, base(), base())
        return base()

    def pline():
        if t[pos[0]] == ":r":
            nxt(); op, k = cond()
            return (":r", op, k, int(nxt(), 16))
        return int(nxt(), 16)

    nt = int(nxt(), 16)
    tests = []
    for _ in range(nt):
        ign, sel, line = int(nxt(), 16), int(nxt(), 16), int(nxt(), 16)
        ph = [[stmt() for _k in range(int(nxt(), 16))] for _p in range(3)]
        pp = [[pline() for _k in range(int(nxt(), 16))] for _p in range(2)]
        tests.append(dict(ign=ign, sel=sel, line=line, ph=ph, pre=pp[0], post=pp[1]))
    io = None; mac = 0
    if pos[0] < len(t) and t[pos[0]] == ":mac":
        mac = 1; pos[0] += 1
    if pos[0] < len(t) and t[pos[0]] == ":io":
        io = [int(x, 16) for x in t[pos[0] + 1:pos[0] + 6]]
    cfg.append(io)       # cfg[5]: None, or [sink, sep, verbose, color, cap] of the console mode
    cfg.append(mac)      # cfg[6]: the tests are made by the public macros
    return cfg, tests


def unparse(cfg, tests):
    def btok(x):
        if x[0] == ":t":
            return tr(x[1], [btok(y) for y in x[2]], [btok(y) for y in x[3]])
        if x[0] == ":w":
            return ":w :%s %x %x %s" % (x[1], x[2], x[3], lst([btok(y) for y in x[4]]))
        return x[0] if len(x) == 1 else ":k :%s %x %x %x" % x[1:] if x[0] == ":k" else "%s %x %x" % x

    def stok(x):
        return rif(x[1], x[2], btok(x[3]), btok(x[4])) if x[0] == ":r" else btok(x)

    def ptok(x):
        return rline(x[1], x[2], x[3]) if isinstance(x, tuple) else x
    return scn([test(t["ign"], t["sel"], t["line"], [stok(x) for x in t["ph"][0]], [stok(x) for x in t["ph"][1]],
                     [stok(x) for x in t["ph"][2]], [ptok(x) for x in t["pre"]], [ptok(x) for x in t["post"]]) for t in tests],
               cli=cfg[0], rethrow=cfg[1], filt=cfg[2], runign=cfg[3], repeat=cfg[4], io=cfg[5] if len(cfg) > 5 else None,
               mac=cfg[6] if len(cfg) > 6 else 0)


def simple_how(b):
    """how a simple statement leaves: 'done', 'jump' (C-style failing check: longjmp), 'xfail' (C++-style failing check: the framework's
    exception in a build with exceptions), 'std' / 'other' (an exception of the program's own)"""
    if b[0] in (":n", ":c"): return "done"
    if b[0] == ":x": return "xfail"
    if b[0] == ":j": return "jump"
    if b[0] == ":s": return "std"
    if b[0] == ":o": return "other"
    if b[0] == ":k":
        return "done" if k_passes(b[1], b[2]) else "jump" if b[1] in C_STYLE else "xfail"
    raise ValueError(b)


def simple_counted(b):
    return 1 if b[0] in (":c", ":x", ":j") else k_counted(b[1], b[2]) if b[0] == ":k" else 0


def simple_fail(b):
    """(file, line) of the record a failing check demands"""
    return (b[3], b[4]) if b[0] == ":k" else (b[1], b[2])


def inner_run(lst_):
    """the statements of a block that execute (up to and including the first that does not pass) -> (n executed, checks, [(file, line)], how)"""
    n = checks = 0; fails = []
    for b in lst_:
        n += 1; checks += simple_counted(b)
        h = simple_how(b)
        if h in ("jump", "xfail"): fails.append(simple_fail(b))
        if h != "done": return n, checks, fails, h
    return n, checks, fails, "done"


def catches(hk, how):
    """C++: catch (const std::exception&) takes the std exception, catch (int) the foreign one (an int), a handler for an unrelated class
    nothing, catch (...) everything -- the framework's own exception of a failing C++-style check included (and ONLY catch (...) takes that)"""
    return hk == "all" or (hk == "std" and how == "std") or (hk == "int" and how == "other")


def b_sem(b):
    """-> dict(how, checks, fails [(file, line)], subs [sub numbers], escapes): independent python reading of one statement of a phase"""
    if b[0] == ":t":
        n, c, f, h = inner_run(b[2])
        subs = list(range(n))
        if h in ("xfail", "std", "other") and catches(b[1], h):
            n2, c2, f2, h2 = inner_run(b[3])
            return dict(how=h2, checks=c + c2, fails=f + f2, subs=subs + [len(b[2]) + j for j in range(n2)])
        return dict(how=h, checks=c, fails=f, subs=subs)
    if b[0] == ":w":
        n, c, f, h = inner_run(b[4])
        subs = list(range(n))
        if h == "jump":
            return dict(how="jump", checks=c, fails=f, subs=subs)
        if h in ("std", "other") and catches(b[1], h):
            return dict(how="done", checks=c + 1, fails=f, subs=subs)
        return dict(how="xfail", checks=c + 1, fails=f + [(b[2], b[3])], subs=subs)      # threw nothing / a different type
    h = simple_how(b)
    return dict(how=h, checks=simple_counted(b), fails=[simple_fail(b)] if h in ("jump", "xfail") else [], subs=[])


def b_passes(b):
    return b_sem(b)["how"] == "done"


def b_counted(b):
    return b_sem(b)["checks"]


def b_intercepts(b):
    """catch (...) (CHECK_THROWS has one) around a C++-style check that can fail: outside what the property's text decides"""
    blk = b[2] if b[0] == ":t" and b[1] == "all" else b[4] if b[0] == ":w" else ()
    return any(simple_how(y) == "xfail" for y in blk)


def intercepting(tests):
    return any(b_intercepts(b) for t in tests for p in t["ph"] for x in p for b in _bases(x))


def _bases(x):
    return [x[3], x[4]] if x[0] == ":r" else [x]


def _fails(t):
    return any(not b_passes(b) for p in t["ph"] for x in p for b in _bases(x)) or t["pre"] or t["post"]


def _dependent(t):
    return any(x[0] == ":r" for p in t["ph"] for x in p) or any(isinstance(x, tuple) for x in t["pre"] + t["post"])


def at_rep(t, r):
    """the test as it behaves in repetition r (independent python reading of the scenario language)"""
    ph = [[(x[3] if OPS[x[1]](r, x[2]) else x[4]) if x[0] == ":r" else x for x in p] for p in t["ph"]]
    lines = lambda l: [(x[3] if isinstance(x, tuple) else x) for x in l if not isinstance(x, tuple) or OPS[x[1]](r, x[2])]
    return dict(t, ph=ph, pre=lines(t["pre"]), post=lines(t["post"]))


def n_reps(cfg):
    return (cfg[4] if cfg[4] else 2) if cfg[0] else 1


def want_rep(cfg, tests, r, with_subs=False):
    """independent python reading of what repetition r must show: (checks, [(test, file, line, kind)] in order)"""
    res = {"checks": 0, "fails": [], "subs": [], "events": []}
    for i, t0 in enumerate(tests):
        t = at_rep(t0, r)
        if (cfg[2] and not t["sel"]) or (t["ign"] and not cfg[3]):
            continue
        res["fails"] += [(i, 2, l, 3) for l in t["pre"]]

        def phase(pi, p):
            for k, b in enumerate(p):
                m = b_sem(b)
                res["events"].append((i, pi, k))
                res["checks"] += m["checks"]
                res["fails"] += [(i, f, l, 0) for (f, l) in m["fails"]]
                res["subs"] += [(i, pi, k, j) for j in m["subs"]]
                if m["how"] in ("std", "other"):
                    res["fails"].append((i, 0, t["line"], 1))
                if m["how"] != "done":
                    return False
            return True
        if phase(0, t["ph"][0]):
            phase(1, t["ph"][1])
        phase(2, t["ph"][2])
        res["fails"] += [(i, 2, l, 3) for l in t["post"]]
    if with_subs == "all":
        return res
    if with_subs:
        return res["checks"], res["fails"], res["subs"]
    return res["checks"], res["fails"]


def rep_outcomes(cfg, tests):
    """per repetition: True = the repetition is OK (no failure, and at least one test ran or was ignored)"""
    res = []
    for r in range(n_reps(cfg)):
        failed = False; counted = 0
        for t0 in tests:
            t = at_rep(t0, r)
            if cfg[2] and not t["sel"]:
                continue
            counted += 1
            if t["ign"] and not cfg[3]:
                continue
            stops = lambda p: any(not b_passes(x) for x in p)
            if t["pre"] or t["post"] or stops(t["ph"][0]) or stops(t["ph"][2]) or (not stops(t["ph"][0]) and stops(t["ph"][1])):
                failed = True
        res.append(not failed and counted > 0)
    return res


def classify(s):
    cfg, tests = parse(s)
    lab = ["mode=" + ("cli" if cfg[0] else "registry"), "repeat=%d" % cfg[4], "tests=%s" % ("0" if not tests else "1" if len(tests) == 1 else "2-10" if len(tests) <= 10 else "11-25" if len(tests) <= 25 else "26+")]
    if cfg[2]: lab.append("filter")
    if cfg[3]: lab.append("run-ignored")
    if cfg[5]:
        io = cfg[5]
        lab.append("console=%s" % ("pipe" if io[0] == 1 else "file"))
        lab.append("console-%s" % ("separate-process" if io[1] else "one-process"))
        if io[2]: lab.append("console-verbose")
        if io[3]: lab.append("console-colour")
        lab.append("console-buffer=%s" % ("tiny" if io[4] < 0x100 else "large" if io[4] > 0x1000 else "usual"))
        if io[1]:
            w = want_console(cfg, tests)
            lab.append("console-p:%s" % ("no-child-fails" if not any(r["fails"] for r in w) else "a-child-fails"))
            if any(len(set(f[0] for f in r["fails"])) > 1 for r in w): lab.append("console-p:fork-after-the-runner-printed-a-failure")
            if len(w) > 1 and any(r["fails"] for r in w[1:]): lab.append("console-p:child-fails-after-a-summary-was-printed")
            if any(len([f for f in r["fails"] if f[0] == i]) > 40 for r in w for i in range(len(tests))): lab.append("console-p:child-prints-more-than-a-buffer")
    longest = cur = 0
    for t in tests:
        started = (t["sel"] or not cfg[2]) and (not t["ign"] or cfg[3])
        if started and _fails(t):
            cur += 1; longest = max(longest, cur)
        elif started:
            cur = 0
    lab.append("longest-failing-run=%s" % ("0" if longest == 0 else "1-10" if longest <= 10 else "11+"))
    names = {":x": "cxx-check", ":j": "c-check", ":s": "std-exception", ":o": "foreign-exception"}
    for pi, pn in enumerate(("setup", "body", "teardown")):
        for k, kn in names.items():
            if any(b[0] == k for t in tests for x in t["ph"][pi] for b in _bases(x)):
                lab.append("%s-in-%s" % (kn, pn))
    for pi, pn in enumerate(("setup", "body", "teardown")):
        ks = [b for t in tests for x in t["ph"][pi] for b in _bases(x) if b[0] == ":k"]
        if any(not k_passes(b[1], b[2]) for b in ks): lab.append("kind-check-fails-in-%s" % pn)
        if any(k_passes(b[1], b[2]) for b in ks): lab.append("kind-check-passes-in-%s" % pn)
    for b in sorted(set((b[1], k_passes(b[1], b[2])) for t in tests for p in t["ph"] for x in p for b in _bases(x) if b[0] == ":k")):
        lab.append("kind=%s:%s" % (b[0], "pass" if b[1] else "fail"))
    if any(b[0] == ":k" and b[1] in ZERO_LENGTH for t in tests for p in t["ph"] for x in p for b in _bases(x)): lab.append("zero-length-binary-compare")
    if any(b[0] == ":k" and b[1] == "m_compare" and b[2] for t in tests for p in t["ph"] for x in p for b in _bases(x)): lab.append("uncounted-passing-compare-macro")
    extra = []
    for t in tests:
        for pi, pn in enumerate(("setup", "body", "teardown")):
            for x in t["ph"][pi]:
                for b in _bases(x):
                    if b[0] == ":t":
                        h = inner_run(b[2])[3]
                        entered = h in ("xfail", "std", "other") and catches(b[1], h)
                        extra.append("try-catch-%s-in-%s" % (b[1], pn))
                        extra.append("try:catch-%s:block-leaves-%s:%s" % (b[1], h, "handler-entered" if entered else "handler-not-entered"))
                        if entered: extra.append("try:handler-leaves-%s" % inner_run(b[3])[3])
                        if h in ("xfail", "jump") and b[3] and b[1] != "all": extra.append("try:failing-check-in-front-of-a-typed-handler-with-statements")
                    elif b[0] == ":w":
                        extra.append("check-throws-%s:helper-leaves-%s" % (b[1], inner_run(b[4])[3]))
                        extra.append("check-throws-in-%s" % pn)
    if intercepting(tests): extra.append("catch-all-around-a-cxx-check (outside the oracle: model compared)")
    if cfg[6]:
        extra.append("macro-made-tests")
        if any(t["ign"] for t in tests):
            extra.append("macro:IGNORE_TEST-%s" % ("run-with-ri" if cfg[3] else "not-run"))
        if cfg[3] and any(t["ign"] and _fails(t) and (t["sel"] or not cfg[2]) for t in tests): extra.append("macro:failing-IGNORE_TEST-run-with-ri")
        if any(not (t["ph"][0] or t["ph"][2]) for t in tests): extra.append("macro:group-without-setup-teardown")
        if any(t["ph"][0] or t["ph"][2] for t in tests): extra.append("macro:group-with-setup-teardown")
    lab += sorted(set(extra))
    if any(t["pre"] for t in tests): lab.append("plugin-pre-failure")
    if any(t["post"] for t in tests): lab.append("plugin-post-failure")
    if any(_dependent(t) for t in tests):
        lab.append("repetition-dependent")
    oks = rep_outcomes(cfg, tests)
    if len(oks) > 1:
        if all(oks): lab.append("repetitions=all-ok")
        elif not any(oks): lab.append("repetitions=none-ok")
        else:
            lab.append("repetitions=mixed")
            bad = [i for i, o in enumerate(oks) if not o]
            if bad == [0]: lab.append("only-first-repetition-fails")
            elif bad == [len(oks) - 1]: lab.append("only-last-repetition-fails")
            elif len(bad) == 1: lab.append("only-a-middle-repetition-fails")
            if oks[-1]: lab.append("last-repetition-ok-after-a-failing-one")
            if oks[0]: lab.append("first-repetition-ok-before-a-failing-one")
    return lab


def extra_oracle(s, o, flavour):
    """third opinion on the exit-value clause, from the printed summaries alone and from a python reading of the program:
    the returned value is zero iff every repetition's summary reads OK iff every repetition of the program is OK"""
    cfg, tests = parse(s)
    if cfg[1] or o.startswith("!") or o == "skip" or intercepting(tests):
        return None
    if cfg[5]:
        try:
            ob = parse_console_obs(o)
        except Exception:
            return None
        return None if ob["escaped"] else console_oracle(cfg, tests, ob)
    try:
        ob = parse_obs(o)
    except Exception:
        return None
    if ob["escaped"]:
        return None
    # ... and on the two clauses about single checks: every failure printed once where it happened, "checks" = counted checks executed
    if len(ob["reps"]) == n_reps(cfg):
        for r, rp in enumerate(ob["reps"]):
            checks, fails, subs = want_rep(cfg, tests, r, True)
            got = [tuple(int(x, 16) for x in f) for f in rp["fl"]]
            if got != fails:
                return "repetition %d prints the failures (test, file, line, kind) %s, the program demands %s" % (r, got, fails)
            gsub = [tuple(int(x, 16) for x in u) for u in rp["sb"]]
            if gsub != subs:
                return ("repetition %d: inside the try blocks the statements (test, phase, idx, sub) %s ran, the program demands %s "
                        "(nothing behind a failing check, no handler entered for it)" % (r, gsub, subs))
            if rp["sm"] is not None and int(rp["sm"][4], 16) != checks:
                return "the summary of repetition %d says %d checks, the program executed %d counted checks" % (r, int(rp["sm"][4], 16), checks)
    if not cfg[0] or ob["ret"] == "~":
        return None
    zero = ob["ret"] == "0"
    printed = [r["sm"] is not None and r["sm"][0] == "1" for r in ob["reps"]]
    want = rep_outcomes(cfg, tests)
    if len(printed) != len(want):
        return "%d repetitions were run, -r%x asks for %d" % (len(printed), cfg[4], len(want))
    if zero != all(printed):
        return "returned value %s although the summaries of the repetitions read %s" % (ob["ret"], ["OK" if p else "Errors" for p in printed])
    if printed != want:
        return "the summaries read %s, the program demands %s" % (["OK" if p else "Errors" for p in printed], ["OK" if p else "Errors" for p in want])
    return None


def project(o, flavour):
    """the property fixes only whether the returned value is zero"""
    t = o.split()
    k = 2 if t and t[0] == ":io" else 1
    if len(t) > k and t[k] not in ("~", "0"):
        t[k] = "nonzero"
    return " ".join(t)


def parse_console_obs(o):
    """:io <escaped> <ret> <n> items -> dict(escaped, ret, items=[("f", test, file, line, kind) | ("s", ok, nfail|None, tests, run, checks, ign, filt)])"""
    t = o.split()
    items = []
    i = 4
    for _ in range(int(t[3], 16)):
        if t[i] == ":f":
            items.append(("f",) + tuple(int(x, 16) for x in t[i + 1:i + 5])); i += 5
        else:
            items.append(("s", t[i + 1] == "1", None if t[i + 2] == "~" else int(t[i + 2], 16)) + tuple(int(x, 16) for x in t[i + 3:i + 8])); i += 8
    return dict(escaped=t[1] != "0", ret=t[2], items=items)


def want_console(cfg, tests):
    """independent python reading of what the captured bytes must hold: per repetition (records in order, OK?, tests, ran, ignored, filtered, checks)"""
    sep = cfg[5][1]
    res = []
    for r in range(n_reps(cfg)):
        checks, fails = want_rep(cfg, tests, r)
        if sep:      # the child prints the failures of its test; the runner adds its own record of a failed test at the TEST's location
            out = []
            for i, t in enumerate(tests):
                mine = [f for f in fails if f[0] == i]
                out += mine + ([(i, 0, t["line"], 1)] if mine else [])
            fails = out
        ntests = len(tests)
        filt = sum(1 for t in tests if cfg[2] and not t["sel"])
        ign = sum(1 for t in tests if not (cfg[2] and not t["sel"]) and t["ign"] and not cfg[3])
        ran = ntests - filt - ign
        res.append(dict(fails=fails, ok=(not fails and ran + ign > 0), tests=ntests, ran=ran, ign=ign, filt=filt, checks=checks))
    return res


def console_oracle(cfg, tests, ob):
    want = want_console(cfg, tests)
    segs = []; cur = []
    for it in ob["items"]:
        if it[0] == "f": cur.append(it[1:])
        else: segs.append((cur, it)); cur = []
    if cur:
        return "failure records %s stand behind the last summary" % cur
    if len(segs) != len(want):
        return "%d summaries in the captured output, %d repetitions were asked for" % (len(segs), len(want))
    for r, ((got, sm), w) in enumerate(zip(segs, want)):
        if got != w["fails"]:
            miss = [f for f in w["fails"] if got.count(f) < w["fails"].count(f)]
            more = [f for f in got if got.count(f) > w["fails"].count(f)]
            return ("repetition %d: the bytes on standard output hold the failure records (test, file, line, kind) %s, the program demands %s%s%s"
                    % (r, got, w["fails"], "; printed too seldom: %s" % sorted(set(miss)) if miss else "", "; printed too often: %s" % sorted(set(more)) if more else ""))
        if sm[1] != w["ok"] or (sm[2] is not None) != bool(w["fails"]) or sm[3:5] != (w["tests"], w["ran"]) or sm[6:8] != (w["ign"], w["filt"]):
            return "repetition %d: summary %s, the program demands ok=%s tests=%d ran=%d ignored=%d filtered=%d" % (r, sm, w["ok"], w["tests"], w["ran"], w["ign"], w["filt"])
        if not cfg[5][1] and (sm[5] != w["checks"] or sm[2] != (len(w["fails"]) or None)):
            return "repetition %d: summary %s, the program executed %d counted checks and had %d failures" % (r, sm, w["checks"], len(w["fails"]))
    if ob["ret"] != "~" and (ob["ret"] == "0") != all(w["ok"] for w in want):
        return "returned value %s although the repetitions are %s" % (ob["ret"], ["OK" if w["ok"] else "Errors" for w in want])
    return None


def parse_obs(o):
    t = o.split()
    i = 3
    reps = []
    for _ in range(int(t[2], 16)):
        n = int(t[i], 16); ev = [t[i + 1 + 4 * k:i + 5 + 4 * k] for k in range(n)]; i += 1 + 4 * n
        n = int(t[i], 16); fl = [t[i + 1 + 4 * k:i + 5 + 4 * k] for k in range(n)]; i += 1 + 4 * n
        n = int(t[i], 16); af = [t[i + 1 + 2 * k:i + 3 + 2 * k] for k in range(n)]; i += 1 + 2 * n
        if t[i] == "~": sm = None; i += 1
        else: sm = t[i + 1:i + 8]; i += 8
        if t[i] == "~": ct = None; i += 1
        else: ct = t[i + 1:i + 7]; i += 7
        n = int(t[i], 16); sb = [t[i + 1 + 4 * k:i + 5 + 4 * k] for k in range(n)]; i += 1 + 4 * n
        reps.append(dict(ev=ev, fl=fl, af=af, sm=sm, ct=ct, sb=sb))
    return dict(escaped=t[0] != "0", ret=t[1], reps=reps)


def signature(s, o):
    cfg, tests = parse(s)
    mode = "cli" if cfg[0] else "registry"
    if cfg[5]:
        mode = "console%s on a %s" % (" -p" if cfg[5][1] else "", "pipe" if cfg[5][0] == 1 else "file")
    if cfg[6]:
        mode += ", tests made by the public macros"
    if o.startswith("!"):
        return mode + ": " + o[:80]
    if cfg[5]:
        try:
            ob = parse_console_obs(o)
        except Exception:
            return mode + ": unreadable observation"
        if ob["escaped"]:
            return mode + ": an exception escaped the run"
        want = want_console(cfg, tests)
        got = [it[1:] for it in ob["items"] if it[0] == "f"]
        dem = [f for w in want for f in w["fails"]]
        if any(got.count(f) < dem.count(f) for f in dem):
            return mode + ": a failure record does not reach standard output (printed fewer times than it happened)"
        if any(got.count(f) > dem.count(f) for f in got):
            return mode + ": a failure record stands more often on standard output than it happened"
        if sum(1 for it in ob["items"] if it[0] == "s") != len(want):
            return mode + ": the number of summaries on standard output is not the number of repetitions"
        return mode + ": records, summaries or returned value differ from what the program demands"
    try:
        ob = parse_obs(o)
    except Exception:
        return mode + ": unreadable observation"
    if ob["escaped"]:
        return mode + ": an exception escaped the run"
    if any(a[0] != "0" for r in ob["reps"] for a in r["af"]):
        return mode + ": jump-buffer depth not restored after a test"
    if any(a[1] != "1" for r in ob["reps"] for a in r["af"]):
        return mode + ": current test/result not restored after a test"
    if any(r["sm"] is None for r in ob["reps"]):
        return mode + ": summary missing"
    if not cfg[1] and not intercepting(tests) and len(ob["reps"]) == n_reps(cfg):
        for r, rp in enumerate(ob["reps"]):
            ran = set(int(e[0], 16) for e in rp["ev"])
            for i, t in enumerate(tests):
                if (not cfg[2] or t["sel"]) and (not t["ign"] or cfg[3]) and any(t["ph"]) and i not in ran:
                    return mode + ": a test that is counted as run executed none of its setup / body / teardown" + (" (an ignored test run with -ri)" if t["ign"] else "")
            subs = want_rep(cfg, tests, r, True)[2]
            gsub = [tuple(int(x, 16) for x in u) for u in rp["sb"]]
            if gsub != subs:
                if any(u not in subs for u in gsub):
                    return mode + ": inside a try block a statement ran that must not (behind a failing check, or a handler entered for the check's exit)"
                return mode + ": inside a try block a statement that must run did not"
            wev = want_rep(cfg, tests, r, "all")["events"]
            gev = [tuple(int(x, 16) for x in e[:3]) for e in rp["ev"]]
            if gev != wev:
                if any(e not in wev for e in gev):
                    return mode + ": a statement of a phase ran that must not (behind a failing check or an escaping exception, or a body after a failed setup)"
                return mode + ": a statement of a phase that must run did not"
    if cfg[0] and ob["ret"] != "~":
        printed = [r["sm"][0] == "1" for r in ob["reps"]]
        if (ob["ret"] == "0") != all(printed):
            return mode + ": returned value %s zero although %s" % ("is" if ob["ret"] == "0" else "is not", "a repetition's summary reads Errors" if not all(printed) else "every summary reads OK")
        if len(printed) == n_reps(cfg) and printed != rep_outcomes(cfg, tests):
            return mode + ": the summary of a repetition reads OK/Errors against what that repetition did"
    kinds = sorted(set(b[1] for t in tests for p in t["ph"] for x in p for b in _bases(x) if b[0] == ":k"))
    tag = " [check kind %s]" % kinds[0] if len(kinds) == 1 else ""
    if not cfg[1] and len(ob["reps"]) == n_reps(cfg):
        for r, rp in enumerate(ob["reps"]):
            checks, fails = want_rep(cfg, tests, r)
            got = [tuple(int(x, 16) for x in f) for f in rp["fl"]]
            if len(got) == len(fails) and got != fails and [(g[0], g[3]) for g in got] == [(f[0], f[3]) for f in fails]:
                return mode + ": a failure is printed with a file/line other than the one where it happened" + tag
            if got == fails and int(rp["sm"][4], 16) != checks:
                return mode + ": the checks figure of a summary is not the number of counted checks executed" + tag
    return mode + ": trace, failure records, counts or returned value differ from what the program demands"


def shrink(s):
    cfg, tests = parse(s)
    # fewer tests
    n = len(tests)
    if n > 1:
        yield unparse(cfg, tests[:n // 2])
        yield unparse(cfg, tests[n // 2:])
    for i in range(n):
        yield unparse(cfg, tests[:i] + tests[i + 1:])
    # no static state: a conditional statement / plugin line becomes one of its two behaviours
    for i, t in enumerate(tests):
        for p in range(3):
            for k, x in enumerate(t["ph"][p]):
                if x[0] == ":r":
                    for b in (x[3], x[4]):
                        t2 = dict(t); t2["ph"] = [list(y) for y in t["ph"]]; t2["ph"][p][k] = b
                        yield unparse(cfg, tests[:i] + [t2] + tests[i + 1:])
        for key in ("pre", "post"):
            for k, x in enumerate(t[key]):
                if isinstance(x, tuple):
                    t2 = dict(t); t2[key] = t[key][:k] + [x[3]] + t[key][k + 1:]
                    yield unparse(cfg, tests[:i] + [t2] + tests[i + 1:])
    # simpler configuration
    if cfg[4] > 2: yield unparse(cfg[:4] + [cfg[4] - 1] + cfg[5:], tests)
    if cfg[4] == 0: yield unparse(cfg[:4] + [2] + cfg[5:], tests)
    if cfg[4] > 1: yield unparse(cfg[:4] + [1] + cfg[5:], tests)
    if cfg[0] and not cfg[5]: yield unparse([0] + cfg[1:4] + [1, None], tests)
    if cfg[3]: yield unparse(cfg[:3] + [0] + cfg[4:], tests)
    # simpler console mode: no -v, no -c, the usual buffer, one process, a pipe; no console mode at all
    io = cfg[5]
    if io:
        if io[2]: yield unparse(cfg[:5] + [[io[0], io[1], 0, io[3], io[4]]], tests)
        if io[3]: yield unparse(cfg[:5] + [[io[0], io[1], io[2], 0, io[4]]], tests)
        if io[4] != 0x1000: yield unparse(cfg[:5] + [[io[0], io[1], io[2], io[3], 0x1000]], tests)
        if io[1]: yield unparse(cfg[:5] + [[io[0], 0, io[2], io[3], io[4]]], tests)
        if io[0] != 1: yield unparse(cfg[:5] + [[1] + io[1:]], tests)
        yield unparse(cfg[:5] + [None], tests)
    # fewer statements
    for i, t in enumerate(tests):
        for p in range(3):
            for k in range(len(t["ph"][p])):
                t2 = dict(t); t2["ph"] = [list(x) for x in t["ph"]]; del t2["ph"][p][k]
                yield unparse(cfg, tests[:i] + [t2] + tests[i + 1:])
        for key in ("pre", "post"):
            if t[key]:
                t2 = dict(t); t2[key] = t[key][1:]
                yield unparse(cfg, tests[:i] + [t2] + tests[i + 1:])
    # smaller compound statements: fewer statements inside the block / the handler; a simpler handler type
    def smaller(b):
        if b[0] == ":t":
            for j in range(len(b[3])): yield (b[0], b[1], b[2], b[3][:j] + b[3][j + 1:])
            for j in range(len(b[2])): yield (b[0], b[1], b[2][:j] + b[2][j + 1:], b[3])
            if b[1] not in ("std", "all"): yield (b[0], "std", b[2], b[3])
        if b[0] == ":w":
            for j in range(len(b[4])): yield b[:4] + (b[4][:j] + b[4][j + 1:],)
    for i, t in enumerate(tests):
        for p in range(3):
            for k, x in enumerate(t["ph"][p]):
                cands = [(":r", x[1], x[2], y, x[4]) for y in smaller(x[3])] + [(":r", x[1], x[2], x[3], y) for y in smaller(x[4])] if x[0] == ":r" else list(smaller(x))
                for y in cands:
                    t2 = dict(t); t2["ph"] = [list(z) for z in t["ph"]]; t2["ph"][p][k] = y
                    yield unparse(cfg, tests[:i] + [t2] + tests[i + 1:])
    # earlier repetition numbers in the conditions
    for i, t in enumerate(tests):
        for p in range(3):
            for k, x in enumerate(t["ph"][p]):
                if x[0] == ":r" and x[2] > 0:
                    t2 = dict(t); t2["ph"] = [list(y) for y in t["ph"]]; t2["ph"][p][k] = (":r", x[1], x[2] - 1, x[3], x[4])
                    yield unparse(cfg, tests[:i] + [t2] + tests[i + 1:])


LEVEL_TEXT = ("Machine-checked (Coq) theorems over an executable model of the test lifecycle: the jump-buffer bookkeeping of "
              "PlatformSpecificSetJmp/LongJmp/RestoreJumpBuffer, both variants of Utest::run, runOneTest/runOneTestInCurrentProcess, the "
              "registry loop, the six TestResult counters, the summary and the runner's repeat loop and return value. Proved for all programs, "
              "all mixes of failure kinds and both builds: lifecycle, failures recorded exactly once, jump depth and test context restored after "
              "every test (hence no slot overflow for any number of consecutive failing tests), true summary counts, OK iff no failure and "
              "something ran or was ignored, exit value zero iff every repetition OK; a check through any of the 40 assert entry points (20 UtestShell "
              "member functions, 19 C-interface functions, the CHECK_COMPARE macro) adds exactly `counted kind agree` to the checks figure and, when it "
              "fails, exactly one failure record at the location it was handed (C01_checkk_step, C01_checkk_wants, C01_uncounted_only_macro). "
              "The bytes on standard output: a model of a buffered stdio stream shared by the runner and a forked child (buffer = process state, fork copies it, "
              "_exit drops it, exit / flush / a full buffer write it out); with the code's discipline (ConsoleTestOutput::printBuffer flushes after every fputs) "
              "the file holds every printed chunk exactly once, for every capacity (C01_stdio_flush_each); the right disciplines are exactly that one and "
              "'flush before fork and when the child leaves' (C01_stdio_once_iff), the seeded 'no flush' loses the child's record and duplicates the runner's "
              "(C01_stdio_noflush_refuted, C01_console_noflush_refuted); for every valid scenario run through the console, in one process or with -p, the records "
              "in the captured bytes are exactly the demanded ones, one summary per repetition with the true verdict, returned value zero iff every repetition OK "
              "(C01_console_records_once, C01_console_summaries_true, C01_console_exit_value, C01_console_independent). "
              "User try blocks and CHECK_THROWS: machine-level step of every statement, simple or compound, from any state (C01_stmt_step); a failing check inside "
              "a try block with a handler for ANY type leaves the phase the way the check does, enters no handler, runs nothing behind it and records "
              "exactly one failure (C01_try_failing_check, C01_try_failing_check_step, C01_nothing_after_try_check); the framework's exception is caught by "
              "catch (...) only (C01_failed_check_caught_only_by_catch_all); caught / uncaught exceptions of the program's own (C01_try_caught_exception, "
              "C01_try_uncaught_exception), the four outcomes of CHECK_THROWS (C01_check_throws_cases); what is outside the oracle is exactly catch (...) / "
              "CHECK_THROWS around a C++-style check that can fail (C01_intercepts_iff, C01_spec_out_of_scope); ignored tests: counted as ignored without "
              "-ri, their OWN phases run and count with -ri (C01_ignored_not_run, C01_run_ignored_runs_own_phases, C01_run_ignored_started); the oracle "
              "on the programs of red-team C01-1 / C01-2 accepts only observations without handler statements / with the ignored test's phases, and "
              "rejects what the seeded trees show (C01_try_oracle, C01_try_std_handler_rejected, C01_run_ignored_oracle, "
              "C01_run_ignored_not_instantiated_rejected). "
              "PARTIAL: which operands make a given "
              "assert function fail is not modelled here (the comparison functions are C03/C13/C14's business): a check statement carries `agree`; "
              "real longjmp/unwinding is exhibited only by the "
              "instrumented runs (ASan/UBSan, builds with and without exceptions), which compare the extracted model with the real classes.")
LEVEL_NOTE = ("Trusted: Coq kernel, extraction (ExtrOcamlBasic), harness (scripted UtestShells, text parser for failure locations and summary), "
              "generators, the jump-depth hook. Modelled not verified: the C++ itself; longjmp/exceptions by contract; rethrowExceptions=true with "
              "throwing programs is outside the quantifier (DESIGN C01); the size_t->int truncation of the return value is a stated limit "
              "(C01_exit_value_wrap_refuted).")
TECHNIQUE = "Coq proof over hand-written executable model + extracted-model/implementation correspondence check (differential, two build flavours)"
READY = True
