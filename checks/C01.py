"""C01 -- a failing check always fails the run: lifecycle, failure count, exit value.
Scenario:  <cli> <rethrow> <filter> <runign> <repeat> <ntests> { <ignored> <sel> <line> <setup> <body> <teardown> <pre> <post> }
           stmt list = <n> { :n | :c | :x <file> <line> | :j <file> <line> | :s | :o } ; pre/post = <n> { <line> }
           (:n no-op, :c passing check, :x C++-style failing check, :j C-style (longjmp) failing check, :s throw std::runtime_error, :o throw int)
Observation: see harness/C01.cpp."""
import itertools
ID = "C01"
FLAVOURS = ["asan", "noexc"]
HARNESS_SRCS = ["harness/C01.cpp"]
RULE = ("programs of 0-60 scripted tests, phases of 0-5 statements; every failure kind (C++-style check, C-style check, std exception, "
        "foreign exception, plugin-reported) x phase (setup, body, teardown, plugin pre/post) systematically, pairs of failing phases, "
        "runs of 12-25 consecutive failing tests of each kind x phase (beyond the 10 jump-buffer slots), interleaved with passing / ignored / "
        "filtered-out tests, repeat 1-4, -ri, through TestRegistry::runAllTests and through CommandLineTestRunner::runAllTestsMain; "
        "flavour noexc (-fno-exceptions) judges the programs without throw statements. "
        "non-trivial = at least one test that is started has a failing statement, an escaping exception or a plugin failure")
ASSUMPTIONS = ["rethrowExceptions off (-e / -ci) whenever a program can throw: DESIGN C01 scope decision",
               "fewer than 2^31 failures in total (the runner's size_t -> int return value would wrap; needs 2^32 failing checks)",
               "failing checks in constructors/destructors of tests and exceptions thrown by plugins are outside the quantifier",
               "longjmp and C++ unwinding obey their contract (the instrumented ASan/UBSan runs exhibit the real ones)"]
PER_TIMEOUT = 30.0
KINDS = ["x", "j", "s", "o"]


def st(kind, rng=None, tline=100):
    if kind in ("n", "c", "s", "o"):
        return ":" + kind
    f = 0 if rng is None else (1 if rng.random() < 0.25 else 0)
    l = tline + 5 if rng is None else max(1, tline + rng.choice([-7, -1, 0, 1, 3, 40]))
    return ":%s %x %x" % (kind, f, l)


def lst(items):
    return " ".join(["%x" % len(items)] + list(items))


def test(ign=0, sel=1, line=100, setup=(), body=(), teardown=(), pre=(), post=()):
    return " ".join(["%x %x %x" % (ign, sel, line), lst(setup), lst(body), lst(teardown), lst(["%x" % p for p in pre]), lst(["%x" % p for p in post])])


def scn(tests, cli=0, rethrow=0, filt=0, runign=0, repeat=1):
    return " ".join(["%x %x %x %x %x" % (cli, rethrow, filt, runign, repeat), lst(tests)])


PASS = lambda: test(body=[":c", ":n"])


def failing_test(kind, phase, rng=None, line=100):
    """one test failing with `kind` in `phase` (0 setup, 1 body, 2 teardown, 3 plugin pre, 4 plugin post), passing statements around it"""
    ph = [[":c"], [":n", ":c"], [":c"]]
    pre, post = [], []
    if phase < 3:
        k = 0 if rng is None else rng.randrange(len(ph[phase]) + 1)
        ph[phase] = ph[phase][:k] + [st(kind, rng, line)] + ph[phase][k:] + [":c"]
    elif phase == 3:
        pre = [7]
    else:
        post = [9]
    return test(line=line, setup=ph[0], body=ph[1], teardown=ph[2], pre=pre, post=post)


def rand_phase(rng, pfail, line, allow_throw=True):
    n = rng.choice([0, 1, 1, 2, 2, 3, 4, 5])
    out = []
    for _ in range(n):
        if rng.random() < pfail:
            out.append(st(rng.choice(KINDS if allow_throw else KINDS[:2]), rng, line))
        else:
            out.append(rng.choice([":n", ":c", ":c"]))
    return out


def rand_test(rng, pfail, allow_throw=True, pign=0.1, pout=0.1):
    line = rng.choice([1, 20, 100, 4000])
    return test(ign=int(rng.random() < pign), sel=int(rng.random() >= pout), line=line,
                setup=rand_phase(rng, pfail * 0.6, line, allow_throw), body=rand_phase(rng, pfail, line, allow_throw),
                teardown=rand_phase(rng, pfail * 0.6, line, allow_throw),
                pre=[rng.randrange(1, 50) for _ in range(rng.choice([0] * 8 + [1, 2]))],
                post=[rng.randrange(1, 50) for _ in range(rng.choice([0] * 8 + [1, 3]))])


def generate(tier, rng):
    out = []
    modes = [dict(cli=0), dict(cli=1), dict(cli=1, repeat=3)]
    # empty registry, only passing, only ignored, only filtered out
    for m in modes:
        out.append(scn([], **m))
        out.append(scn([PASS()], **m))
        out.append(scn([test(ign=1, body=[":c"])], **m))
        out.append(scn([test(ign=1, body=[":x 0 5"])], runign=1, **m))
        out.append(scn([test(sel=0, body=[":c"])], filt=1, **m))
        out.append(scn([test(sel=0, body=[":x 0 5"])], filt=0, **m))
        out.append(scn([test(sel=0, body=[":c"]), test(ign=1)], filt=1, **m))
    # every kind x phase, single test and between passing tests
    for m in modes:
        for kind in KINDS:
            for phase in range(3):
                out.append(scn([failing_test(kind, phase)], **m))
                out.append(scn([PASS(), failing_test(kind, phase, rng), PASS()], **m))
        for phase in (3, 4):
            out.append(scn([failing_test("x", phase)], **m))
            out.append(scn([PASS(), failing_test("x", phase), PASS()], **m))
    # pairs of failing phases in one test
    for (k1, k2) in itertools.product(KINDS, KINDS):
        for (p1, p2) in ((0, 2), (1, 2), (0, 1)):
            ph = [[":c"], [":c"], [":c"]]
            ph[p1] = [":c", st(k1), ":c"]
            ph[p2] = [":n", st(k2), ":c"]
            out.append(scn([test(setup=ph[0], body=ph[1], teardown=ph[2]), PASS()], cli=rng.randrange(2)))
    # long runs of consecutive failing tests of each kind x phase: beyond the 10 slots
    for kind in KINDS:
        for phase in range(3):
            n = rng.randrange(12, 26)
            out.append(scn([failing_test(kind, phase, rng) for _ in range(n)], cli=rng.randrange(2)))
            out.append(scn([failing_test(kind, phase, rng) for _ in range(n)] + [PASS()], cli=1, repeat=2))
    for phase in (3, 4):
        out.append(scn([failing_test("x", phase) for _ in range(13)], cli=1))
    # two failing phases in every one of a long run
    for (k1, k2) in itertools.product(KINDS, KINDS):
        t = test(setup=[":c", st(k1)], body=[":c"], teardown=[st(k2), ":c"])
        out.append(scn([t] * 12, cli=rng.randrange(2)))
        t = test(setup=[":c"], body=[st(k1), ":c"], teardown=[":n", st(k2)])
        out.append(scn([t] * 12, cli=rng.randrange(2)))
    # random programs
    n = 260 if tier == "quick" else 12000
    for _ in range(n):
        nt = rng.choice([0, 1, 2, 3, 5, 8, 13, 20, 30, 60]) if rng.random() < 0.7 else rng.randrange(0, 61)
        pfail = rng.choice([0.0, 0.05, 0.15, 0.3, 0.6, 0.9])
        allow_throw = rng.random() < 0.6
        filt = int(rng.random() < 0.35)
        tests = [rand_test(rng, pfail, allow_throw, pign=rng.choice([0, 0.1, 0.5]), pout=rng.choice([0, 0.1, 0.5, 1.0]) if filt else 0.1) for _ in range(nt)]
        cli = int(rng.random() < 0.6)
        out.append(scn(tests, cli=cli, filt=filt, runign=int(rng.random() < 0.3), repeat=rng.choice([1, 1, 2, 3, 4]) if cli else 1))
    if tier == "thorough":
        # every single test with phases of length <= 2 over a reduced statement alphabet
        alpha = [":c", ":x 0 69", ":j 1 3", ":s", ":o"]
        phs = [[]] + [[a] for a in alpha] + [[a, b] for a in alpha for b in alpha]
        for su in phs:
            for bo in phs:
                for td in phs:
                    if rng.random() < 0.25:
                        out.append(scn([test(setup=su, body=bo, teardown=td)], cli=rng.randrange(2)))
    return out


def _toks(s):
    return s.split()


def has_throw(s):
    t = _toks(s)
    return ":s" in t or ":o" in t


def applies(s, flavour):
    return not (flavour == "noexc" and has_throw(s))


def nontrivial(s):
    t = _toks(s)
    return any(x in t for x in (":x", ":j", ":s", ":o")) or " 1 7 " in s or " 1 9" in s


def parse(s):
    t = _toks(s)
    cfg = [int(x, 16) for x in t[:5]]
    i = 5
    nt = int(t[i], 16); i += 1
    tests = []
    for _ in range(nt):
        ign, sel, line = int(t[i], 16), int(t[i + 1], 16), int(t[i + 2], 16); i += 3
        ph = []
        for _p in range(3):
            n = int(t[i], 16); i += 1
            l = []
            for _k in range(n):
                k = t[i]; i += 1
                if k in (":x", ":j"):
                    l.append((k, int(t[i], 16), int(t[i + 1], 16))); i += 2
                else:
                    l.append((k,))
            ph.append(l)
        pp = []
        for _p in range(2):
            n = int(t[i], 16); i += 1
            pp.append([int(x, 16) for x in t[i:i + n]]); i += n
        tests.append(dict(ign=ign, sel=sel, line=line, ph=ph, pre=pp[0], post=pp[1]))
    return cfg, tests


def unparse(cfg, tests):
    def stok(x):
        return x[0] if len(x) == 1 else "%s %x %x" % x
    return scn([test(t["ign"], t["sel"], t["line"], [stok(x) for x in t["ph"][0]], [stok(x) for x in t["ph"][1]],
                     [stok(x) for x in t["ph"][2]], t["pre"], t["post"]) for t in tests],
               cli=cfg[0], rethrow=cfg[1], filt=cfg[2], runign=cfg[3], repeat=cfg[4])


def _fails(t):
    return any(x[0] in (":x", ":j", ":s", ":o") for p in t["ph"] for x in p) or t["pre"] or t["post"]


def classify(s):
    cfg, tests = parse(s)
    lab = ["mode=" + ("cli" if cfg[0] else "registry"), "repeat=%d" % cfg[4], "tests=%s" % ("0" if not tests else "1" if len(tests) == 1 else "2-10" if len(tests) <= 10 else "11-25" if len(tests) <= 25 else "26+")]
    if cfg[2]: lab.append("filter")
    if cfg[3]: lab.append("run-ignored")
    longest = cur = 0
    for t in tests:
        started = (t["sel"] or not cfg[2]) and (not t["ign"] or cfg[3])
        if started and _fails(t):
            cur += 1; longest = max(longest, cur)
        elif started:
            cur = 0
    lab.append("longest-failing-run=%s" % ("0" if longest == 0 else "1-10" if longest <= 10 else "11+"))
    names = {":x": "cxx-check", ":j": "c-check", ":s": "std-exception", ":o": "foreign-exception"}
    for pi, pn in enumerate(("setup", "body", "teardown")):
        for k, kn in names.items():
            if any(x[0] == k for t in tests for x in t["ph"][pi]):
                lab.append("%s-in-%s" % (kn, pn))
    if any(t["pre"] for t in tests): lab.append("plugin-pre-failure")
    if any(t["post"] for t in tests): lab.append("plugin-post-failure")
    return lab


def project(o, flavour):
    """the property fixes only whether the returned value is zero"""
    t = o.split()
    if len(t) > 1 and t[1] not in ("~", "0"):
        t[1] = "nonzero"
    return " ".join(t)


def parse_obs(o):
    t = o.split()
    i = 3
    reps = []
    for _ in range(int(t[2], 16)):
        n = int(t[i], 16); ev = [t[i + 1 + 4 * k:i + 5 + 4 * k] for k in range(n)]; i += 1 + 4 * n
        n = int(t[i], 16); fl = [t[i + 1 + 4 * k:i + 5 + 4 * k] for k in range(n)]; i += 1 + 4 * n
        n = int(t[i], 16); af = [t[i + 1 + 2 * k:i + 3 + 2 * k] for k in range(n)]; i += 1 + 2 * n
        if t[i] == "~": sm = None; i += 1
        else: sm = t[i + 1:i + 8]; i += 8
        if t[i] == "~": ct = None; i += 1
        else: ct = t[i + 1:i + 7]; i += 7
        reps.append(dict(ev=ev, fl=fl, af=af, sm=sm, ct=ct))
    return dict(escaped=t[0] != "0", ret=t[1], reps=reps)


def signature(s, o):
    cfg, tests = parse(s)
    mode = "cli" if cfg[0] else "registry"
    if o.startswith("!"):
        return mode + ": " + o[:80]
    try:
        ob = parse_obs(o)
    except Exception:
        return mode + ": unreadable observation"
    if ob["escaped"]:
        return mode + ": an exception escaped the run"
    if any(a[0] != "0" for r in ob["reps"] for a in r["af"]):
        return mode + ": jump-buffer depth not restored after a test"
    if any(a[1] != "1" for r in ob["reps"] for a in r["af"]):
        return mode + ": current test/result not restored after a test"
    if any(r["sm"] is None for r in ob["reps"]):
        return mode + ": summary missing"
    return mode + ": trace, failure records, counts or returned value differ from what the program demands"


def shrink(s):
    cfg, tests = parse(s)
    # fewer tests
    n = len(tests)
    if n > 1:
        yield unparse(cfg, tests[:n // 2])
        yield unparse(cfg, tests[n // 2:])
    for i in range(n):
        yield unparse(cfg, tests[:i] + tests[i + 1:])
    # simpler configuration
    if cfg[4] > 1: yield unparse(cfg[:4] + [1], tests)
    if cfg[0]: yield unparse([0] + cfg[1:4] + [1], tests)
    if cfg[3]: yield unparse(cfg[:3] + [0] + cfg[4:], tests)
    # fewer statements
    for i, t in enumerate(tests):
        for p in range(3):
            for k in range(len(t["ph"][p])):
                t2 = dict(t); t2["ph"] = [list(x) for x in t["ph"]]; del t2["ph"][p][k]
                yield unparse(cfg, tests[:i] + [t2] + tests[i + 1:])
        for key in ("pre", "post"):
            if t[key]:
                t2 = dict(t); t2[key] = t[key][1:]
                yield unparse(cfg, tests[:i] + [t2] + tests[i + 1:])


LEVEL_TEXT = ("Machine-checked (Coq) theorems over an executable model of the test lifecycle: the jump-buffer bookkeeping of "
              "PlatformSpecificSetJmp/LongJmp/RestoreJumpBuffer, both variants of Utest::run, runOneTest/runOneTestInCurrentProcess, the "
              "registry loop, the six TestResult counters, the summary and the runner's repeat loop and return value. Proved for all programs, "
              "all mixes of failure kinds and both builds: lifecycle, failures recorded exactly once, jump depth and test context restored after "
              "every test (hence no slot overflow for any number of consecutive failing tests), true summary counts, OK iff no failure and "
              "something ran or was ignored, exit value zero iff every repetition OK. PARTIAL: real longjmp/unwinding is exhibited only by the "
              "instrumented runs (ASan/UBSan, builds with and without exceptions), which compare the extracted model with the real classes.")
LEVEL_NOTE = ("Trusted: Coq kernel, extraction (ExtrOcamlBasic), harness (scripted UtestShells, text parser for failure locations and summary), "
              "generators, the jump-depth hook. Modelled not verified: the C++ itself; longjmp/exceptions by contract; rethrowExceptions=true with "
              "throwing programs is outside the quantifier (DESIGN C01); the size_t->int truncation of the return value is a stated limit "
              "(C01_exit_value_wrap_refuted).")
TECHNIQUE = "Coq proof over hand-written executable model + extracted-model/implementation correspondence check (differential, two build flavours)"
READY = True
