"""C11 -- separate-process mode contains every way a test can die.
Scenario:    [:ri] <all_sep 0|1> <ntests> ([:ign] test)*
  :ri  = registry-wide run-ignored switch (-ri);   :ign = the test is an IGNORE_TEST (shell derived from IgnoredUtestShell): not run
         at all without :ri (no child, no failure, counted as ignored), exactly like the unmarked test with it
  test ::= :plain <fail 0|1>                       ordinary test (own process only when all_sep = 1)
         | :scr <fork_ok 0|1> <n> wout*n           fork/waitpid replaced by stubs replaying the outcomes (then a clean exit)
               wout ::= :ei (EINTR) | :er <errno> (other error) | :x <k> exited | :k <sig> <core> killed | :s <sig> stopped | :c continued
         | :real <n> act*n  x5  <n> inj*n          a real child; actions in plugin pre action, setup, body, teardown, plugin post action
               act ::= :r <sig> raise | :e <k> _exit | :f failing check        inj ::= :ei | :er | :re (faults in front of the real waitpid)
Observation: per test ":t <started> <nf> cat*nf <waitpid calls> <SIGCONT seen> <lost>", then ":end <failures> <isFailure> <run> <ignored> <late>".
With all_sep = 0 scripted and real tests carry their own separate-process flag; with all_sep = 1 no test carries one (every child
comes from the registry-wide flag alone).  All numbers hexadecimal."""
import os, re
import vlib
ID = "C11"
FLAVOURS = ["plain"]
HARNESS_SRCS = ["harness/C11.cpp"]
PER_TIMEOUT = 40.0
CRASH_IS_VIOLATION = True


def source_bound():
    """EINTRs tolerated, re-read from the generated constants (only steers the generator to the boundary)"""
    try:
        t = open(os.path.join(vlib.COQ, "gen", "Gen_C11.v")).read()
        b = int(re.search(r"eintr_bound : N := (\d+)%N", t).group(1))
        strict = "eintr_bound_strict : bool := true" in t
        return b + 1 if strict else b
    except Exception:
        return 31


TERM = [1, 2, 3, 4, 5, 6, 7, 8, 9, 10, 11, 12, 13, 14, 15, 16, 24, 25, 26, 27, 29, 30, 31]
STOP = [19, 20, 21, 22]
IGN = [17, 18, 23, 28]
RULE = ("(a) scripted: every outcome stream of length <= 5 (quick) / <= 6 (thorough) over {EINTR, error, exit 0, exit k, killed, "
        "stopped} with boundary-weighted codes (exit 1/255/128, signals 1..126 with and without core flag, stop signals 0..255), EINTR runs "
        "of every length 0..tolerated+9 before each ending and split by stops (the counter is not reset), fork failure; (b) real children: "
        "raise(sig) for every signal 1..31 at each of the five points (plugin pre action, setup, body, teardown, plugin post action), "
        "_exit(k) (sampled in quick, all 256 in thorough), failing checks in every phase combination (setup failure skipping a deadly body), "
        "repeated stops, EINTR/error injected in front of the real waitpid at every position relative to stop and exit; (c) sequences of 2-6 "
        "tests mixing all kinds, with earlier failures (initial count > 0) and a passing last test, with and without the registry-wide flag; "
        "(d) IGNORE_TESTs with and without the run-ignored switch: an ignored real child dying by every terminating signal, by _exit(k), "
        "by a failing check or stopping, at each of the five points, in first, middle and last position, with the registry-wide flag "
        "(its only source of a child) or its own flag, next to non-ignored tests of every kind, ignored scripted streams (fork failure, "
        "EINTR overrun), runs made of ignored tests only, and the same scenarios without the switch (nothing may happen); a quarter of "
        "the random sequences carry markers and the switch. "
        "non-trivial = some test with an event other than a clean exit, or an injected/scripted wait fault")
ASSUMPTIONS = ["Linux/glibc wait-status layout and the default signal actions of signal(7); signals 1..31 only for real children",
               "the harness keeps its process group from being orphaned, so SIGTSTP/SIGTTIN/SIGTTOU stop like SIGSTOP",
               "after an EINTR overrun or a waitpid error the runner abandons the child by design (upstream test expects the give-up); "
               "the harness reaps such children itself",
               "scripted status words are 16-bit (the kernel never sets higher bits); plugin actions do not throw",
               "one runAllTests per registry (the first repetition: the shells get their separate-process and run-ignored flags from that "
               "very loop); with the registry-wide flag no shell carries a flag of its own"]


# ------------------------------------------------------------------------------------------------ formatting
def scr(ok, outs):
    return ":scr %x %x%s" % (ok, len(outs), "".join(" " + o for o in outs))


def real(pre=(), setup=(), body=(), td=(), post=(), inj=()):
    f = lambda l: "%x%s" % (len(l), "".join(" " + a for a in l))
    return ":real %s %s %s %s %s %s" % (f(pre), f(setup), f(body), f(td), f(post), f(inj))


def scen(all_sep, tests, ri=0):
    return "%s%x %x %s" % (":ri " if ri else "", all_sep, len(tests), " ".join(tests))


def ign(t):
    return ":ign " + t


def rnd_out(rng, kind):
    if kind == "x0":
        return ":x 0"
    if kind == "x":
        return ":x %x" % rng.choice([1, 1, 2, 255, 128, 127, rng.randrange(1, 256)])
    if kind == "k":
        return ":k %x %x" % (rng.choice([1, 6, 9, 11, 15, 16, 31, 32, 63, 64, 126, 125, rng.randrange(1, 127)]), rng.randrange(2))
    if kind == "s":
        return ":s %x" % rng.choice([19, 20, 0, 255, 127, 1, rng.randrange(256)])
    if kind == "er":
        return ":er %x" % rng.choice([10, 10, 5, 11, 22, 3, 1, 0, 512, rng.choice([2, 6, 7, 8, 9, 12, 13, 14, 35])])   # never EINTR (4)
    return ":ei"


ALPHA = ["ei", "er", "x0", "x", "k", "s"]


def streams(n):
    if n == 0:
        yield []
        return
    for s in streams(n - 1):
        for a in ALPHA:
            yield s + [a]


def place(point, acts):
    d = {"pre": (), "setup": (), "body": (), "td": (), "post": ()}
    d[point] = tuple(acts)
    return d


POINTS = ["pre", "setup", "body", "td", "post"]


def rnd_act(rng):
    c = rng.random()
    if c < 0.35:
        return ":f"
    if c < 0.55:
        return ":r %x" % rng.choice(STOP)
    if c < 0.7:
        return ":r %x" % rng.choice(IGN)
    if c < 0.85:
        return ":r %x" % rng.choice(TERM)
    return ":e %x" % rng.choice([0, 0, 1, 2, 255, rng.randrange(256)])


def rnd_real(rng, tol):
    d = {}
    for p in POINTS:
        n = rng.choice([0, 0, 0, 1, 1, 2])
        d[p] = tuple(rnd_act(rng) for _ in range(n))
    inj = []
    c = rng.random()
    if c < 0.35:
        for _ in range(rng.randrange(0, 6)):
            inj.append(rng.choice([":ei", ":re", ":re", ":ei", ":er"] if rng.random() < 0.15 else [":ei", ":re"]))
    elif c < 0.5:
        k = rng.choice([tol - 1, tol, tol + 1, tol + 2, rng.randrange(0, tol + 6)])
        inj = [":ei"] * k
        for _ in range(rng.randrange(0, 3)):
            inj.insert(rng.randrange(len(inj) + 1), ":re")
    return real(inj=inj, **d)


def rnd_scr(rng, tol):
    c = rng.random()
    if c < 0.08:
        return scr(0, [rnd_out(rng, rng.choice(ALPHA)) for _ in range(rng.randrange(0, 3))])
    if c < 0.45:
        k = rng.choice([tol - 1, tol, tol + 1, tol + 2, rng.randrange(0, tol + 9)])
        outs = [":ei"] * k
        for _ in range(rng.randrange(0, 4)):
            outs.insert(rng.randrange(len(outs) + 1), rnd_out(rng, "s"))
        if rng.random() < 0.8:
            outs.append(rnd_out(rng, rng.choice(["x0", "x", "k", "er", "x0"])))
        return scr(1, outs)
    return scr(1, [rnd_out(rng, rng.choice(ALPHA)) for _ in range(rng.randrange(0, 8))])


def rnd_test(rng, tol):
    c = rng.random()
    if c < 0.2:
        return ":plain %x" % rng.randrange(2)
    if c < 0.6:
        return rnd_scr(rng, tol)
    return rnd_real(rng, tol)


PASSING = [":plain 0", real(), scr(1, []), scr(1, [":x 0"])]


def generate(tier, rng):
    tol = source_bound()
    quick = tier == "quick"
    out = []
    # (a) scripted, exhaustive shapes
    for n in range(0, (5 if quick else 6) + 1):
        for st in streams(n):
            out.append(scen(0, [scr(1, [rnd_out(rng, a) for a in st])]))
    for k in range(0, tol + 10):
        for end in (["x0", "x", "k", "er", "s", None] if not quick or k >= tol - 2 or k < 3 else ["x0", "k"]):
            outs = [":ei"] * k + ([rnd_out(rng, end)] if end else [])
            out.append(scen(0, [scr(1, outs), rng.choice(PASSING)]))
            if k:
                cut = rng.randrange(k + 1)
                outs2 = [":ei"] * cut + [rnd_out(rng, "s")] + [":ei"] * (k - cut) + ([rnd_out(rng, end)] if end else [])
                out.append(scen(rng.randrange(2), [scr(1, outs2), rng.choice(PASSING)]))
    for sig in range(1, 127):
        for core in (0, 1):
            out.append(scen(0, [scr(1, [":k %x %x" % (sig, core)]), scr(1, [":s %x" % sig, ":k %x %x" % (sig, core)])]))
    for k in range(256):
        out.append(scen(0, [scr(1, [":x %x" % k]), scr(1, [":s %x" % k, ":s %x" % (255 - k), ":x %x" % k])]))
    out.append(scen(0, [scr(0, []), ":plain 0"]))
    out.append(scen(1, [scr(0, [":x 0"]), ":plain 0"]))
    # (b) real children
    for sig in range(1, 32):
        for p in (POINTS if not quick or sig in (9, 11, 19, 20, 17) else [POINTS[(sig + i) % 5] for i in (0, 2)]):
            out.append(scen(sig & 1, [real(**place(p, [":r %x" % sig])), rng.choice(PASSING[:2])]))
    ks = range(256) if not quick else sorted(set([0, 1, 2, 3, 127, 128, 129, 254, 255] + [rng.randrange(256) for _ in range(24)]))
    for k in ks:
        for p in (POINTS if not quick else [rng.choice(POINTS)]):
            out.append(scen(0, [real(**place(p, [":e %x" % k])), real()]))
    for p in POINTS:
        out.append(scen(0, [real(**place(p, [":f"])), real()]))
        out.append(scen(1, [":plain 1", real(**place(p, [":f", ":f"])), ":plain 0"]))
        out.append(scen(0, [real(**place(p, [":r 13", ":r 14", ":r 13"])), real()]))
        out.append(scen(0, [real(**place(p, [":r 13", ":f"])), real()]))
    out.append(scen(0, [real(setup=[":f"], body=[":r b"]), real()]))             # failed setup skips the deadly body
    out.append(scen(0, [real(setup=[":f"], body=[":e 0"]), real()]))
    out.append(scen(0, [real(setup=[":f"], td=[":e 0"]), real()]))               # but teardown runs: exit 0 hides the failed check
    out.append(scen(0, [real(body=[":f", ":r b"]), real()]))
    for k in list(range(0, 4)) + list(range(tol - 2, tol + 4)):
        for body in ([], [":r 13"], [":f"], [":r b"]):
            out.append(scen(0, [real(body=body, inj=[":ei"] * k), real()]))
            if body == [":r 13"]:
                out.append(scen(0, [real(body=body, inj=[":re"] + [":ei"] * k), real()]))
    # failures before the fork (initial count > 0), then children that pass / fail: the verdict must be the child's own
    for first in ([":plain 1"], [scr(0, [])], [scr(1, [":k 9 0"])], [":plain 1", scr(1, [":s 13", ":x 3"])]):
        for a in (0, 1):
            out.append(scen(a, first + [real(), ":plain 0", real(body=[":f"]), real(td=[":r 11"]), real()]))
    # many failed checks in one child (plugin actions do not leave their phase): the verdict is a flag, not a count
    for k in (255, 256, 257, 512):
        out.append(scen(0, [real(pre=[":f"] * k), real()]))
        out.append(scen(0, [":plain 1", real(post=[":f"] * k, body=[":r 13"]), real()]))
    out.append(scen(0, [real(inj=[":er"]), real()]))
    out.append(scen(0, [real(body=[":r 13"], inj=[":re", ":er"]), real()]))
    out.extend(gen_ignored(quick, rng, tol))
    # (c) sequences
    n = 2500 if quick else 40000
    for _ in range(n):
        m = rng.randrange(1, 7)
        ts = [rnd_test(rng, tol) for _ in range(m)]
        if rng.random() < 0.6:
            ts.append(rng.choice(PASSING))
        ri = 0
        if rng.random() < 0.25:         # markers and the switch
            ri = 1 if rng.random() < 0.6 else 0
            ts = [ign(t) if rng.random() < 0.4 else t for t in ts]
        out.append(scen(1 if rng.random() < (0.5 if ri else 0.3) else 0, ts, ri))
    return out


def gen_ignored(quick, rng, tol):
    """(d) IGNORE_TESTs and the run-ignored switch.  The first block is the clause itself: an ignored test that is run (switch on) in
    separate-process mode dies in every way at every point and position; the parent must record one failure and go on."""
    out = []
    deadly = []       # (point, action)
    for n, sig in enumerate(TERM):
        pts = POINTS if (not quick or sig in (6, 9, 11)) else [["setup", "body", "td"][n % 3], POINTS[(n * 2 + 1) % 5]]
        for p in pts:
            deadly.append((p, ":r %x" % sig))
    ks = [0, 1, 2, 255] + ([] if quick else [3, 127, 128, 254]) + [rng.randrange(256) for _ in range(2 if quick else 12)]
    for n, k in enumerate(ks):
        for p in (["setup", "body", "td"] if quick and k > 1 else POINTS):
            deadly.append((p, ":e %x" % k))
    others = [":plain 0", ":plain 1", real(), real(body=[":f"]), scr(1, [":k 9 0"]), real(td=[":r f"])]
    for n, (p, a) in enumerate(deadly):
        t = ign(real(**place(p, [a])))
        last = rng.choice(PASSING[:2])
        # first position, registry-wide flag + switch
        out.append(scen(1, [t, last], ri=1))
        # later position, after a non-ignored test (passing or failing: initial count > 0), another test behind it
        out.append(scen(1, [others[n % len(others)], t, last], ri=1))
        if not quick or n % 3 == 0:
            out.append(scen(1, [t, last], ri=0))                                   # switch off: never run, even with a deadly program
            out.append(scen(0, [t, last], ri=1))                                   # own flag instead of the registry-wide one
            out.append(scen(1, [real(**place(p, [a])), ign(real(**place(p, [a]))), ign(":plain 0"), t], ri=1))   # last position, two ignored deaths
        if not quick or n % 7 == 0:
            out.append(scen(0, [others[(n + 1) % len(others)], t, last], ri=0))
    # stops, failing checks, ignored signals in an ignored child that is run
    for p in POINTS:
        for a in ([":r 13"], [":f"], [":r 11"], [":r 13", ":r 14", ":e 0"], [":f", ":f"]) + (() if quick else ([":r 15"], [":r 16"], [":r 13", ":f"])):
            for ri in (1, 0):
                out.append(scen(1, [ign(real(**place(p, a))), ":plain 0"], ri=ri))
                out.append(scen(0, [":plain 1", ign(real(**place(p, a))), ign(real()), real()], ri=ri))
    # plain and scripted ignored tests; runs of ignored tests only (not a failure: run + ignored > 0)
    for ri in (0, 1):
        for a in (0, 1):
            for f in (0, 1):
                out.append(scen(a, [ign(":plain %x" % f)], ri=ri))
                out.append(scen(a, [ign(":plain %x" % f), ":plain 0"], ri=ri))
                out.append(scen(a, [":plain %x" % (1 - f), ign(":plain %x" % f), ign(":plain 0")], ri=ri))
            out.append(scen(a, [ign(scr(0, [])), ":plain 0"], ri=ri))
            out.append(scen(a, [ign(scr(1, [":k b 1"])), ign(scr(1, [":s 13", ":x 0"])), ":plain 0"], ri=ri))
            for k in (tol - 1, tol, tol + 1):
                out.append(scen(a, [ign(scr(1, [":ei"] * k + [":x 0"])), real()], ri=ri))
                out.append(scen(a, [ign(real(body=[":r 13"], inj=[":ei"] * k)), real()], ri=ri))
            out.append(scen(a, [ign(real(inj=[":er"])), real()], ri=ri))
            out.append(scen(a, [ign(real(body=[":r b"])), ign(real(setup=[":e 3"])), ign(":plain 1")], ri=ri))
    # sequences where only the ignored tests die
    for _ in range(60 if quick else 1500):
        m = rng.randrange(1, 5)
        ts = []
        for _ in range(m):
            c = rng.random()
            if c < 0.5:
                p = rng.choice(POINTS)
                a = rng.choice([":r %x" % rng.choice(TERM), ":e %x" % rng.choice([0, 1, rng.randrange(256)]), ":r %x" % rng.choice(TERM)])
                ts.append(ign(real(**place(p, [a]))))
            elif c < 0.7:
                ts.append(rng.choice(PASSING))
            elif c < 0.8:
                ts.append(ign(rng.choice(PASSING)))
            else:
                ts.append(rnd_test(rng, tol))
        out.append(scen(1 if rng.random() < 0.7 else 0, ts, ri=1 if rng.random() < 0.8 else 0))
    return out


# ------------------------------------------------------------------------------------------------ parsing (classification, shrinking)
class T(list):
    """a parsed test: ["plain", f] | ["scr", ok, outs] | ["real", pre, setup, body, td, post, inj], with the IGNORE_TEST marker"""
    ign = False


def mk(l, ign=False):
    t = T(l)
    t.ign = ign
    return t


def parse_full(s):
    t = s.split()
    ri = 0
    if t[0] == ":ri":
        ri = 1
        t = t[1:]
    all_sep = int(t[0], 16)
    n = int(t[1], 16)
    i = 2
    tests = []
    for _ in range(n):
        ig = False
        if t[i] == ":ign":
            ig = True
            i += 1
        k = t[i]
        if k == ":plain":
            tests.append(mk(["plain", int(t[i + 1], 16)], ig))
            i += 2
        elif k == ":scr":
            ok = int(t[i + 1], 16)
            m = int(t[i + 2], 16)
            i += 3
            outs = []
            for _ in range(m):
                w = {":ei": 1, ":er": 2, ":c": 1, ":x": 2, ":s": 2, ":k": 3}[t[i]]
                outs.append(" ".join(t[i:i + w]))
                i += w
            tests.append(mk(["scr", ok, outs], ig))
        else:
            i += 1
            ph = []
            for _ in range(5):
                m = int(t[i], 16)
                i += 1
                acts = []
                for _ in range(m):
                    w = 1 if t[i] == ":f" else 2
                    acts.append(" ".join(t[i:i + w]))
                    i += w
                ph.append(acts)
            m = int(t[i], 16)
            i += 1
            ph.append(t[i:i + m])
            i += m
            tests.append(mk(["real"] + ph, ig))
    return ri, all_sep, tests


def fmt(all_sep, tests, ri=0):
    o = []
    for t in tests:
        if t[0] == "plain":
            x = ":plain %x" % t[1]
        elif t[0] == "scr":
            x = scr(t[1], t[2])
        else:
            x = real(*t[1:7])
        o.append(ign(x) if getattr(t, "ign", False) else x)
    return scen(all_sep, o, ri)


def skipped(ri, t):
    return t.ign and not ri


def nontrivial(s):
    ri, _, tests = parse_full(s)
    if any(t.ign for t in tests):
        return True
    for t in tests:
        if t[0] == "scr" and (not t[1] or any(o != ":x 0" for o in t[2])):
            return True
        if t[0] == "real" and any(t[1:7]):
            return True
    return False


def deadly_point(t):
    """the phase in which the child of a real test is ended by a terminating signal or _exit (None: it runs to its end)"""
    setup_failed = False
    for idx, name in enumerate(POINTS):
        if name == "body" and setup_failed:
            continue
        for a in t[1 + idx]:
            k = a.split()
            if k[0] == ":r":
                if int(k[1], 16) in TERM:
                    return name
            elif k[0] == ":e":
                return name
            elif name not in ("pre", "post"):      # a failing check leaves its phase
                setup_failed = setup_failed or name == "setup"
                break
    return None


def classify(s):
    ri, all_sep, tests = parse_full(s)
    lab = ["tests:%d" % min(len(tests), 7), "all_sep:%d" % all_sep, "run_ignored:%d" % ri]
    tol = source_bound()
    if tests and all(skipped(ri, t) for t in tests):
        lab.append("nothing-run")
    for n, t in enumerate(tests):
        if t.ign:
            how = "not-run" if not ri else "run-sep-by-registry" if all_sep else "run-own-flag" if t[0] != "plain" else "run-in-process"
            lab.append("ignored:" + how)
            if ri and t[0] == "real":
                d = deadly_point(t)
                if d:
                    lab.append("ignored-run-dies@%s:%s" % (d, "first" if n == 0 else "last" if n == len(tests) - 1 else "middle"))
                    if all_sep:
                        lab.append("ignored-run-dies:registry-flag")
                    if any(not u.ign for u in tests):
                        lab.append("ignored-run-dies:next-to-normal-tests")
        if t[0] == "scr":
            lab.append("scripted")
            if not t[1]:
                lab.append("fork-error")
            ne = t[2].count(":ei")
            if ne:
                lab.append("eintr:" + ("<tol" if ne < tol else "=tol" if ne == tol else ">tol"))
            for o in t[2]:
                lab.append("out" + o.split()[0])
        elif t[0] == "real":
            lab.append("real")
            for p, name in zip(t[1:6], POINTS):
                for a in p:
                    k = a.split()
                    if k[0] == ":r":
                        sg = int(k[1], 16)
                        lab.append("raise-%s@%s" % ("term" if sg in TERM else "stop" if sg in STOP else "ign", name))
                    elif k[0] == ":e":
                        lab.append("exit@" + name)
                    else:
                        lab.append("check@" + name)
            if t[6]:
                lab.append("inject")
        else:
            lab.append("plain")
    return sorted(set(lab))


# independent python rendering of the property's accounting, used only to word signatures (the judge is the extracted spec)
def py_trace(t):
    """real test -> symbolic outcome list of its child"""
    stops, failed, fate = [], 0, None

    def acts(l, plugin):
        nonlocal failed, fate
        for a in l:
            k = a.split()
            if k[0] == ":r":
                sg = int(k[1], 16)
                if sg in STOP:
                    stops.append(":s %x" % sg)
                elif sg not in IGN:
                    fate = ":k %x 0" % sg
                    return False
            elif k[0] == ":e":
                fate = ":x %x" % int(k[1], 16)
                return False
            else:
                failed += 1
                if not plugin:
                    return True       # leaves the phase
        return None
    r = acts(t[1], True)
    if fate is None:
        r = acts(t[2], False)
    if fate is None and r is not True:
        acts(t[3], False)
    if fate is None:
        acts(t[4], False)
    if fate is None:
        acts(t[5], True)
    if fate is None:
        fate = ":x 1" if failed else ":x 0"
    evs = stops + [fate]
    out = []
    for i in t[6]:
        if i == ":re":
            if evs:
                out.append(evs.pop(0))
        else:
            out.append(i)
    return out + evs


def py_expect(outs, tol):
    f = c = 0
    seen = []
    for o in outs:
        c += 1
        k = o.split()[0]
        seen.append(k if k != ":x" else (":x0" if int(o.split()[1], 16) == 0 else ":x"))
        if k == ":er":
            return f + 1, c, False, seen
        if k == ":ei":
            if tol == 0:
                return f + 1, c, False, seen
            tol -= 1
        elif k == ":x":
            return f + (0 if int(o.split()[1], 16) == 0 else 1), c, True, seen
        elif k == ":k":
            return f + 1, c, True, seen
        elif k == ":s":
            f += 1
    return f, c, False, seen


def signature(s, o):
    if o.startswith("!"):
        # the runner's own process died or hung: say how, and what kind of scenario it was (the observation cannot tell which test)
        try:
            ri, all_sep, tests = parse_full(s)
            how = "hung" if o.startswith("!HANG") else "killed by a signal" if "signal" in o else "exited" if "exit" in o else o[:40]
            ctx = []
            if any(t.ign and ri for t in tests):
                ctx.append("an IGNORE_TEST is run (run-ignored)")
            if all_sep:
                ctx.append("registry-wide separate-process flag")
            return "crash: runner process %s%s" % (how, " [" + ", ".join(ctx) + "]" if ctx else "")
        except Exception:
            return "crash " + o[:50]
    try:
        tol = source_bound()
        ri, all_sep, tests = parse_full(s)
        toks = o.split()
        i = 0
        late = toks[-1] == "1"
        earlier = False
        for n, t in enumerate(tests):
            if toks[i] != ":t":
                return "late " * late + "test %s missing from the record" % t[0]
            started, nf = toks[i + 1], int(toks[i + 2], 16)
            j = i + 3
            for _ in range(nf):
                j += 2 if toks[j] == ":k" else 1
            calls, lost = int(toks[j], 16), toks[j + 2]
            i = j + 3
            if skipped(ri, t):
                shape = "ignored %s (no run-ignored)" % t[0]
                if started != "0":
                    return "late " * late + shape + " was started"
                if nf or calls:
                    return "late " * late + shape + " failures %d waits %d want none" % (nf, calls)
                continue
            if t[0] == "plain" and not all_sep:
                want, seen = (t[1], 0, True), ["in-process"]
            elif t[0] == "scr" and not t[1]:
                want, seen = (1, 0, True), ["fork-error"]
            else:
                outs = t[2] + [":x 0"] if t[0] == "scr" else py_trace(t if t[0] == "real" else ["real", [], [], [":f"] if t[1] else [], [], [], []])
                f, c, reaped, seen = py_expect(outs, tol)
                want = (f, c, reaped or t[0] == "scr")
            ne = seen.count(":ei")
            shape = "%s%s[%s%s]%s" % ("ignored(run) " if t.ign else "", t[0], "ei*%s " % ("<=tol" if ne <= tol else ">tol") if ne else "",
                                     " ".join(x for x in seen if x != ":ei"), " after earlier failures" if earlier else "")
            if started != "1":
                return "late " * late + shape + " not started"
            if nf != want[0]:
                return "late " * late + shape + " failures %d want %d" % (nf, want[0])
            if calls != want[1]:
                return "late " * late + shape + " waits %d want %d" % (calls, want[1])
            if want[2] and lost == "1":
                return "late " * late + shape + " child left behind"
            earlier = earlier or nf > 0
        return "late " * late + "totals / overall verdict / run and ignored counts"
    except Exception as e:
        return "malformed observation"


def shrink(s):
    ri, all_sep, tests = parse_full(s)
    if len(tests) > 1:
        for i in range(len(tests)):
            yield fmt(all_sep, tests[:i] + tests[i + 1:], ri)
    if all_sep:
        yield fmt(0, tests, ri)
    if ri:
        yield fmt(all_sep, tests, 0)
        if any(t.ign for t in tests):      # the switch and the markers together: the same tests as ordinary ones
            yield fmt(all_sep, [mk(t) for t in tests], 0)
    for i, t in enumerate(tests):
        def rep(nt):
            return fmt(all_sep, tests[:i] + [mk(nt, t.ign)] + tests[i + 1:], ri)
        if t.ign:
            yield fmt(all_sep, tests[:i] + [mk(t)] + tests[i + 1:], ri)
        if t[0] == "scr":
            outs = t[2]
            if len(outs) > 8:
                yield rep(["scr", t[1], outs[:len(outs) // 2]])
                yield rep(["scr", t[1], outs[len(outs) // 2:]])
            for j in range(len(outs)):
                yield rep(["scr", t[1], outs[:j] + outs[j + 1:]])
        elif t[0] == "real":
            for p in range(1, 7):
                for j in range(len(t[p])):
                    nt = list(t)
                    nt[p] = list(t[p][:j]) + list(t[p][j + 1:])
                    yield rep(nt)


LEVEL_TEXT = ("Machine-checked (Coq) theorems over an executable model of the separate-process runner (status-word decoding exactly as the glibc "
              "macros, SetTestFailureByStatusCode, the fork/waitpid loop with its EINTR retry bound and SIGCONT for stopped children, the child's "
              "verdict _exit(initial < final), runOneTest's choice, IgnoredUtestShell::runOneTest with the registry-wide run-ignored switch, and "
              "runAllTests' loop with the run/ignored counters and isFailure): the decoding partitions all 65536 status words and "
              "inverts the kernel's packing, the wait loop ends within a bounded prefix of every outcome stream, failures are exactly one per "
              "stop / abnormal end / failing fork or wait (none iff forked, no stop, exit 0), interrupted waits within the bound are transparent, "
              "every later test is still run and the run is reported failed; an IGNORE_TEST run under the run-ignored switch is recorded exactly "
              "as the same test not marked ignored (same wait loop, same containment), without the switch it has no child, no wait and no "
              "failure whatever its program and is counted as ignored. Tied to the code by a differential run of the extracted model "
              "against the real library: scripted fork/waitpid outcome streams through the PlatformSpecific seams and real children dying by "
              "every signal 1..31, exit status, failing check or stop at every crash point, as ordinary tests and as IGNORE_TESTs with and "
              "without -ri, their child coming from the registry-wide flag alone or from their own; the extracted model-free spec judges the "
              "implementation, and a death of the runner's own process on a scenario is a violation.")
LEVEL_NOTE = ("Partial: kernel delivery of signals, zombie reaping and SIGCONT are observed on real children, not modelled beyond the default-action "
              "table and the status-word layout (both trusted, stated in C11_Model.v). Retry bound, comparison, WUNTRACED and the six message "
              "texts are re-read from UtestPlatform.cpp on every run. After an EINTR overrun or a waitpid error the runner abandons the child by "
              "design; this is recorded, not judged.")
TECHNIQUE = "Coq proof over hand-written executable model + extracted-model/implementation correspondence check (scripted seams + real fork/wait)"
READY = True
