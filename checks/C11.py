"""C11 -- separate-process mode contains every way a test can die.
Scenario:    [:ri] <all_sep 0|1> <ntests> ([:ign] test)*                      one runAllTests pass
        |    :m <nsteps> step*                                              several passes over ONE registry
  step ::= <sep 0|1> <ri 0|1> <nadd> ([:from <k>] [:own] [:ign] test)*nadd
           before the pass the program switches on the registry-wide separate-process mode (sep) / run-ignored mode (ri) -- there is
           no switching off -- and adds the listed tests (met in the listed order, in front of all older tests); then runAllTests with
           a TestResult of its own.  :from k = in the passes before pass k (counted from 0) the test is an empty passing test;
           :own = the shell has a separate-process flag of its own.  In pass k a test is in separate-process mode iff :own or sep was
           switched on in one of the steps 0..k; every test present is held to the one-pass account for what it is in pass k, in EVERY
           pass; the runner's own process must live through all the passes (it is run under a supervisor; ":died" otherwise).
  :ri  = registry-wide run-ignored switch (-ri);   :ign = the test is an IGNORE_TEST (shell derived from IgnoredUtestShell): not run
         at all without :ri (no child, no failure, counted as ignored), exactly like the unmarked test with it
  test ::= :plain <fail 0|1>                       ordinary test (own process only when all_sep = 1)
         | :scr <fork_ok 0|1> <n> wout*n           fork/waitpid replaced by stubs replaying the outcomes (then a clean exit)
               wout ::= :ei (EINTR) | :er <errno> (other error) | :x <k> exited | :k <sig> <core> killed | :s <sig> stopped | :c continued
         | :real <n> act*n  x5  <n> inj*n          a real child; actions in plugin pre action, setup, body, teardown, plugin post action
               act ::= :r <sig> raise | :e <k> _exit | :f failing check        inj ::= :ei | :er | :re (faults in front of the real waitpid)
         | :env <chld> <n> sib*n <eintr> <fields of :real>     a real child under a process-level configuration of the program, waited
               for through the library's own PlatformSpecificFork / PlatformSpecificWaitPid implementations:
               chld = SIGCHLD: 0 default | 1 SIG_IGN | 2 SA_NOCLDWAIT | 3 handler + SA_NOCLDWAIT | 4 a handler that reaps with waitpid(-1)
                      first | 5 a handler that only counts;   sib ::= :sx <late> <k> | :sk <late> <sig>  other children of the process (dead
                      before the fork / ending meanwhile);   eintr = genuine EINTR answers of the kernel before the child goes on.
               Under 1-4 the kernel / the handler takes the child away: every stop is still reported, then the wait FAILS (ECHILD) --
               a failing wait is one failure of that test, whatever the child's end was; a child that did not end with exit status 0
               leaves at least one failure under EVERY configuration.
Observation: per pass: per test ":t <started> <nf> cat*nf <waitpid calls> <SIGCONT seen> <lost>", then ":end <failures> <isFailure> <run> <ignored> <late>";
             after the passes that were completed ":died <pass> :killed|:exited|:stopped <n>" if the runner's own process died.
With all_sep = 0 scripted and real tests carry their own separate-process flag; with all_sep = 1 no test carries one (every child
comes from the registry-wide flag alone).  All numbers hexadecimal."""
import os, re
import vlib
ID = "C11"
FLAVOURS = ["plain"]
HARNESS_SRCS = ["harness/C11.cpp"]
PER_TIMEOUT = 40.0
CRASH_IS_VIOLATION = True


def source_bound():
    """EINTRs tolerated, re-read from the generated constants (only steers the generator to the boundary)"""
    try:
        t = open(os.path.join(vlib.COQ, "gen", "Gen_C11.v")).read()
        b = int(re.search(r"eintr_bound : N := (\d+)%N", t).group(1))
        strict = "eintr_bound_strict : bool := true" in t
        return b + 1 if strict else b
    except Exception:
        return 31


TERM = [1, 2, 3, 4, 5, 6, 7, 8, 9, 10, 11, 12, 13, 14, 15, 16, 24, 25, 26, 27, 29, 30, 31]
STOP = [19, 20, 21, 22]
IGN = [17, 18, 23, 28]
RULE = ("(a) scripted: every outcome stream of length <= 5 (quick) / <= 6 (thorough) over {EINTR, error, exit 0, exit k, killed, "
        "stopped} with boundary-weighted codes (exit 1/255/128, signals 1..126 with and without core flag, stop signals 0..255), EINTR runs "
        "of every length 0..tolerated+9 before each ending and split by stops (the counter is not reset), fork failure; (b) real children: "
        "raise(sig) for every signal 1..31 at each of the five points (plugin pre action, setup, body, teardown, plugin post action), "
        "_exit(k) (sampled in quick, all 256 in thorough), failing checks in every phase combination (setup failure skipping a deadly body), "
        "repeated stops, EINTR/error injected in front of the real waitpid at every position relative to stop and exit; (c) sequences of 2-6 "
        "tests mixing all kinds, with earlier failures (initial count > 0) and a passing last test, with and without the registry-wide flag; "
        "(d) IGNORE_TESTs with and without the run-ignored switch: an ignored real child dying by every terminating signal, by _exit(k), "
        "by a failing check or stopping, at each of the five points, in first, middle and last position, with the registry-wide flag "
        "(its only source of a child) or its own flag, next to non-ignored tests of every kind, ignored scripted streams (fork failure, "
        "EINTR overrun), runs made of ignored tests only, and the same scenarios without the switch (nothing may happen); a quarter of "
        "the random sequences carry markers and the switch. "
        "(e) several passes over one registry (2-4): a test that does nothing in the first pass(es) and then dies -- by every terminating "
        "signal, _exit(k), a failing check, a stop, at each of the five points -- in a pass AFTER which/before which the separate-process "
        "mode was switched on (before the first pass, between passes, two passes late), in first / middle / last position with a test "
        "behind it; a dying test ADDED between passes (alone, with neighbours, in the step that switches the mode on, one and two "
        "steps after it), with the mode from the first step, a later step, or from its own flag; run-ignored switched on between passes "
        "for an IGNORE_TEST that dies (with the separate-process mode from before / from the same step / from its own flag); failing "
        "plain tests that are run in the runner's process first and in a child after the switch; -r style repetitions with nothing changed "
        "between passes and tests dying from pass k on; scripted streams (EINTR at the bound, fork failure) in later passes; random "
        "programs of 2-4 steps repaired into the judged domain. "
        "(f) real children waited for through the library's OWN PlatformSpecificFork / PlatformSpecificWaitPid implementations while the "
        "program has changed the process-level configuration: SIGCHLD default / SIG_IGN / SA_NOCLDWAIT / handler + SA_NOCLDWAIT / a handler "
        "that reaps with waitpid(-1) first / a handler that only counts, times a child killed by each of the 23 terminating signals "
        "(SIGKILL included), _exit(0, 1, 2, 128, 255, random), a failing check in each phase, a stop by each stop signal (SIGSTOP included) "
        "followed by a clean end / SIGKILL / SIGSEGV / _exit(0) / _exit(5) / a failing check / a second stop, a passing child; each with "
        "other children of the process (exit 0, exit 3, killed; dead before the fork = a zombie to be picked up by a wait for any child, or "
        "ending meanwhile), in first / middle / last position with a test behind it and the next test under another configuration; genuine "
        "EINTR answers of the kernel (the child held back, a periodic timer signal with a non-restarting handler) 1, 2, bound-1, bound, "
        "bound+1 times, alone and sharing the retry counter with injected ones; injected faults in front of the real wait; as IGNORE_TESTs "
        "with and without -ri; in later passes (dormant / added late / mode switched on late); 150 (thorough 6000) random sequences. "
        "non-trivial = some test with an event other than a clean exit, or an injected/scripted wait fault")
ASSUMPTIONS = ["Linux/glibc wait-status layout and the default signal actions of signal(7); signals 1..31 only for real children",
               "the harness keeps its process group from being orphaned, so SIGTSTP/SIGTTIN/SIGTTOU stop like SIGSTOP",
               "after an EINTR overrun or a waitpid error the runner abandons the child by design (upstream test expects the give-up); "
               "the harness reaps such children itself",
               "scripted status words are 16-bit (the kernel never sets higher bits); plugin actions do not throw",
               "one-pass lines: with the registry-wide flag no shell carries a flag of its own; several passes: every pass has a TestResult "
               "of its own (as every repetition of -r has), the modes can only be switched on, a test's behaviour depends on the pass "
               "number only through :from",
               "process-level configurations (wait(2), sigaction(2), Linux; trusted, stated in C11_Model.v): with SIGCHLD ignored or SA_NOCLDWAIT, "
               "or when a handler of the program has reaped the child first, waitpid(pid, WUNTRACED) still reports every stop and then fails "
               "with ECHILD; a handler that does not reap and other children of the process change nothing; the library does not change the "
               "program's SIGCHLD disposition (a library that resets it around the fork would be reported as a discrepancy in the failing-wait "
               "account and has to be judged by hand); handlers installed by the harness restart system calls except the one that produces the "
               "genuine EINTRs",
               "judged domain over passes: a scripted or real test that is run and shows its behaviour in a pass is in separate-process "
               "mode in that pass (own flag or the switch); a deadly test run in the runner's process by the program's own choice is "
               "not a containment question"]


# ------------------------------------------------------------------------------------------------ formatting
def scr(ok, outs):
    return ":scr %x %x%s" % (ok, len(outs), "".join(" " + o for o in outs))


def real(pre=(), setup=(), body=(), td=(), post=(), inj=()):
    f = lambda l: "%x%s" % (len(l), "".join(" " + a for a in l))
    return ":real %s %s %s %s %s %s" % (f(pre), f(setup), f(body), f(td), f(post), f(inj))


def envt(chld=0, sibs=(), eintr=0, pre=(), setup=(), body=(), td=(), post=(), inj=()):
    """a real child under a process-level configuration; sibs: [":sx 0 3", ":sk 1 9", ..]"""
    r = real(pre, setup, body, td, post, inj)
    return ":env %x %x%s %x %s" % (chld, len(sibs), "".join(" " + b for b in sibs), eintr, r[len(":real "):])


def scen(all_sep, tests, ri=0):
    return "%s%x %x %s" % (":ri " if ri else "", all_sep, len(tests), " ".join(tests))


def ign(t):
    return ":ign " + t


def mt(t, frm=0, own=0, ig=0):
    """a test of a several-pass program"""
    return "%s%s%s%s" % (":from %x " % frm if frm else "", ":own " if own else "", ":ign " if ig else "", t)


def stp(sep, ri, tests):
    return "%x %x %x%s" % (sep, ri, len(tests), "".join(" " + x for x in tests))


def mscen(steps):
    return ":m %x %s" % (len(steps), " ".join(steps))


def rnd_out(rng, kind):
    if kind == "x0":
        return ":x 0"
    if kind == "x":
        return ":x %x" % rng.choice([1, 1, 2, 255, 128, 127, rng.randrange(1, 256)])
    if kind == "k":
        return ":k %x %x" % (rng.choice([1, 6, 9, 11, 15, 16, 31, 32, 63, 64, 126, 125, rng.randrange(1, 127)]), rng.randrange(2))
    if kind == "s":
        return ":s %x" % rng.choice([19, 20, 0, 255, 127, 1, rng.randrange(256)])
    if kind == "er":
        return ":er %x" % rng.choice([10, 10, 5, 11, 22, 3, 1, 0, 512, rng.choice([2, 6, 7, 8, 9, 12, 13, 14, 35])])   # never EINTR (4)
    return ":ei"


ALPHA = ["ei", "er", "x0", "x", "k", "s"]


def streams(n):
    if n == 0:
        yield []
        return
    for s in streams(n - 1):
        for a in ALPHA:
            yield s + [a]


def place(point, acts):
    d = {"pre": (), "setup": (), "body": (), "td": (), "post": ()}
    d[point] = tuple(acts)
    return d


POINTS = ["pre", "setup", "body", "td", "post"]


def rnd_act(rng):
    c = rng.random()
    if c < 0.35:
        return ":f"
    if c < 0.55:
        return ":r %x" % rng.choice(STOP)
    if c < 0.7:
        return ":r %x" % rng.choice(IGN)
    if c < 0.85:
        return ":r %x" % rng.choice(TERM)
    return ":e %x" % rng.choice([0, 0, 1, 2, 255, rng.randrange(256)])


def rnd_real(rng, tol):
    d = {}
    for p in POINTS:
        n = rng.choice([0, 0, 0, 1, 1, 2])
        d[p] = tuple(rnd_act(rng) for _ in range(n))
    inj = []
    c = rng.random()
    if c < 0.35:
        for _ in range(rng.randrange(0, 6)):
            inj.append(rng.choice([":ei", ":re", ":re", ":ei", ":er"] if rng.random() < 0.15 else [":ei", ":re"]))
    elif c < 0.5:
        k = rng.choice([tol - 1, tol, tol + 1, tol + 2, rng.randrange(0, tol + 6)])
        inj = [":ei"] * k
        for _ in range(rng.randrange(0, 3)):
            inj.insert(rng.randrange(len(inj) + 1), ":re")
    return real(inj=inj, **d)


def rnd_scr(rng, tol):
    c = rng.random()
    if c < 0.08:
        return scr(0, [rnd_out(rng, rng.choice(ALPHA)) for _ in range(rng.randrange(0, 3))])
    if c < 0.45:
        k = rng.choice([tol - 1, tol, tol + 1, tol + 2, rng.randrange(0, tol + 9)])
        outs = [":ei"] * k
        for _ in range(rng.randrange(0, 4)):
            outs.insert(rng.randrange(len(outs) + 1), rnd_out(rng, "s"))
        if rng.random() < 0.8:
            outs.append(rnd_out(rng, rng.choice(["x0", "x", "k", "er", "x0"])))
        return scr(1, outs)
    return scr(1, [rnd_out(rng, rng.choice(ALPHA)) for _ in range(rng.randrange(0, 8))])


def rnd_test(rng, tol):
    c = rng.random()
    if c < 0.2:
        return ":plain %x" % rng.randrange(2)
    if c < 0.6:
        return rnd_scr(rng, tol)
    return rnd_real(rng, tol)


PASSING = [":plain 0", real(), scr(1, []), scr(1, [":x 0"])]


def generate(tier, rng):
    tol = source_bound()
    quick = tier == "quick"
    out = []
    # (a) scripted, exhaustive shapes
    for n in range(0, (5 if quick else 6) + 1):
        for st in streams(n):
            out.append(scen(0, [scr(1, [rnd_out(rng, a) for a in st])]))
    for k in range(0, tol + 10):
        for end in (["x0", "x", "k", "er", "s", None] if not quick or k >= tol - 2 or k < 3 else ["x0", "k"]):
            outs = [":ei"] * k + ([rnd_out(rng, end)] if end else [])
            out.append(scen(0, [scr(1, outs), rng.choice(PASSING)]))
            if k:
                cut = rng.randrange(k + 1)
                outs2 = [":ei"] * cut + [rnd_out(rng, "s")] + [":ei"] * (k - cut) + ([rnd_out(rng, end)] if end else [])
                out.append(scen(rng.randrange(2), [scr(1, outs2), rng.choice(PASSING)]))
    for sig in range(1, 127):
        for core in (0, 1):
            out.append(scen(0, [scr(1, [":k %x %x" % (sig, core)]), scr(1, [":s %x" % sig, ":k %x %x" % (sig, core)])]))
    for k in range(256):
        out.append(scen(0, [scr(1, [":x %x" % k]), scr(1, [":s %x" % k, ":s %x" % (255 - k), ":x %x" % k])]))
    out.append(scen(0, [scr(0, []), ":plain 0"]))
    out.append(scen(1, [scr(0, [":x 0"]), ":plain 0"]))
    # (b) real children
    for sig in range(1, 32):
        for p in (POINTS if not quick or sig in (9, 11, 19, 20, 17) else [POINTS[(sig + i) % 5] for i in (0, 2)]):
            out.append(scen(sig & 1, [real(**place(p, [":r %x" % sig])), rng.choice(PASSING[:2])]))
    ks = range(256) if not quick else sorted(set([0, 1, 2, 3, 127, 128, 129, 254, 255] + [rng.randrange(256) for _ in range(24)]))
    for k in ks:
        for p in (POINTS if not quick else [rng.choice(POINTS)]):
            out.append(scen(0, [real(**place(p, [":e %x" % k])), real()]))
    for p in POINTS:
        out.append(scen(0, [real(**place(p, [":f"])), real()]))
        out.append(scen(1, [":plain 1", real(**place(p, [":f", ":f"])), ":plain 0"]))
        out.append(scen(0, [real(**place(p, [":r 13", ":r 14", ":r 13"])), real()]))
        out.append(scen(0, [real(**place(p, [":r 13", ":f"])), real()]))
    out.append(scen(0, [real(setup=[":f"], body=[":r b"]), real()]))             # failed setup skips the deadly body
    out.append(scen(0, [real(setup=[":f"], body=[":e 0"]), real()]))
    out.append(scen(0, [real(setup=[":f"], td=[":e 0"]), real()]))               # but teardown runs: exit 0 hides the failed check
    out.append(scen(0, [real(body=[":f", ":r b"]), real()]))
    for k in list(range(0, 4)) + list(range(tol - 2, tol + 4)):
        for body in ([], [":r 13"], [":f"], [":r b"]):
            out.append(scen(0, [real(body=body, inj=[":ei"] * k), real()]))
            if body == [":r 13"]:
                out.append(scen(0, [real(body=body, inj=[":re"] + [":ei"] * k), real()]))
    # failures before the fork (initial count > 0), then children that pass / fail: the verdict must be the child's own
    for first in ([":plain 1"], [scr(0, [])], [scr(1, [":k 9 0"])], [":plain 1", scr(1, [":s 13", ":x 3"])]):
        for a in (0, 1):
            out.append(scen(a, first + [real(), ":plain 0", real(body=[":f"]), real(td=[":r 11"]), real()]))
    # many failed checks in one child (plugin actions do not leave their phase): the verdict is a flag, not a count
    for k in (255, 256, 257, 512):
        out.append(scen(0, [real(pre=[":f"] * k), real()]))
        out.append(scen(0, [":plain 1", real(post=[":f"] * k, body=[":r 13"]), real()]))
    out.append(scen(0, [real(inj=[":er"]), real()]))
    out.append(scen(0, [real(body=[":r 13"], inj=[":re", ":er"]), real()]))
    out.extend(gen_ignored(quick, rng, tol))
    out.extend(gen_passes(quick, rng, tol))
    out.extend(gen_env(quick, rng, tol))
    # (c) sequences
    n = 2500 if quick else 40000
    for _ in range(n):
        m = rng.randrange(1, 7)
        ts = [rnd_test(rng, tol) for _ in range(m)]
        if rng.random() < 0.6:
            ts.append(rng.choice(PASSING))
        ri = 0
        if rng.random() < 0.25:         # markers and the switch
            ri = 1 if rng.random() < 0.6 else 0
            ts = [ign(t) if rng.random() < 0.4 else t for t in ts]
        out.append(scen(1 if rng.random() < (0.5 if ri else 0.3) else 0, ts, ri))
    return out


def gen_ignored(quick, rng, tol):
    """(d) IGNORE_TESTs and the run-ignored switch.  The first block is the clause itself: an ignored test that is run (switch on) in
    separate-process mode dies in every way at every point and position; the parent must record one failure and go on."""
    out = []
    deadly = []       # (point, action)
    for n, sig in enumerate(TERM):
        pts = POINTS if (not quick or sig in (6, 9, 11)) else [["setup", "body", "td"][n % 3], POINTS[(n * 2 + 1) % 5]]
        for p in pts:
            deadly.append((p, ":r %x" % sig))
    ks = [0, 1, 2, 255] + ([] if quick else [3, 127, 128, 254]) + [rng.randrange(256) for _ in range(2 if quick else 12)]
    for n, k in enumerate(ks):
        for p in (["setup", "body", "td"] if quick and k > 1 else POINTS):
            deadly.append((p, ":e %x" % k))
    others = [":plain 0", ":plain 1", real(), real(body=[":f"]), scr(1, [":k 9 0"]), real(td=[":r f"])]
    for n, (p, a) in enumerate(deadly):
        t = ign(real(**place(p, [a])))
        last = rng.choice(PASSING[:2])
        # first position, registry-wide flag + switch
        out.append(scen(1, [t, last], ri=1))
        # later position, after a non-ignored test (passing or failing: initial count > 0), another test behind it
        out.append(scen(1, [others[n % len(others)], t, last], ri=1))
        if not quick or n % 3 == 0:
            out.append(scen(1, [t, last], ri=0))                                   # switch off: never run, even with a deadly program
            out.append(scen(0, [t, last], ri=1))                                   # own flag instead of the registry-wide one
            out.append(scen(1, [real(**place(p, [a])), ign(real(**place(p, [a]))), ign(":plain 0"), t], ri=1))   # last position, two ignored deaths
        if not quick or n % 7 == 0:
            out.append(scen(0, [others[(n + 1) % len(others)], t, last], ri=0))
    # stops, failing checks, ignored signals in an ignored child that is run
    for p in POINTS:
        for a in ([":r 13"], [":f"], [":r 11"], [":r 13", ":r 14", ":e 0"], [":f", ":f"]) + (() if quick else ([":r 15"], [":r 16"], [":r 13", ":f"])):
            for ri in (1, 0):
                out.append(scen(1, [ign(real(**place(p, a))), ":plain 0"], ri=ri))
                out.append(scen(0, [":plain 1", ign(real(**place(p, a))), ign(real()), real()], ri=ri))
    # plain and scripted ignored tests; runs of ignored tests only (not a failure: run + ignored > 0)
    for ri in (0, 1):
        for a in (0, 1):
            for f in (0, 1):
                out.append(scen(a, [ign(":plain %x" % f)], ri=ri))
                out.append(scen(a, [ign(":plain %x" % f), ":plain 0"], ri=ri))
                out.append(scen(a, [":plain %x" % (1 - f), ign(":plain %x" % f), ign(":plain 0")], ri=ri))
            out.append(scen(a, [ign(scr(0, [])), ":plain 0"], ri=ri))
            out.append(scen(a, [ign(scr(1, [":k b 1"])), ign(scr(1, [":s 13", ":x 0"])), ":plain 0"], ri=ri))
            for k in (tol - 1, tol, tol + 1):
                out.append(scen(a, [ign(scr(1, [":ei"] * k + [":x 0"])), real()], ri=ri))
                out.append(scen(a, [ign(real(body=[":r 13"], inj=[":ei"] * k)), real()], ri=ri))
            out.append(scen(a, [ign(real(inj=[":er"])), real()], ri=ri))
            out.append(scen(a, [ign(real(body=[":r b"])), ign(real(setup=[":e 3"])), ign(":plain 1")], ri=ri))
    # sequences where only the ignored tests die
    for _ in range(60 if quick else 1500):
        m = rng.randrange(1, 5)
        ts = []
        for _ in range(m):
            c = rng.random()
            if c < 0.5:
                p = rng.choice(POINTS)
                a = rng.choice([":r %x" % rng.choice(TERM), ":e %x" % rng.choice([0, 1, rng.randrange(256)]), ":r %x" % rng.choice(TERM)])
                ts.append(ign(real(**place(p, [a]))))
            elif c < 0.7:
                ts.append(rng.choice(PASSING))
            elif c < 0.8:
                ts.append(ign(rng.choice(PASSING)))
            else:
                ts.append(rnd_test(rng, tol))
        out.append(scen(1 if rng.random() < 0.7 else 0, ts, ri=1 if rng.random() < 0.8 else 0))
    return out


SIBS = [":sx 0 0", ":sx 0 3", ":sk 0 9", ":sx 1 0", ":sx 1 1", ":sk 1 b", ":sk 0 f"]


def rnd_sibs(rng, n=None):
    n = rng.choice([0, 1, 1, 2, 3]) if n is None else n
    return [rng.choice(SIBS) for _ in range(n)]


def gen_env(quick, rng, tol):
    """(f) real children waited for through the library's own fork / waitpid implementations while the program has changed the
    process-level configuration.  What must be met: the wait answers something else than the child's status (ECHILD because the
    kernel or a handler took the child away, EINTR from a real signal), or another child's status is there to be picked up, and the
    child of the test did NOT end with exit status 0 (each signal, each status class, a failing check, a stop first)."""
    out = []
    ends = []         # (point, actions)
    for n, sig in enumerate(TERM):
        pts = POINTS if (not quick or sig in (9, 11)) else [POINTS[(n * 2 + 1) % 5]]
        for p in pts:
            ends.append((p, [":r %x" % sig]))
    ks = [0, 1, 2, 255, 128] + ([] if quick else [3, 127, 254]) + [rng.randrange(256) for _ in range(1 if quick else 10)]
    for n, k in enumerate(ks):
        for p in ([POINTS[n % 5]] if quick and k > 1 else POINTS if not quick else ["body", "td"]):
            ends.append((p, [":e %x" % k]))
    for p in POINTS:
        ends.append((p, [":f"]))                                 # fails a check
    # stopped first: SIGSTOP (uncatchable) and the catchable stop signals, then continued by the runner and: clean end / killed / exit / failed check
    for n, stop in enumerate(STOP):
        for after in ([], [":r 9"], [":r b"], [":e 0"], [":e 5"], [":f"], [":r %x" % STOP[(n + 1) % 4], ":r f"]):
            ends.append((["setup", "body", "td", "pre", "post"][(n + len(after)) % 5] if quick else "body", [":r %x" % stop] + after))
    if not quick:
        for p in POINTS:
            for after in ([], [":r 9"], [":e 0"], [":e 5"], [":f"]):
                ends.append((p, [":r 13"] + after))
    ends.append(("body", []))                                    # a child that passes
    ends.append(("body", [":r 11", ":r 12"]))                    # ignored signals only
    behind = [":plain 0", real(), envt(0), envt(5, [":sx 0 0"])]
    for chld in range(6):
        for n, (p, a) in enumerate(ends):
            d = place(p, a)
            sel = (n + chld) % 4
            # alone with a passing test behind it (which must still be run, under the default configuration again)
            out.append(scen((n + chld) & 1, [envt(chld, **d), behind[sel]]))
            # other children of the process: dead before the fork (a zombie to be picked up by a wait for "any child"), ending meanwhile
            if not quick or sel in (0, 1):
                out.append(scen(1, [envt(chld, [SIBS[(n + chld) % len(SIBS)], ":sx 0 0"], **d), ":plain 0"]))
            if not quick or sel == 2:
                out.append(scen(0, [":plain 1", envt(chld, rnd_sibs(rng, 2) + [":sx 1 0"], **d), envt(chld, **d), real()]))
            if not quick or sel == 3:
                out.append(scen(1, [envt(chld, [":sx 1 0", ":sk 1 9"], **d), envt((chld + 1) % 6, [":sx 0 0"], **d), ":plain 0"]))
    # genuine EINTR answers (the child is held back): below, at and past the retry bound; with each configuration; the child then dies
    for chld in range(6):
        for k in ([1, 2, tol - 1, tol, tol + 1] if chld in (0, 1) or not quick else [1, tol, tol + 1]):
            for a in ([":r 9"], [], [":r 13", ":e 3"]) + (() if quick else ([":f"], [":r b"], [":e 0"])):
                out.append(scen(1, [envt(chld, [], k, body=a), ":plain 0"]))
            out.append(scen(0, [envt(chld, rnd_sibs(rng, 1), k, td=[":r 6"], inj=[":re", ":ei"]), real()]))
    # genuine and injected interruptions share one retry counter
    for k in (1, tol - 1, tol):
        out.append(scen(0, [envt(1, [], k, body=[":r f"], inj=[":ei"] * (tol - k)), real()]))
        out.append(scen(0, [envt(0, [], k, body=[":r f"], inj=[":ei"] * (tol - k + 1)), real()]))
    # injected faults in front of the real wait under a configuration
    for chld in (0, 1, 2, 4, 5):
        for inj in ([":ei"], [":er"], [":re", ":ei"], [":re", ":er"], [":ei"] * tol, [":ei"] * (tol + 1)):
            out.append(scen(chld & 1, [envt(chld, rnd_sibs(rng), 0, body=[":r 13", ":r 9"], inj=inj), real()]))
    # IGNORE_TESTs under a configuration, with and without the switch; the registry-wide flag or the own flag
    for chld in (1, 2, 3, 4):
        for a in ([":r 9"], [":e 7"], [":f"], []):
            for ri in (0, 1):
                out.append(scen(1, [ign(envt(chld, [":sx 0 0"], body=a)), ":plain 0"], ri=ri))
                out.append(scen(0, [":plain 1", ign(envt(chld, [], 1, setup=a)), real()], ri=ri))
    # several passes: the configuration is there in the pass in which the test dies (dormant before / added late / the mode switched on late)
    for chld in range(6):
        for a in ([":r 9"], [":r b"], [":e 3"], [":f"], [":r 13", ":r 9"], []):
            d = envt(chld, [":sx 0 0"] if chld != 3 else [], body=a)
            out.append(mscen([stp(0, 0, [mt(d, frm=1), ":plain 0"]), stp(1, 0, [])]))
            out.append(mscen([stp(1, 0, [":plain 0"]), stp(0, 0, [mt(d)])]))
            if not quick:
                out.append(mscen([stp(1, 0, [mt(d), real()]), stp(0, 0, []), stp(0, 0, [])]))
                out.append(mscen([stp(0, 0, [mt(d, own=1), ":plain 0"]), stp(0, 0, [])]))
    # random
    for _ in range(150 if quick else 6000):
        ts = []
        for _ in range(rng.randrange(1, 5)):
            c = rng.random()
            if c < 0.65:
                r = parse_test(rnd_real(rng, tol).split(), 0)[0]
                eintr = 0 if rng.random() < 0.8 else rng.choice([1, 2, 3, tol - 1, tol, tol + 1])
                ts.append(envt(rng.randrange(6), rnd_sibs(rng), eintr, *r[1:7]))
            elif c < 0.8:
                ts.append(rng.choice(PASSING))
            else:
                ts.append(rnd_test(rng, tol))
        if rng.random() < 0.5:
            ts.append(rng.choice(PASSING))
        ri = 0
        if rng.random() < 0.15:
            ri = rng.randrange(2)
            ts = [ign(t) if rng.random() < 0.3 else t for t in ts]
        out.append(scen(rng.randrange(2), ts, ri))
    return out


def gen_passes(quick, rng, tol):
    """(e) several runAllTests passes over one registry.  What must be met: state carried from one pass to the next -- the mode is
    switched on after a pass was made, or a test is added after a pass was made -- and that very test dies in the later pass."""
    out = []
    deadly = []       # (point, action)
    for n, sig in enumerate(TERM):
        pts = POINTS if (not quick or sig in (9, 11)) else [["setup", "body", "td"][n % 3], POINTS[(n * 2 + 1) % 5]]
        for p in pts:
            deadly.append((p, [":r %x" % sig]))
    ks = [0, 1, 2, 255] + ([] if quick else [3, 127, 128, 254]) + [rng.randrange(256) for _ in range(2 if quick else 12)]
    for k in ks:
        for p in (["setup", "body", "td"] if quick and k > 1 else POINTS):
            deadly.append((p, [":e %x" % k]))
    # not deadly for the child, but a failure to be recorded by the parent (and deadly / stopping for a runner that runs it itself)
    for p in POINTS:
        for a in ([":r 13"], [":f"], [":r 14", ":r 13", ":e 0"]) + (() if quick else ([":f", ":f"], [":r 15", ":r b"], [":r 16", ":f"])):
            deadly.append((p, a))
    for n, (p, a) in enumerate(deadly):
        d = real(**place(p, a))
        after = rng.choice(PASSING[:2])      # behind a test with a child: any passing test
        a0 = ":plain 0"                      # in a pass made in the runner's process: a plain one
        # A: a pass in the runner's process during which the test does nothing; the mode is switched on; the test dies in the next pass
        out.append(mscen([stp(0, 0, [mt(d, frm=1), a0]), stp(1, 0, [])]))
        # B: the mode is on from the start; after a pass the dying test is added (it is met first)
        out.append(mscen([stp(1, 0, [after]), stp(0, 0, [mt(d)])]))
        if not quick or n % 3 == 0:
            out.append(mscen([stp(0, 0, [":plain 1", mt(d, frm=1), a0]), stp(1, 0, [])]))       # middle, a0 an earlier failure
            out.append(mscen([stp(0, 0, [a0, mt(d, frm=1)]), stp(1, 0, [])]))                   # last
            out.append(mscen([stp(0, 0, [a0]), stp(1, 0, [mt(d), ":plain 1"])]))                # added in the step that switches
            out.append(mscen([stp(0, 0, [a0]), stp(1, 0, []), stp(0, 0, [mt(d)])]))             # added one step a0 the switch
            out.append(mscen([stp(1, 0, [after]), stp(0, 0, [":plain 1", mt(d), ":plain 0"])]))    # added between two others
        if not quick or n % 3 == 1:
            out.append(mscen([stp(0, 0, [mt(d, frm=2), a0]), stp(0, 0, []), stp(1, 0, [])]))    # two passes before the switch
            out.append(mscen([stp(1, 0, [mt(d, frm=1), after]), stp(0, 0, []), stp(0, 0, [])]))    # -r: nothing changes, dies from repetition 2 on
            out.append(mscen([stp(1, 0, [after, mt(d, frm=2)]), stp(0, 0, []), stp(0, 0, [])]))
            out.append(mscen([stp(1, 0, [mt(d), after]), stp(0, 0, [])]))                          # dies in every pass
            out.append(mscen([stp(0, 0, [a0]), stp(0, 0, [mt(d, frm=2)]), stp(1, 0, [])]))      # added, dormant for a pass, then the switch
            out.append(mscen([stp(0, 0, [mt(d, own=1), a0]), stp(0, 0, [])]))                   # its own flag, no switch at all
            out.append(mscen([stp(0, 0, [a0]), stp(0, 0, [mt(d, own=1)])]))
        if not quick or n % 3 == 2:
            # an IGNORE_TEST that dies: passed over in the first pass, then run-ignored is switched on
            out.append(mscen([stp(0, 0, [mt(d, ig=1), a0]), stp(1, 1, [])]))                    # both modes between the passes
            out.append(mscen([stp(1, 0, [mt(d, ig=1), after]), stp(0, 1, [])]))                    # separate-process from the start
            out.append(mscen([stp(0, 0, [mt(d, ig=1, own=1), a0]), stp(0, 1, [])]))             # its own flag
            out.append(mscen([stp(0, 1, [mt(d, ig=1, frm=1), a0]), stp(1, 0, [])]))             # run-ignored first, then separate-process
            out.append(mscen([stp(1, 1, [after]), stp(0, 0, [mt(d, ig=1)])]))                      # added late
            out.append(mscen([stp(1, 0, [after]), stp(0, 0, [mt(d, ig=1)]), stp(0, 1, [])]))       # added, passed over, then run
    # tests failing a check in the runner's process first, in a child after the switch; ignored ones
    for f in (0, 1):
        for g in (0, 1):
            out.append(mscen([stp(0, 0, [":plain %x" % f, ":plain %x" % g]), stp(1, 0, [])]))
            out.append(mscen([stp(1, 0, [":plain %x" % f]), stp(0, 0, [":plain %x" % g])]))
            out.append(mscen([stp(0, 0, [":plain %x" % f]), stp(0, 0, [":plain %x" % g]), stp(1, 0, []), stp(0, 0, [":plain 1"])]))
            out.append(mscen([stp(0, 0, [mt(":plain %x" % f, ig=1), ":plain %x" % g]), stp(0, 1, []), stp(1, 0, [])]))
            out.append(mscen([stp(0, 0, [mt(":plain %x" % f, frm=1), mt(":plain %x" % g, own=1)]), stp(0, 0, []), stp(1, 0, [])]))
    # scripted streams in later passes (the stubs stand in for fork / waitpid only while the test shows its behaviour)
    for k in (tol - 1, tol, tol + 1):
        for end in (":x 0", ":k b 1", ":x 3"):
            s_ = scr(1, [":ei"] * k + [end])
            out.append(mscen([stp(0, 0, [mt(s_, frm=1), ":plain 0"]), stp(1, 0, [])]))
            out.append(mscen([stp(1, 0, [":plain 0"]), stp(0, 0, [mt(s_), real()])]))
    for s_ in (scr(0, []), scr(1, [":s 13", ":k 9 0"]), scr(1, [":er 5"]), scr(1, [":s 14", ":s 13", ":x 0"])):
        out.append(mscen([stp(0, 0, [mt(s_, frm=1), ":plain 1"]), stp(1, 0, [])]))
        out.append(mscen([stp(0, 0, [":plain 0"]), stp(1, 0, [mt(s_)]), stp(0, 0, [mt(s_, ig=1)]), stp(0, 1, [])]))
        out.append(mscen([stp(0, 0, [mt(s_, own=1), ":plain 0"]), stp(0, 0, []), stp(0, 0, [])]))
    # injected wait faults on a child of a later pass
    for inj in ([":ei"], [":er"], [":ei"] * tol, [":ei"] * (tol + 1), [":re", ":ei"]):
        d = real(body=[":r 13", ":r b"], inj=inj)
        out.append(mscen([stp(0, 0, [mt(d, frm=1), ":plain 0"]), stp(1, 0, [])]))
        out.append(mscen([stp(1, 0, [real()]), stp(0, 0, [mt(d)])]))
    # random programs, repaired into the judged domain
    for _ in range(250 if quick else 8000):
        ns = rng.choice([2, 2, 3, 3, 4])
        steps = []
        for k in range(ns):
            nadd = rng.randrange(1, 4) if k == 0 else rng.choice([0, 0, 1, 1, 2])
            tests = []
            for _ in range(nadd):
                c = rng.random()
                if c < 0.45:
                    x = real(**place(rng.choice(POINTS), [rng.choice([":r %x" % rng.choice(TERM), ":e %x" % rng.choice([0, 1, rng.randrange(256)]),
                                                                      ":r %x" % rng.choice(STOP), ":f"])]))
                elif c < 0.6:
                    x = rng.choice(PASSING)
                else:
                    x = rnd_test(rng, tol)
                tests.append(mt(x, frm=rng.choice([0, 0, 0, 1, 1, 2]), own=rng.random() < 0.15, ig=rng.random() < 0.2))
            steps.append(stp(rng.random() < (0.3 if k == 0 else 0.4), rng.random() < 0.2, tests))
        st = repair(parse_steps(mscen(steps)), rng)
        if valid_steps(st):
            out.append(fmt_steps(st))
    return out


# ------------------------------------------------------------------------------------------------ parsing (classification, shrinking)
class T(list):
    """a parsed test: ["plain", f] | ["scr", ok, outs] | ["real", pre, setup, body, td, post, inj], with the IGNORE_TEST marker and,
    in a several-pass program, the own separate-process flag and the pass from which the test shows its behaviour"""
    ign = False
    own = False
    frm = 0


def mk(l, ign=False, own=False, frm=0):
    t = T(l)
    t.ign = ign
    t.own = own
    t.frm = frm
    return t


def parse_test(t, i):
    frm, own, ig = 0, False, False
    if t[i] == ":from":
        frm = int(t[i + 1], 16)
        i += 2
    if t[i] == ":own":
        own = True
        i += 1
    if t[i] == ":ign":
        ig = True
        i += 1
    k = t[i]
    if k == ":plain":
        return mk(["plain", int(t[i + 1], 16)], ig, own, frm), i + 2
    if k == ":scr":
        ok = int(t[i + 1], 16)
        m = int(t[i + 2], 16)
        i += 3
        outs = []
        for _ in range(m):
            w = {":ei": 1, ":er": 2, ":c": 1, ":x": 2, ":s": 2, ":k": 3}[t[i]]
            outs.append(" ".join(t[i:i + w]))
            i += w
        return mk(["scr", ok, outs], ig, own, frm), i
    env = None
    if k == ":env":
        chld, ns = int(t[i + 1], 16), int(t[i + 2], 16)
        i += 3
        sibs = []
        for _ in range(ns):
            sibs.append(" ".join(t[i:i + 3]))
            i += 3
        env = (chld, sibs, int(t[i], 16))
    i += 1
    ph = []
    for _ in range(5):
        m = int(t[i], 16)
        i += 1
        acts = []
        for _ in range(m):
            w = 1 if t[i] == ":f" else 2
            acts.append(" ".join(t[i:i + w]))
            i += w
        ph.append(acts)
    m = int(t[i], 16)
    i += 1
    ph.append(t[i:i + m])
    i += m
    return mk(["real"] + ph + [env], ig, own, frm), i


def env_of(t):
    """(chld, sibs, eintr) of a real test under a process-level configuration, else None"""
    return t[7] if t[0] == "real" and len(t) > 7 else None


AUTO = (1, 2, 3, 4)       # SIGCHLD configurations under which the child is taken away and the wait fails with ECHILD
CHLD_NAME = ["default", "SIG_IGN", "SA_NOCLDWAIT", "handler+SA_NOCLDWAIT", "handler-reaps-first", "counting-handler"]


def is_multi(s):
    return s.startswith(":m ")


def parse_full(s):
    """one-pass line -> (ri, all_sep, tests)"""
    t = s.split()
    ri = 0
    if t[0] == ":ri":
        ri = 1
        t = t[1:]
    all_sep = int(t[0], 16)
    n = int(t[1], 16)
    i = 2
    tests = []
    for _ in range(n):
        x, i = parse_test(t, i)
        tests.append(x)
    return ri, all_sep, tests


def parse_steps(s):
    """any line -> [[sep, ri, tests], ...]; a one-pass line is one step (scripted / real tests carry their own flag when all_sep = 0)"""
    if not is_multi(s):
        ri, all_sep, tests = parse_full(s)
        for x in tests:
            x.own = x[0] != "plain" and not all_sep
        return [[all_sep, ri, tests]]
    t = s.split()
    ns = int(t[1], 16)
    i = 2
    steps = []
    for _ in range(ns):
        sep, ri, n = int(t[i], 16), int(t[i + 1], 16), int(t[i + 2], 16)
        i += 3
        tests = []
        for _ in range(n):
            x, i = parse_test(t, i)
            tests.append(x)
        steps.append([sep, ri, tests])
    return steps


def fmt_test(t):
    if t[0] == "plain":
        return ":plain %x" % t[1]
    if t[0] == "scr":
        return scr(t[1], t[2])
    e = env_of(t)
    if e is not None:
        return envt(e[0], e[1], e[2], *t[1:7])
    return real(*t[1:7])


def fmt(all_sep, tests, ri=0):
    return scen(all_sep, [ign(fmt_test(t)) if getattr(t, "ign", False) else fmt_test(t) for t in tests], ri)


def fmt_steps(steps):
    return mscen([stp(sep, ri, [mt(fmt_test(x), x.frm, x.own, x.ign) for x in tests]) for sep, ri, tests in steps])


def views(steps):
    """per pass: (separate-process switched on by then, run-ignored switched on by then, the tests in the order in which they are met)"""
    out = []
    wsep = wri = 0
    present = []
    for sep, ri, tests in steps:
        wsep, wri = wsep or sep, wri or ri
        present = list(tests) + present
        out.append((1 if wsep else 0, 1 if wri else 0, list(present)))
    return out


def awake(k, t):
    return k >= t.frm


def eff_test(k, t):
    """the test as it behaves in pass k"""
    return t if awake(k, t) else mk(["plain", 0], t.ign, t.own, t.frm)


def valid_steps(steps):
    """the judged domain (mirror of valid_m): a test in the first pass, and a scripted / real test that is run and shows its behaviour in
    a pass is in separate-process mode there"""
    if not steps or not steps[0][2]:
        return False
    for k, (wsep, wri, present) in enumerate(views(steps)):
        for x in present:
            if awake(k, x) and not (x.ign and not wri) and x[0] != "plain" and not (x.own or wsep):
                return False
    return True


def repair(steps, rng):
    """bring a random program into the judged domain: a test that would need a child in a pass without the mode gets its own flag or
    sleeps until the mode is on"""
    vs = views(steps)
    first_sep = next((k for k, v in enumerate(vs) if v[0]), None)
    for k, (wsep, wri, present) in enumerate(vs):
        for x in present:
            if awake(k, x) and not (x.ign and not wri) and x[0] != "plain" and not (x.own or wsep):
                if first_sep is not None and first_sep > k and rng.random() < 0.7:
                    x.frm = first_sep
                else:
                    x.own = True
    return steps


def skipped(ri, t):
    return t.ign and not ri


def nontrivial(s):
    if is_multi(s):
        return True
    ri, _, tests = parse_full(s)
    if any(t.ign for t in tests):
        return True
    for t in tests:
        if t[0] == "scr" and (not t[1] or any(o != ":x 0" for o in t[2])):
            return True
        if t[0] == "real" and (any(t[1:7]) or env_of(t) is not None):
            return True
    return False


def deadly_point(t):
    """the phase in which the child of a real test is ended by a terminating signal or _exit (None: it runs to its end)"""
    setup_failed = False
    for idx, name in enumerate(POINTS):
        if name == "body" and setup_failed:
            continue
        for a in t[1 + idx]:
            k = a.split()
            if k[0] == ":r":
                if int(k[1], 16) in TERM:
                    return name
            elif k[0] == ":e":
                return name
            elif name not in ("pre", "post"):      # a failing check leaves its phase
                setup_failed = setup_failed or name == "setup"
                break
    return None


def classify_multi(s):
    steps = parse_steps(s)
    vs = views(steps)
    lab = ["passes:%d" % len(steps)]
    first_sep = next((k for k, v in enumerate(vs) if v[0]), None)
    first_ri = next((k for k, v in enumerate(vs) if v[1]), None)
    lab.append("sep-switched-on:" + ("never" if first_sep is None else "before-first-pass" if first_sep == 0 else "between-passes"))
    lab.append("ri-switched-on:" + ("never" if first_ri is None else "before-first-pass" if first_ri == 0 else "between-passes"))
    if any(st[2] for st in steps[1:]):
        lab.append("tests-added-between-passes")
    if not any(st[0] or st[1] or st[2] for st in steps[1:]):
        lab.append("plain-repetition")
    added_at = {}
    for k, st in enumerate(steps):
        for x in st[2]:
            added_at[id(x)] = k
    for k, (wsep, wri, present) in enumerate(vs):
        for n, x in enumerate(present):
            if not awake(k, x) or (x.ign and not wri):
                continue
            how = None
            if x[0] == "real":
                d = deadly_point(x)
                if d:
                    how = "dies@" + d
                elif any(x[1:6]):
                    how = "fails-or-stops"
            elif x[0] == "scr" and (not x[1] or any(o != ":x 0" for o in x[2])):
                how = "scripted-event"
            elif x[0] == "plain" and x[1] and (x.own or wsep):
                how = "failing-check-in-child"
            if env_of(x) is not None:
                lab.extend(env_labels(x, source_bound()))
            if not how or k == 0:
                continue
            ctx = []
            if added_at[id(x)] > 0:
                ctx.append("test-added-late")
                if first_sep is not None and added_at[id(x)] > first_sep:
                    ctx.append("added-after-the-switch")
                elif first_sep is not None and added_at[id(x)] == first_sep:
                    ctx.append("added-with-the-switch")
            if not x.own and first_sep is not None and first_sep > 0:
                ctx.append("mode-switched-on-late")
            if x.own:
                ctx.append("own-flag")
            if x.ign and first_ri is not None and first_ri > 0:
                ctx.append("ignored-run-after-late-ri")
            if x.frm > 0:
                ctx.append("dormant-before")
            pos = "first" if n == 0 else "last" if n == len(present) - 1 else "middle"
            lab.append("later-pass:%s" % how.split("@")[0])
            lab.append("later-pass:position-" + pos)
            for c in ctx:
                lab.append("later-pass:%s:%s" % (how.split("@")[0], c))
            if how.startswith("dies@"):
                lab.append("later-pass:" + how)
    return sorted(set(lab))


def fate_class(t):
    """how the child of a real test ends: killed-<sig class> | exit-0 | exit-nonzero | failed-check | clean, and whether it stopped first"""
    tr = py_trace(["real"] + [list(x) for x in t[1:6]] + [[]])
    last = tr[-1].split()
    stops = len(tr) - 1
    if last[0] == ":k":
        sg = int(last[1], 16)
        end = "killed-uncatchable" if sg == 9 else "killed-catchable"
    elif int(last[1], 16) == 0:
        end = "exit-0" if deadly_point(t) else "clean"
    else:
        end = "exit-nonzero" if deadly_point(t) else "failed-check"
    return end, stops


def env_labels(t, tol):
    e = env_of(t)
    if e is None:
        return []
    end, stops = fate_class(t)
    lab = ["env", "env:sigchld-" + CHLD_NAME[e[0]], "env:%s:%s" % (CHLD_NAME[e[0]], end)]
    if stops:
        lab.append("env:%s:stopped-then-%s" % ("child-taken-away" if e[0] in AUTO else "child-reported", end))
    for b in e[1]:
        k = b.split()
        lab.append("env:sibling-%s-%s" % ("late" if k[1] != "0" else "dead-before", "exit0" if (k[0] == ":sx" and int(k[2], 16) == 0) else
                                         "exit-nonzero" if k[0] == ":sx" else "killed"))
    if e[1] and end not in ("clean", "exit-0"):
        lab.append("env:siblings-while-child-dies")
    if e[2]:
        lab.append("env:genuine-eintr:" + ("<tol" if e[2] < tol else "=tol" if e[2] == tol else ">tol"))
    if t[6]:
        lab.append("env:with-injected-faults")
    if e[0] in AUTO and end in ("clean", "exit-0"):
        lab.append("env:child-taken-away:clean-end-is-a-failing-wait")
    return lab


def classify(s):
    if is_multi(s):
        return classify_multi(s)
    ri, all_sep, tests = parse_full(s)
    lab = ["tests:%d" % min(len(tests), 7), "all_sep:%d" % all_sep, "run_ignored:%d" % ri]
    tol = source_bound()
    if tests and all(skipped(ri, t) for t in tests):
        lab.append("nothing-run")
    for n, t in enumerate(tests):
        if t.ign:
            how = "not-run" if not ri else "run-sep-by-registry" if all_sep else "run-own-flag" if t[0] != "plain" else "run-in-process"
            lab.append("ignored:" + how)
            if ri and t[0] == "real":
                d = deadly_point(t)
                if d:
                    lab.append("ignored-run-dies@%s:%s" % (d, "first" if n == 0 else "last" if n == len(tests) - 1 else "middle"))
                    if all_sep:
                        lab.append("ignored-run-dies:registry-flag")
                    if any(not u.ign for u in tests):
                        lab.append("ignored-run-dies:next-to-normal-tests")
        if t[0] == "scr":
            lab.append("scripted")
            if not t[1]:
                lab.append("fork-error")
            ne = t[2].count(":ei")
            if ne:
                lab.append("eintr:" + ("<tol" if ne < tol else "=tol" if ne == tol else ">tol"))
            for o in t[2]:
                lab.append("out" + o.split()[0])
        elif t[0] == "real":
            lab.append("real")
            for p, name in zip(t[1:6], POINTS):
                for a in p:
                    k = a.split()
                    if k[0] == ":r":
                        sg = int(k[1], 16)
                        lab.append("raise-%s@%s" % ("term" if sg in TERM else "stop" if sg in STOP else "ign", name))
                    elif k[0] == ":e":
                        lab.append("exit@" + name)
                    else:
                        lab.append("check@" + name)
            if t[6]:
                lab.append("inject")
            lab.extend(env_labels(t, tol))
        else:
            lab.append("plain")
    return sorted(set(lab))


# independent python rendering of the property's accounting, used only to word signatures (the judge is the extracted spec)
def py_trace(t):
    """real test -> symbolic outcome list of its child"""
    stops, failed, fate = [], 0, None

    def acts(l, plugin):
        nonlocal failed, fate
        for a in l:
            k = a.split()
            if k[0] == ":r":
                sg = int(k[1], 16)
                if sg in STOP:
                    stops.append(":s %x" % sg)
                elif sg not in IGN:
                    fate = ":k %x 0" % sg
                    return False
            elif k[0] == ":e":
                fate = ":x %x" % int(k[1], 16)
                return False
            else:
                failed += 1
                if not plugin:
                    return True       # leaves the phase
        return None
    r = acts(t[1], True)
    if fate is None:
        r = acts(t[2], False)
    if fate is None and r is not True:
        acts(t[3], False)
    if fate is None:
        acts(t[4], False)
    if fate is None:
        acts(t[5], True)
    if fate is None:
        fate = ":x 1" if failed else ":x 0"
    evs = stops + [fate]
    e = env_of(t)
    if e is not None:
        evs = [":ei"] * e[2] + stops + [":er a" if e[0] in AUTO else fate]
    out = []
    for i in t[6]:
        if i == ":re":
            if evs:
                out.append(evs.pop(0))
        else:
            out.append(i)
    return out + evs


def py_expect(outs, tol):
    f = c = 0
    seen = []
    for o in outs:
        c += 1
        k = o.split()[0]
        seen.append(k if k != ":x" else (":x0" if int(o.split()[1], 16) == 0 else ":x"))
        if k == ":er":
            return f + 1, c, False, seen
        if k == ":ei":
            if tol == 0:
                return f + 1, c, False, seen
            tol -= 1
        elif k == ":x":
            return f + (0 if int(o.split()[1], 16) == 0 else 1), c, True, seen
        elif k == ":k":
            return f + 1, c, True, seen
        elif k == ":s":
            f += 1
    return f, c, False, seen


def sig_pass(tests, seps, ri, toks, i, tol):
    """wording of the first discrepancy in one pass; tests = the tests as they behave in this pass, seps = separate-process mode per
    test.  Returns (text or None, index behind the pass's :end record)."""
    earlier = False
    nfs = 0
    for n, t in enumerate(tests):
        if i >= len(toks) or toks[i] != ":t":
            return "test %s missing from the record" % t[0], i
        started, nf = toks[i + 1], int(toks[i + 2], 16)
        j = i + 3
        for _ in range(nf):
            j += 2 if toks[j] == ":k" else 1
        calls, lost = int(toks[j], 16), toks[j + 2]
        i = j + 3
        nfs += nf
        if skipped(ri, t):
            shape = "ignored %s (no run-ignored)" % t[0]
            if started != "0":
                return shape + " was started", i
            if nf or calls:
                return shape + " failures %d waits %d want none" % (nf, calls), i
            continue
        if t[0] == "plain" and not seps[n]:
            want, seen = (t[1], 0, True), ["in-process"]
        elif t[0] == "scr" and not t[1]:
            want, seen = (1, 0, True), ["fork-error"]
        else:
            outs = t[2] + [":x 0"] if t[0] == "scr" else py_trace(t if t[0] == "real" else ["real", [], [], [":f"] if t[1] else [], [], [], []])
            f, c, reaped, seen = py_expect(outs, tol)
            want = (f, c, reaped or t[0] == "scr")
        ne = seen.count(":ei")
        e = env_of(t)
        cfg = ""
        if e is not None:
            cfg = "{SIGCHLD %s%s%s}" % (CHLD_NAME[e[0]], ", other children" if e[1] else "", ", genuine EINTR" if e[2] else "")
        shape = "%s%s%s[%s%s]%s" % ("ignored(run) " if t.ign else "", t[0], cfg, "ei*%s " % ("<=tol" if ne <= tol else ">tol") if ne else "",
                                   " ".join(x for x in seen if x != ":ei"), " after earlier failures" if earlier else "")
        if started != "1":
            return shape + " not started", i
        if t[0] == "real" and nf == 0 and fate_class(t)[0] not in ("clean", "exit-0"):
            return shape + " child did not end with exit status 0 and is recorded as passed (failures 0 want %d)" % want[0], i
        if nf != want[0]:
            return shape + " failures %d want %d" % (nf, want[0]), i
        if calls != want[1]:
            return shape + " waits %d want %d" % (calls, want[1]), i
        if want[2] and lost == "1":
            return shape + " child left behind", i
        earlier = earlier or nf > 0
    if i >= len(toks) or toks[i] != ":end":
        return "more tests recorded than the registry has", i
    total, isf, run, ig = int(toks[i + 1], 16), toks[i + 2], int(toks[i + 3], 16), int(toks[i + 4], 16)
    nskip = sum(1 for t in tests if skipped(ri, t))
    if total != nfs or isf != ("1" if total else "0") or run != len(tests) - nskip or ig != nskip:
        return "totals / overall verdict / run and ignored counts", i + 6
    return None, i + 6


def signature_multi(s, o):
    steps = parse_steps(s)
    vs = views(steps)
    first_sep = next((k for k, v in enumerate(vs) if v[0]), None)
    ctx = []
    if first_sep is not None and first_sep > 0:
        ctx.append("separate-process switched on after a pass")
    if any(v[1] for v in vs) and not vs[0][1]:
        ctx.append("run-ignored switched on after a pass")
    if any(st[2] for st in steps[1:]):
        ctx.append("tests added after a pass")
    ctx = " [" + ", ".join(ctx) + "]" if ctx else ""
    if o.startswith("!"):
        return "crash: harness %s over several passes%s" % ("hung" if o.startswith("!HANG") else "died", ctx)
    toks = o.split()
    tol = source_bound()
    late = False
    i = 0
    for k, (wsep, wri, present) in enumerate(vs):
        where = "first pass" if k == 0 else "later pass"
        if i < len(toks) and toks[i] == ":died":
            how = toks[i + 2][1:] if i + 2 < len(toks) else "?"
            return "died: runner's own process %s in the %s%s" % (how, where, ctx)
        if i >= len(toks):
            return "%s missing from the record%s" % (where, ctx)
        tests = [eff_test(k, x) for x in present]
        msg, i = sig_pass(tests, [x.own or wsep for x in present], wri, toks, i, tol)
        late = late or (i - 1 < len(toks) and i >= 1 and toks[i - 1] == "1")
        if msg:
            return "late " * late + "%s: %s%s" % (where, msg, ctx)
    if i < len(toks):
        return "late " * late + "record goes on after the last pass" + ctx
    return "late " * late + "no discrepancy found by the wording code" + ctx


def signature(s, o):
    try:
        if is_multi(s):
            return signature_multi(s, o)
    except Exception as e:
        return "malformed observation (several passes)"
    if o.startswith("!"):
        # the runner's own process died or hung: say how, and what kind of scenario it was (the observation cannot tell which test)
        try:
            ri, all_sep, tests = parse_full(s)
            how = "hung" if o.startswith("!HANG") else "killed by a signal" if "signal" in o else "exited" if "exit" in o else o[:40]
            ctx = []
            if any(t.ign and ri for t in tests):
                ctx.append("an IGNORE_TEST is run (run-ignored)")
            if all_sep:
                ctx.append("registry-wide separate-process flag")
            return "crash: runner process %s%s" % (how, " [" + ", ".join(ctx) + "]" if ctx else "")
        except Exception:
            return "crash " + o[:50]
    try:
        tol = source_bound()
        ri, all_sep, tests = parse_full(s)
        toks = o.split()
        late = toks[-1] == "1"
        if ":died" in toks:
            ctx = []
            if any(t.ign and ri for t in tests):
                ctx.append("an IGNORE_TEST is run (run-ignored)")
            if all_sep:
                ctx.append("registry-wide separate-process flag")
            return "died: runner's own process %s%s" % (toks[toks.index(":died") + 2][1:], " [" + ", ".join(ctx) + "]" if ctx else "")
        msg, _ = sig_pass(tests, [all_sep] * len(tests), ri, toks, 0, tol)
        return "late " * late + (msg or "totals / overall verdict / run and ignored counts")
    except Exception as e:
        return "malformed observation"


def shrink_test(t):
    """smaller versions of one test (markers kept)"""
    if t[0] == "scr":
        outs = t[2]
        if len(outs) > 8:
            yield mk(["scr", t[1], outs[:len(outs) // 2]], t.ign, t.own, t.frm)
            yield mk(["scr", t[1], outs[len(outs) // 2:]], t.ign, t.own, t.frm)
        for j in range(len(outs)):
            yield mk(["scr", t[1], outs[:j] + outs[j + 1:]], t.ign, t.own, t.frm)
    elif t[0] == "real":
        e = env_of(t)
        if e is not None:
            base = list(t[:7])
            yield mk(base, t.ign, t.own, t.frm)                                   # the plain real child
            if e[1]:
                yield mk(base + [(e[0], [], e[2])], t.ign, t.own, t.frm)
                for j in range(len(e[1])):
                    yield mk(base + [(e[0], e[1][:j] + e[1][j + 1:], e[2])], t.ign, t.own, t.frm)
            if e[2]:
                yield mk(base + [(e[0], e[1], 0)], t.ign, t.own, t.frm)
                yield mk(base + [(e[0], e[1], e[2] // 2)], t.ign, t.own, t.frm)
                yield mk(base + [(e[0], e[1], e[2] - 1)], t.ign, t.own, t.frm)
            if e[0]:
                yield mk(base + [(0, e[1], e[2])], t.ign, t.own, t.frm)
                if e[0] != 1:
                    yield mk(base + [(1, e[1], e[2])], t.ign, t.own, t.frm)
        keep = e is not None and fate_class(t)[0] not in ("clean", "exit-0")
        for p in range(1, 7):
            for j in range(len(t[p])):
                nt = list(t)
                nt[p] = list(t[p][:j]) + list(t[p][j + 1:])
                nt = mk(nt, t.ign, t.own, t.frm)
                # under a process-level configuration a child that does not end with exit status 0 stays one (the replay then shows
                # the clause that is broken: "never recorded as passed", not only "a failing wait is a failure")
                if keep and p < 6 and fate_class(nt)[0] in ("clean", "exit-0"):
                    continue
                yield nt


def copy_steps(steps):
    return [[sep, ri, [mk(list(x), x.ign, x.own, x.frm) for x in tests]] for sep, ri, tests in steps]


def shrink_multi(s):
    steps = parse_steps(s)
    cands = []
    n = len(steps)
    if n > 1:
        cands.append(copy_steps(steps[:-1]))                         # without the last pass
        for k in range(1, n):                                        # without the pass between step k-1 and step k
            c = copy_steps(steps)
            for st in c:
                for x in st[2]:
                    if x.frm >= k:
                        x.frm -= 1
            c[k - 1] = [c[k - 1][0] or c[k][0], c[k - 1][1] or c[k][1], c[k][2] + c[k - 1][2]]
            del c[k]
            cands.append(c)
    for k in range(n):
        for j in range(len(steps[k][2])):
            c = copy_steps(steps)
            del c[k][2][j]
            cands.append(c)
    for k in range(n):
        for w in (0, 1):
            if steps[k][w]:
                c = copy_steps(steps)
                c[k][w] = 0
                cands.append(c)
    for k in range(n):
        for j, x in enumerate(steps[k][2]):
            if x.ign:
                c = copy_steps(steps)
                c[k][2][j].ign = False
                cands.append(c)
            if x.own:
                c = copy_steps(steps)
                c[k][2][j].own = False
                cands.append(c)
            if x.frm:
                c = copy_steps(steps)
                c[k][2][j].frm = 0
                cands.append(c)
                if x.frm > 1:
                    c = copy_steps(steps)
                    c[k][2][j].frm = x.frm - 1
                    cands.append(c)
            for nt in shrink_test(x):
                c = copy_steps(steps)
                c[k][2][j] = nt
                cands.append(c)
    for c in cands:
        if valid_steps(c):
            yield fmt_steps(c)


def shrink(s):
    if is_multi(s):
        for c in shrink_multi(s):
            yield c
        return
    ri, all_sep, tests = parse_full(s)
    if len(tests) > 1:
        for i in range(len(tests)):
            yield fmt(all_sep, tests[:i] + tests[i + 1:], ri)
    if all_sep:
        yield fmt(0, tests, ri)
    if ri:
        yield fmt(all_sep, tests, 0)
        if any(t.ign for t in tests):      # the switch and the markers together: the same tests as ordinary ones
            yield fmt(all_sep, [mk(t) for t in tests], 0)
    for i, t in enumerate(tests):
        if t.ign:
            yield fmt(all_sep, tests[:i] + [mk(t)] + tests[i + 1:], ri)
        for nt in shrink_test(t):
            yield fmt(all_sep, tests[:i] + [nt] + tests[i + 1:], ri)


LEVEL_TEXT = ("Machine-checked (Coq) theorems over an executable model of the separate-process runner (status-word decoding exactly as the glibc "
              "macros, SetTestFailureByStatusCode, the fork/waitpid loop with its EINTR retry bound and SIGCONT for stopped children, the child's "
              "verdict _exit(initial < final), runOneTest's choice, IgnoredUtestShell::runOneTest with the registry-wide run-ignored switch, and "
              "runAllTests' loop with the run/ignored counters and isFailure): the decoding partitions all 65536 status words and "
              "inverts the kernel's packing, the wait loop ends within a bounded prefix of every outcome stream, failures are exactly one per "
              "stop / abnormal end / failing fork or wait (none iff forked, no stop, exit 0), interrupted waits within the bound are transparent, "
              "every later test is still run and the run is reported failed; an IGNORE_TEST run under the run-ignored switch is recorded exactly "
              "as the same test not marked ignored (same wait loop, same containment), without the switch it has no child, no wait and no "
              "failure whatever its program and is counted as ignored. Several runAllTests passes over one registry (the modes switched on "
              "before the first pass or between passes, tests added between passes; shells carrying sticky flags, the loop pushing the "
              "registry's switches onto every shell in every pass): every pass is, item for item, the first pass of a fresh registry with the "
              "switches and tests of that moment, a dying test is contained in every pass whenever it was added and whenever the mode was "
              "switched on, the runner lives through all passes, and a registry that pushes its switches in the first pass only is refuted "
              "against the oracle. Tied to the code by a differential run of the extracted model "
              "against the real library: scripted fork/waitpid outcome streams through the PlatformSpecific seams and real children dying by "
              "every signal 1..31, exit status, failing check or stop at every crash point, as ordinary tests and as IGNORE_TESTs with and "
              "without -ri, their child coming from the registry-wide flag alone or from their own; the extracted model-free spec judges the "
              "implementation. Every scenario is executed in a runner process of its own under the harness as supervisor, one or several "
              "passes over one real TestRegistry: a test executed in the runner's own process that kills, ends or stops it is observed as "
              "'runner died' and refused by the oracle. Real children are forked and waited for through the library's own PlatformSpecificFork / "
              "PlatformSpecificWaitPid implementations (the harness wraps the start-up values of the two seams), also while the program has "
              "SIGCHLD ignored, SA_NOCLDWAIT set, a handler that reaps with waitpid(-1) first or a handler that only counts, has other "
              "children that are dead already or end meanwhile, and while real signals interrupt the wait: proved for ANY list of wait "
              "answers (any result, any status word) that a test has no failure only behind an answer 'exited with status 0', that the ECHILD "
              "answer is exactly one failure behind one per reported stop, that under every configuration a child that did not end with exit "
              "status 0 leaves a failure (in the model and, as a clause of the oracle, on whatever the implementation reports), and that a wait "
              "wrapper turning ECHILD into a clean status is refuted against the oracle.")
LEVEL_NOTE = ("Partial: kernel delivery of signals, zombie reaping and SIGCONT are observed on real children, not modelled beyond the default-action "
              "table and the status-word layout (both trusted, stated in C11_Model.v). Retry bound, comparison, WUNTRACED and the six message "
              "texts are re-read from UtestPlatform.cpp on every run. After an EINTR overrun or a waitpid error the runner abandons the child by "
              "design; this is recorded, not judged. What the kernel answers under each SIGCHLD configuration is a trusted table checked against "
              "the real kernel on every run (the unchanged library must reproduce the model's observation on ~1300 configured scenarios).")
TECHNIQUE = "Coq proof over hand-written executable model + extracted-model/implementation correspondence check (scripted seams + real fork/wait)"
READY = True
