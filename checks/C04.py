"""C04 -- leak accounting is exact for every allocation history.
Scenario: <layout 0|1> op*  (layout 1 = allocatNodesSeperately).  Grammar of ops and observation items: ocaml/c04_driver.ml.
Scenario addresses are small integers a (< 73*64): the harness places block a at a real address with the same residue modulo the
hash-table size, so a % 73 is the bucket."""
from vlib import tz
ID = "C04"
FLAVOURS = ["asan"]
PER_TIMEOUT = 10.0
HARNESS_SRCS = ["harness/C04.cpp"]
HP = 73
NJ = 64
ARITY = {":a": 5, ":f": 2, ":r": 6, ":af": 5, ":rf": 6, ":clr": 1, ":rep": 1, ":dis": 0, ":en": 0, ":start": 0, ":stop": 0, ":inc": 0, ":dec": 0,
         ":das": 0, ":mark": 0, ":q": 0}
RULE = ("random allocation histories (1-400 ops, both bookkeeping layouts) aimed at the case splits of the proofs: bucket choice skewed to "
        "1-3 hot buckets (chains up to 60), release targets head / middle / tail of a chain, stale, never-allocated (in a populated "
        "bucket), NULL, address reuse, realloc in place / to another bucket / of a dead block, period transitions between any two ops, "
        "stages nested 0-3 plus the unsigned-char wrap (256 increments), clear of each period, stage release, demotion of checking "
        "blocks, totals and reports at random points; allocations and reallocations (of live / dead / NULL blocks) that the underlying "
        "allocator refuses (the block, or the separate bookkeeping record), followed by totals or the release of the block; "
        "'straddle' histories whose reports sit on both sides of the report buffer limit (many small leaks, or few leaks with "
        "file names of 12-140 characters, reported, thinned out and reported again), malloc / non-malloc mixes for the note. "
        "non-trivial = at least one allocation and one release/clear/stage op and one totals/report query")
ASSUMPTIONS = ["addresses handed out by the underlying allocator are not in use (allocator contract)",
               "a block is released with the allocator kind it was obtained with (mismatch is C06)",
               "which underlying allocator calls fail is scenario input (what a failed request returns and frees is C05)", "allocation numbers stay below 2^32 (unsigned wrap not modelled)",
               "a report cut short by the 4096-byte buffer (C14) must carry the exact footer total, 'no leaks' answer and malloc note, "
               "and list distinct outstanding blocks (at least one); where the cut falls is C14's"]


def split_ops(s):
    t = s.split()
    ops, i = [], 1
    while i < len(t):
        n = ARITY[t[i]]
        ops.append(t[i:i + 1 + n])
        i += 1 + n
    return t[0], ops


def join_ops(layout, ops):
    return " ".join([layout] + [" ".join(o) for o in ops])


class Sim:
    """the abstract accounting (used to steer generation and to name the first bad item of a failure)"""

    def __init__(self):
        self.live = {}      # addr -> [size, number, file, line, kind, stamp, stage]   (insertion ordered)
        self.period, self.stage, self.seq = 1, 0, 1   # stamp 1 disabled 2 enabled 3 checking (enum values)
        self.dead = []

    def applies(self, p, r):
        st = r[5]
        return p == 0 or (p == 1 and st == 1) or (p == 2 and st in (2, 3)) or (p == 3 and st == 3)

    def store(self, a, sz, k, f, l):
        self.live[a] = [sz, self.seq, f, l, k, self.period, self.stage]
        self.seq += 1

    def step(self, o):
        """returns the expected observation item (list of ints with tag) or None"""
        k = o[0]
        h = lambda x: int(x, 16)
        if k == ":a":
            self.store(h(o[1]), h(o[2]), h(o[3]), h(o[4]), h(o[5]))
        elif k == ":f":
            if o[1] == "~":
                return ["F", 0, 0]
            a = h(o[1])
            if a in self.live:
                del self.live[a]
                self.dead.append(a)
                return ["F", 0, 0]
            return ["F", 1, 0]
        elif k == ":r":
            if o[1] != "~":
                a = h(o[1])
                if a not in self.live:
                    return ["F", 1, 0]
                del self.live[a]
                self.dead.append(a)
            self.store(h(o[2]), h(o[3]), h(o[4]), h(o[5]), h(o[6]))
            return ["F", 0, 0]
        elif k == ":af":
            return ["F", 0, 0]
        elif k == ":rf":
            return ["F", 0 if (o[1] == "~" or h(o[1]) in self.live) else 1, 0]
        elif k == ":dis":
            self.period = 1
        elif k in (":en", ":stop"):
            self.period = 2
        elif k == ":start":
            self.period = 3
        elif k == ":inc":
            self.stage = (self.stage + 1) % 256
        elif k == ":dec":
            self.stage = (self.stage + 255) % 256
        elif k == ":das":
            for a in [a for a, r in self.live.items() if r[6] == self.stage]:
                del self.live[a]
                self.dead.append(a)
            return ["S", 0, 0]
        elif k == ":mark":
            for r in self.live.values():
                if r[5] == 3:
                    r[5] = 2
        elif k == ":clr":
            p = h(o[1])
            for a in [a for a, r in self.live.items() if self.applies(p, r)]:
                del self.live[a]
                self.dead.append(a)
        elif k == ":q":
            return ["T"] + [sum(1 for r in self.live.values() if self.applies(p, r)) for p in range(4)]
        elif k == ":rep":
            p = h(o[1])
            es = sorted((r[1], a, r[0], r[2], r[3], r[4]) for a, r in self.live.items() if self.applies(p, r))
            it = ["R", 1 if not es else 0, 0, len(es), 1 if any(e[5] == 2 for e in es) else 0, len(es)]
            for (num, a, sz, f, l, kd) in es:
                it += [a, sz, num, f, l, kd]
            return it
        return None

    def report_bytes(self, p):
        """estimated length of the entry part of report(p) (steers generation and labels only)"""
        return sum(entry_bytes(r) for r in self.live.values() if self.applies(p, r))


REPORT_LIMIT = 4096 - (24 + 10 + 69 + 273)      # startMemoryLeakReporting: buffer minus the reserved footers


def name_len(f):
    return len("f%x.c" % f) + (0 if f < 0x80 else 1 + 8 + 2 * (f & 0x3f))       # harness/C04.cpp: fileNames


def entry_bytes(r):
    sz, num, f, l, k = r[0], r[1], r[2], r[3], r[4]
    head = 82 + len("%d" % num) + len("%d" % sz) + name_len(f) + len("%d" % l) + (3, 6, 6)[k] + 14
    return head + sum(62 + min(16, sz - i) + (1 if 16 - min(16, sz - i) > 8 else 0) for i in range(0, sz, 16))


def gen_one(rng, nops, maxlive, hot_n, big=False):
    sim = Sim()
    layout = str(rng.randrange(2))
    hot = [rng.randrange(HP) for _ in range(hot_n)]
    ops = []
    depth = 0

    def bucket():
        return rng.choice(hot) if rng.random() < 0.85 else rng.randrange(HP)

    def fresh(b=None):
        for _ in range(50):
            bb = bucket() if b is None else b
            # reuse a dead address of that bucket now and then
            cand = [a for a in sim.dead[-40:] if a % HP == bb and a not in sim.live]
            if cand and rng.random() < 0.3:
                return rng.choice(cand)
            a = bb + HP * rng.randrange(NJ)
            if a not in sim.live:
                return a
            b = None
        for a in range(HP * NJ):
            if a not in sim.live:
                return a

    def size():
        c = rng.random()
        if c < 0.75:
            return rng.randrange(0, 9)
        if c < 0.95:
            return rng.randrange(9, 33)
        return rng.randrange(33, 0x61)

    def pick_live():
        """a live block chosen by chain position: head / tail / middle of a (preferably long) chain"""
        if not sim.live:
            return None
        chains = {}
        for a in sim.live:
            chains.setdefault(a % HP, []).append(a)
        b = rng.choice(list(chains)) if rng.random() < 0.3 else max(chains, key=lambda x: (len(chains[x]), rng.random()))
        ch = chains[b]           # insertion order: last = head of the list
        c = rng.random()
        if c < 0.3:
            return ch[-1]
        if c < 0.6:
            return ch[0]
        return rng.choice(ch)

    def emit(o):
        ops.append(o)
        sim.step(o)

    def alloc_op():
        a = fresh()
        emit([":a", tz(a), tz(size()), tz(rng.randrange(3)), tz(rng.randrange(6)), tz(rng.choice([0, 1, 7, 0x7b, 0x3e8, 0xffff]))])

    def failing_op():
        """a request the underlying allocator refuses; then often a look at the totals or the release of the very block"""
        w = tz(rng.choice([1, 2]))
        r = rng.random()
        if r < 0.2:
            emit([":af", tz(size()), tz(rng.randrange(3)), tz(rng.randrange(6)), tz(rng.randrange(0x100)), w])
        elif r < 0.8 and sim.live:
            a = pick_live()
            kd = sim.live[a][4]
            emit([":rf", tz(a), tz(size()), tz(kd), tz(rng.randrange(6)), tz(rng.randrange(0x100)), w])
            r2 = rng.random()
            if r2 < 0.3:
                emit([":f", tz(a), tz(kd)])
            elif r2 < 0.45:
                emit([":r", tz(a), tz(a if rng.random() < 0.5 else fresh()), tz(size()), tz(kd), "0", "2"])
        elif r < 0.88:
            emit([":rf", "~", tz(size()), tz(rng.randrange(3)), tz(rng.randrange(6)), tz(rng.randrange(0x100)), w])
        else:
            a = rng.choice(sim.dead[-20:]) if sim.dead and rng.random() < 0.6 else bucket() + HP * rng.randrange(NJ)
            kd = sim.live[a][4] if a in sim.live else rng.randrange(3)
            emit([":rf", tz(a), tz(size()), tz(kd), "0", "1", w])
        if rng.random() < 0.5:
            emit([":q"])

    if rng.random() < 0.8:     # a fresh detector is disabled: most histories switch accounting on first
        emit([rng.choice([":en", ":start", ":start"])])
    for _ in range(nops):
        c = rng.random()
        nl = len(sim.live)
        if c < (0.55 if nl < maxlive else 0.05):
            alloc_op()
        elif c < 0.72:
            r = rng.random()
            if r < 0.72 and sim.live:
                a = pick_live()
                emit([":f", tz(a), tz(sim.live[a][4])])
            elif r < 0.82 and sim.dead:
                a = rng.choice(sim.dead[-20:])
                if a in sim.live:
                    emit([":f", tz(a), tz(sim.live[a][4])])
                else:
                    emit([":f", tz(a), tz(rng.randrange(3))])          # stale
            elif r < 0.95:
                a = bucket() + HP * rng.randrange(NJ)                  # never allocated / whatever is there, in a populated bucket
                if a in sim.live:
                    emit([":f", tz(a), tz(sim.live[a][4])])
                else:
                    emit([":f", tz(a), tz(rng.randrange(3))])
            else:
                emit([":f", "~", tz(rng.randrange(3))])
        elif c < 0.815 and c >= 0.78:
            failing_op()
        elif c < 0.78:
            r = rng.random()
            if r < 0.7 and sim.live:
                a = pick_live()
                kd = sim.live[a][4]
                rr = rng.random()
                na = a if rr < 0.35 else (fresh(a % HP) if rr < 0.6 else fresh())
                if na in sim.live and na != a:
                    na = a
                emit([":r", tz(a), tz(na), tz(size()), tz(kd), tz(rng.randrange(6)), tz(rng.randrange(0x100))])
            elif r < 0.85:
                emit([":r", "~", tz(fresh()), tz(size()), tz(rng.randrange(3)), tz(rng.randrange(6)), tz(rng.randrange(0x100))])
            else:
                a = rng.choice(sim.dead[-20:]) if sim.dead and rng.random() < 0.6 else bucket() + HP * rng.randrange(NJ)
                if a in sim.live:
                    kd = sim.live[a][4]
                    emit([":r", tz(a), tz(a), tz(size()), tz(kd), "0", "1"])
                else:
                    emit([":r", tz(a), tz(fresh()), tz(size()), tz(rng.randrange(3)), "0", "1"])   # dead block: reported, nothing stored
        elif c < 0.875:
            emit([rng.choice([":dis", ":en", ":start", ":stop", ":start", ":stop", ":mark"])])
        elif c < 0.912:
            r = rng.random()
            if r < 0.4 and depth < 3:
                emit([":inc"]); depth += 1
            elif r < 0.6 and depth > 0:
                emit([":dec"]); depth -= 1
            elif r < 0.65:
                emit([":dec"]); depth -= 1     # below zero: wraps to 255
            else:
                emit([":das"])
                emit([":q"])
        elif c < 0.935:
            emit([":clr", str(rng.randrange(4))])
            emit([":q"])
        elif c < 0.97:
            emit([":q"])
        else:
            emit([":rep", str(rng.randrange(4))])
    if big:   # unsigned char wrap of the stage: 256 increments come back to the same stage
        n0 = len(ops)
        for _ in range(256):
            emit([":inc"])
        emit([":das"])
    emit([":q"])
    for p in rng.sample(range(4), 2):
        emit([":rep", str(p)])
    return join_ops(layout, ops)


def gen_straddle(rng):
    """reports on both sides of the report buffer limit: leaks are piled up until the estimated report is 0.6-1.6 times the limit,
    reported for every period, thinned out (frees, a clear, a stage release), and reported again"""
    sim = Sim()
    layout = str(rng.randrange(2))
    ops = []

    def emit(o):
        ops.append(o)
        sim.step(o)

    hot = [rng.randrange(HP) for _ in range(rng.choice([1, 2, 3, 6]))]
    mode = rng.choice(["small", "small", "long", "mixed", "zero"])
    kinds = rng.choice([[0], [0, 1], [0, 1, 2], [2], [0, 0, 0, 0, 0, 0, 2]])     # with / without malloc blocks: the note

    def fresh():
        while True:
            a = (rng.choice(hot) if rng.random() < 0.8 else rng.randrange(HP)) + HP * rng.randrange(NJ)
            if a not in sim.live:
                return a

    def one_alloc():
        if mode == "small":
            sz, f = rng.randrange(0, 9), rng.randrange(6)
        elif mode == "zero":
            sz, f = 0, rng.randrange(3)
        elif mode == "long":
            sz, f = rng.choice([0, 0, 1, 4]), rng.randrange(0x80, 0x100)
        else:
            sz, f = rng.choice([0, 1, 8, 0x10, 0x11, 0x30, 0x60]), rng.choice([0, 1, 0x80, 0xbf, 0xff])
        a = fresh()
        if sim.live and rng.random() < 0.08:
            old = rng.choice(list(sim.live))
            emit([":r", tz(old), tz(a), tz(sz), tz(sim.live[old][4]), tz(f), tz(rng.randrange(0x100))])
        else:
            emit([":a", tz(a), tz(sz), tz(rng.choice(kinds)), tz(f), tz(rng.choice([0, 7, 0x3e8, 0xffff]))])

    emit([rng.choice([":en", ":start", ":start", ":dis"])])
    target = REPORT_LIMIT * rng.uniform(0.6, 1.6)
    while sim.report_bytes(0) < target and len(sim.live) < 140:
        one_alloc()
        c = rng.random()
        if c < 0.04:
            emit([rng.choice([":en", ":start", ":stop", ":dis", ":inc"])])
        elif c < 0.08 and sim.live:
            a = rng.choice(list(sim.live))
            emit([":rf", tz(a), "4", tz(sim.live[a][4]), "0", "1", tz(rng.choice([1, 2]))])
        elif c < 0.11 and sim.live:
            a = rng.choice(list(sim.live))
            emit([":f", tz(a), tz(sim.live[a][4])])
    emit([":q"])
    for p in rng.sample(range(4), rng.choice([2, 4])):
        emit([":rep", str(p)])
    # thin out and look again
    c = rng.random()
    if c < 0.6:
        for a in rng.sample(list(sim.live), min(len(sim.live), rng.randrange(1, 8))):
            emit([":f", tz(a), tz(sim.live[a][4])])
    elif c < 0.8:
        emit([":clr", str(rng.randrange(1, 4))])
    else:
        emit([":das"])
    emit([":q"])
    for p in rng.sample(range(4), 2):
        emit([":rep", str(p)])
    if rng.random() < 0.3:
        for _ in range(rng.randrange(1, 6)):
            one_alloc()
        emit([":rep", "0"])
    return join_ops(layout, ops)


def generate(tier, rng):
    out = []
    n = 2500 if tier == "quick" else 60000
    for i in range(n):
        c = rng.random()
        if c < 0.14:
            s = gen_straddle(rng)
        elif c < 0.35:
            s = gen_one(rng, rng.randrange(1, 40), 12, rng.choice([1, 1, 2, 3]))
        elif c < 0.8:
            s = gen_one(rng, rng.randrange(40, 160), rng.choice([10, 40, 70]), rng.choice([1, 2, 3]))
        elif c < 0.97:
            s = gen_one(rng, rng.randrange(160, 400), rng.choice([60, 150]), rng.choice([1, 2, 3, 8]))
        else:
            s = gen_one(rng, rng.randrange(10, 80), 30, 2, big=True)
        out.append(s)
    return out


def nontrivial(s):
    _, ops = split_ops(s)
    ks = set(o[0] for o in ops)
    return ":a" in ks and bool(ks & {":f", ":r", ":rf", ":clr", ":das", ":mark"}) and bool(ks & {":q", ":rep"})


def classify(s):
    layout, ops = split_ops(s)
    ks = set(o[0] for o in ops)
    n = len(ops)
    lab = ["layout=%s" % layout, "ops<=40" if n <= 40 else "ops<=160" if n <= 160 else "ops>160"]
    sim = Sim()
    maxchain = 0
    stale = 0
    over = under = mnote = 0
    flive = fother = 0
    for o in ops:
        if o[0] == ":rep":
            b = sim.report_bytes(int(o[1], 16))
            if b > REPORT_LIMIT:
                over += 1
            elif b > 0:
                under += 1
        if o[0] == ":rf" and o[1] != "~" and int(o[1], 16) in sim.live:
            flive += 1
        elif o[0] in (":af", ":rf"):
            fother += 1
        it = sim.step(o)
        if it and it[0] == "R" and it[4] == 1:
            mnote += 1
        if it and it[0] == "F" and it[1] == 1:
            stale += 1
        if o[0] in (":a", ":r") and sim.live:
            ch = {}
            for a in sim.live:
                ch[a % HP] = ch.get(a % HP, 0) + 1
            maxchain = max(maxchain, max(ch.values()))
    lab.append("chain<=3" if maxchain <= 3 else "chain<=15" if maxchain <= 15 else "chain>15")
    if stale:
        lab.append("non-allocated release")
    if over:
        lab.append("report beyond the buffer limit (est.)")
    if over and under:
        lab.append("reports on both sides of the buffer limit (est.)")
    if mnote:
        lab.append("report with malloc note")
    if flive:
        lab.append("refused realloc of a live block")
    if fother:
        lab.append("refused alloc / realloc of NULL or dead block")
    for k, name in ((":r", "realloc"), (":das", "stage release"), (":clr", "clear"), (":mark", "demote"), (":rep", "report")):
        if k in ks:
            lab.append(name)
    return lab


def items_of(obs):
    t = obs.split()
    its, i = [], 0
    try:
        while i < len(t):
            if t[i] in ("F", "S"):
                its.append(t[i:i + 3]); i += 3
            elif t[i] == "T":
                its.append(t[i:i + 5]); i += 5
            elif t[i] == "R":
                k = int(t[i + 5], 16)
                its.append(t[i:i + 6 + 6 * k]); i += 6 + 6 * k
            else:
                its.append(t[i:i + 1]); i += 1
    except Exception:
        pass
    return its


def item_agrees(exp, got):
    """python rendering of check_item (only used to name the first bad item of a failure; the judge is the extracted spec)"""
    if got is None or got[0] != exp[0]:
        return False
    if exp[0] != "R" or len(got) < 6 or got[2] != "1":
        return got == exp
    # report cut short: no-leaks, total and note exact, entries distinct outstanding ones, at least one
    if got[1] != exp[1] or got[3] != exp[3] or got[4] != exp[4]:
        return False
    ge = [tuple(got[i:i + 6]) for i in range(6, len(got), 6)]
    ee = set(tuple(exp[i:i + 6]) for i in range(6, len(exp), 6))
    return len(ge) > 0 and len(set(ge)) == len(ge) and all(x in ee for x in ge)


def project(obs, flavour):
    """model and implementation are compared on everything but the entry lists and the truncation flag of reports: where the report
    buffer (C14) cuts a long report is not modelled; the entries are judged by spec (set equality / subset) on the implementation"""
    out = []
    for it in items_of(obs):
        out += it[:2] + it[3:5] if it[0] == "R" else it
    return " ".join(out)


def signature(s, obs):
    """first item that differs from the abstract accounting, with the op that produced it"""
    if obs.startswith("!"):
        return "crash / sanitizer report / hang"
    layout, ops = split_ops(s)
    sim = Sim()
    its = items_of(obs)
    j = 0
    for o in ops:
        e = sim.step(o)
        if e is None:
            continue
        got = its[j] if j < len(its) else None
        j += 1
        exp = [e[0]] + [tz(x) for x in e[1:]]
        if not item_agrees(exp, got):
            return "layout %s: first bad item %s after %s" % (layout, e[0], o[0])
    return "layout %s: no single bad item" % layout


def scenario_valid(layout, ops):
    """the preconditions of the property (fresh addresses, matching allocator kind): the shrinker must stay inside them"""
    sim = Sim()
    h = lambda x: int(x, 16)
    for o in ops:
        if o[0] == ":a" and h(o[1]) in sim.live:
            return False
        if o[0] == ":f" and o[1] != "~" and h(o[1]) in sim.live and sim.live[h(o[1])][4] != h(o[2]):
            return False
        if o[0] == ":rf" and o[1] != "~" and h(o[1]) in sim.live and sim.live[h(o[1])][4] != h(o[3]):
            return False
        if o[0] == ":r":
            if o[1] == "~":
                if h(o[2]) in sim.live:
                    return False
            elif h(o[1]) in sim.live:
                if sim.live[h(o[1])][4] != h(o[4]) or (h(o[2]) in sim.live and h(o[2]) != h(o[1])):
                    return False
        sim.step(o)
    return True


def shrink(s):
    for c in shrink_candidates(s):
        if scenario_valid(*split_ops(c)):
            yield c


def shrink_candidates(s):
    layout, ops = split_ops(s)
    n = len(ops)
    # cut the tail after the first bad item is not known here: try halves, then single ops
    step = n // 2
    while step >= 1:
        for i in range(0, n, step):
            c = ops[:i] + ops[i + step:]
            if c:
                yield join_ops(layout, c)
        step //= 2
    yield join_ops("1" if layout == "0" else "0", ops)
    # shorter file names / smaller blocks (keeps a truncated report truncated only if it has to be)
    for i, o in enumerate(ops):
        if o[0] == ":a" and (int(o[4], 16) >= 0x80 or int(o[2], 16) > 8):
            yield join_ops(layout, ops[:i] + [[o[0], o[1], tz(min(int(o[2], 16), 8)), o[3], tz(int(o[4], 16) & 3), o[5]]] + ops[i + 1:])


LEVEL_TEXT = ("Machine-checked (Coq) refinement of an executable model of the 73-bucket allocation table (head insertion, the prev/cur unlink and "
              "clear walks, cross-bucket getFirst/getNext iteration, stage release with the successor fetched before the release, demotion of "
              "checking blocks, period/stage stamping with the unsigned-char wrap) to a duplicate-free association list address -> record: "
              "invariants and refinement for every operation history by induction, exact removal, exact clear/stage release, complete and "
              "duplicate-free iteration, requests refused by the underlying allocator change nothing (a failed realloc puts the record back), "
              "report item (no-leaks answer, footer total, malloc note, entries) = outstanding set, and spec(run) = true. Tied to the code by a differential run of the extracted model against a private "
              "MemoryLeakDetector driven through an arena allocator that picks hash buckets, both bookkeeping layouts.")
LEVEL_NOTE = ("Trusted: Coq kernel, extraction, harness (report text parser, arena allocator), generator. Modelled not verified: the C++ itself. "
              "The bucket count is regenerated from the source on every run. Allocation numbers are unbounded in the model (unsigned in the code); "
              "reports cut short by the 4096-byte buffer must carry the exact total / no-leaks answer / malloc note and list distinct outstanding "
              "blocks (where the cut falls is C14); which allocator calls fail is scenario input, what a refused request returns or frees is C05; allocator "
              "kind mismatch and guard bytes are C06/C05; the global new/delete/malloc routing is exercised by C07/C10 harnesses, not here.")
TECHNIQUE = "Coq proof (refinement + invariants by induction over operation histories) over hand-written executable model + extracted-model/implementation differential check"
READY = True
