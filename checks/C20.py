"""C20 -- TeamCity output is a balanced, correctly escaped service-message stream.
Scenario:  [ :con <sink 0|1|2> <verbosity 0|1|2> ] [ :opt <run-ignored 0|1> <passes> ] [ :plug <mock 0|1> <leak 0|1> ] <dur> <nfilters> { <name> } <ntests> { <group> <name> <file> <line> <ignored> <nstmts> { <stmt> } }
           stmt = :f <file> <line> <msg> | :x <file> <line> <msg>            addFailure(FailFailure) and continue | fail() and leave the stage
                | :S <stage>       what follows belongs to 0 the pre-test action of the harness' own plugin, 1 setup, 2 the body (default), 3 teardown, 4 the post-test action
                | :sep <code>      the shell is run in a separate process whose child 1 exits with 0, 2 exits with 1, 3 is killed by a signal (fork / waitpid scripted)
                | :k <kind> <copies> <stop> <file> <line> <msg>   a failure object built by the constructor 2 (test, msg), 3 (test, file, line), 4 (test, file, line, msg),
                                   5 a derived class on the 3-argument one, 6 a derived class on the 2-argument one; copied <copies> times; addFailure / failWith (stop)
                | :e <std> <what>  throw std::runtime_error(what) (1) / throw 42 (0)
                | :m <name>        mock().expectOneCall(name), never fulfilled     | :u <name>  mock().actualCall(name) that nothing expects
                | :l <size>        a block on the leak plugin's detector, not released during the test
           :plug = the real MockSupportPlugin / MemoryLeakWarningPlugin installed after the harness' own plugin
           (sink = where the stream is observed: 0 a subclass overriding printBuffer (test double), 1 the PlatformSpecificFPuts /
           PlatformSpecificFlush seam under the real ConsoleTestOutput::printBuffer, 2 file descriptor 1 under the real platform
           functions; verbosity 0 quiet, 1 -v, 2 -vv; without the prefix 0 0;
           run-ignored = the registry-wide switch -ri (TestRegistry::setRunIgnored): ignored tests are run as normal tests;
           passes = number of runAllTests calls on the same registry and output (-r<n>); without the prefix: off, one pass;
           dur = milliseconds each running test takes on the scripted clock; filters = strict name filters (-sn), none = every test
           runs; :f = addFailure and continue, :x = fail() and leave the test; tests are registered in the order given; an ignored
           test has a body too: it is executed only under run-ignored)
           :raw <bytes>  -- parser differential only (no library code): the Coq parser's reading of the bytes is compared with
           the reading of the independent decoder below.
           :rawv <bytes> -- the same for the message-anywhere reading (very verbose streams).
Observation: <stream> <n> { <count> } <k> { <ordinal> } -- everything that reached the sink; then per pass, per registered test, how
           often the test's body was executed in that pass; then the ordinals (over the failures of the run) of the failures whose text the
           library composed itself (exception, mock, leak, separate process): `project` blanks their details values, the judges demand only
           that they carry the scenario's pieces (what(), the call names).
Judges: the extracted Coq `spec` (tc_parse + balance + faithfulness) and, independently, the Python decoder + property check here."""
import re
from vlib import tb

ID = "C20"
FLAVOURS = ["asan"]
HARNESS_SRCS = ["harness/C20.cpp"]
RULE = ("runs of 0-6 groups x 1-8 scripted tests (pass / fail once / fail several times / fail() then unreachable statements / ignored, "
        "a quarter of the runs with strict name filters: some tests / whole groups / everything filtered out, "
        "all-ignored groups, equal group names on non-adjacent tests, failures inside the test's file, in another file, above the "
        "test's line); runs with the registry-wide run-ignored switch on / off x 1-2 passes over 1-3 groups x 1-4 tests in which ignored "
        "tests pass / fail once / fail several times / fail() and stand first, last, alone, next to normal tests, in all-ignored groups, "
        "some with name filters (a fixed grid of the small patterns plus random ones); every text (group, test name, source path, failure path, message) drawn from printable ASCII + CR + LF "
        "weighted to ' | [ ] CR LF and to fragments such as |n |' '] ]\\n##teamcity[ ; empty texts and texts ending in | ; "
        "a few bytes >= 0x80 and control characters. A hand-written corpus puts each special character alone into each field. "
        ":raw cases = streams written by a Python writer and then mutated (deleted / inserted / replaced bytes) plus hand-written "
        "malformed messages, read by the Coq parser and by the independent decoder. "
        "non-trivial = some text contains a character with TeamCity meaning, or the run has a failure, an ignored test or more "
        "than one group (for :raw: always). "
        "Every run is observed at one of three sinks: a subclass that overrides printBuffer (the earlier test double), the PlatformSpecificFPuts / "
        "PlatformSpecificFlush seam under the REAL ConsoleTestOutput::printBuffer, or file descriptor 1 under the real platform functions; quiet, -v or -vv. "
        "Long values: few tests in which one or two of group name / test name / test's path / failure's path / failure message have 0..5000 characters "
        "(lengths at and next to the multiples of 64 / 128 / 256 / 512 / 1024, and 150..700), plain / every character needing escaping / characters needing "
        "escaping within 3 of every multiple of 64 of a randomly shifted offset; a fixed grid of every value position x lengths around which a message line "
        "crosses 256 / 512 / 1024 bytes; runs of 20-60 (thorough 200) tests and tests with 25 failures (many messages in a row); '%' and printf-like "
        "fragments in the texts. :rawv = mutated streams with text in front of messages, read message-anywhere by both decoders. "
        "Failures that do not come from check macros: a fixed grid (each pattern in a plainly named test and in one whose name and group need escaping) of "
        "every way to make a failure object - TestFailure(test, text), (test, file, line), (test, file, line, text), a derived class on the 3-argument and "
        "one on the 2-argument constructor - x 0 / 1 / 3 copies x addFailure / failWith x setup / body / teardown, and from the pre / post action of a plugin; "
        "std::exception / unknown exception in each stage, first and after another failure; setup left early (body skipped, teardown run); MockSupportPlugin with an "
        "unmet expectation alone / after a failure of the test (not reported) / after a failure reported by a plugin action (reported); an unexpected mock call first / "
        "after a failure (silent); MemoryLeakWarningPlugin with a leak alone / beside any other failure (not reported); a test run in a separate process whose child "
        "exits with 0 / with 1 / is killed by a signal; ignored tests with such stages with and without -ri, two passes, name filters; printf-like what() / call names; "
        "plus random runs of 1-3 groups x 1-3 tests with 1-5 stages of 1-3 such statements, plugins on in half of them.")
ASSUMPTIONS = ["tests of a run come from the registry in order; selection only by strict name filters (no group filters, no shuffling; repeat, run-ignored, "
               "separate process with scripted fork / waitpid are in the scenario); test bodies do not print "
               "(UT_PRINT text is copied raw into the stream and is outside the property)",
               "exceptions are not rethrown (no -e: with it the exception leaves runAllTests and the stream ends without finish messages by design); plugin actions do "
               "not throw; an expected mock call is never fulfilled and an actual call is never one that is expected (MockSupport's matching is C08's subject); the leak "
               "plugin watches a private detector and expects no leaks",
               "the text of a failure the library composes itself (unexpected exception, mock failure, leak report, separate process) is constrained only to carry the "
               "scenario's pieces (what(), the call names); its wording is not compared",
               "strings are C strings (no NUL); line numbers and the duration are size_t",
               "the clock seam is scripted (the duration value is not constrained by the property, only its quoting)",
               "a service message is recognised only at the start of a line (TeamCity documentation: one message per line); in a very verbose (-vv) "
               "run, whose progress texts do not end in a line break, wherever the marker first occurs in a line - it must still end the line",
               "standard output is what the library hands to PlatformSpecificFPuts for PlatformSpecificStdOut (sink 1) or what is in the file behind "
               "descriptor 1 after the output object is destroyed and stdio is flushed as exit() does (sink 2); flush points are not constrained"]
PER_TIMEOUT = 30.0
CRASH_IS_VIOLATION = True

SPECIAL = b"'|[]\r\n"
FRAGS = [b"|n", b"|r", b"|'", b"||", b"|[", b"|]", b"']", b"']\n", b"' x='", b"]\n##teamcity[", b"##teamcity[", b"\r\n", b"|0x00A7", b"|x",
         b"''", b"[]", b"][", b" ", b"  ", b"name='", b"|", b"\n\n", b"\r", b"='", b"(", b"):", b":", b"%", b"%s", b"%%", b"%d%n"]


def text(rng, maxlen=12, p_special=0.35):
    c = rng.random()
    if c < 0.08:
        return b""
    out = b""
    n = rng.randrange(1, maxlen + 1)
    while len(out) < n:
        c = rng.random()
        if c < p_special:
            out += bytes([rng.choice(SPECIAL)])
        elif c < p_special + 0.12:
            out += rng.choice(FRAGS)
        elif c < p_special + 0.15:
            out += bytes([rng.choice([1, 9, 0x1b, 0x7f, 0x80, 0xa7, 0xff, rng.randrange(1, 256)])])
        else:
            out += bytes([rng.randrange(0x20, 0x7f)])
    if rng.random() < 0.08:
        out += b"|"
    return out


def plain(rng, maxlen=8):
    return bytes(rng.choice(b"abcxyzGT_019.") for _ in range(rng.randrange(1, maxlen + 1)))


def ser_stmt(st):
    k = st[0]
    if k in ("f", "x"):
        return ":%s %s %x %s" % (k, tb(st[1]), st[2], tb(st[3]))
    if k == "k":
        return ":k %x %x %x %s %x %s" % (st[1], st[2], 1 if st[3] else 0, tb(st[4]), st[5], tb(st[6]))
    if k == "e":
        return ":e %x %s" % (1 if st[1] else 0, tb(st[2]))
    if k in ("m", "u"):
        return ":%s %s" % (k, tb(st[1]))
    return ":%s %x" % (k, st[1])          # l, S, sep


NTOK = {"f": 4, "x": 4, "k": 7, "e": 3, "m": 2, "u": 2, "l": 2, "S": 2, "sep": 2, "p": 2}


def ser(dur, tests, filters=(), opts=(False, 1), con=(0, 0), plug=(False, False)):
    ri, passes = opts
    out = ([] if tuple(con) == (0, 0) else [":con", "%x" % con[0], "%x" % con[1]])
    out += ([] if (not ri and passes == 1) else [":opt", "1" if ri else "0", "%x" % passes])
    out += ([] if not (plug[0] or plug[1]) else [":plug", "1" if plug[0] else "0", "1" if plug[1] else "0"])
    out += ["%x" % dur, "%x" % len(filters)] + [tb(f) for f in filters] + ["%x" % len(tests)]
    for (g, n, f, l, ign, body) in tests:
        out += [tb(g), tb(n), tb(f), "%x" % l, "1" if ign else "0", "%x" % len(body)] + [ser_stmt(s) for s in body]
    return " ".join(out)


def unb(tok):
    return bytes.fromhex(tok[1:])


def is_raw(s):
    return s.startswith(":raw")


def con_of(s):
    """(sink, verbosity) of a scenario line"""
    t = s.split(None, 3)
    return (int(t[1], 16), int(t[2], 16)) if t and t[0] == ":con" else (0, 0)


def with_con(s, con):
    """the same run observed at another sink / with another verbosity"""
    t = s.split()
    if t and t[0] == ":con":
        t = t[3:]
    return " ".join(([] if tuple(con) == (0, 0) else [":con", "%x" % con[0], "%x" % con[1]]) + t)


def opts_of(s):
    """(run-ignored, passes) of a scenario line"""
    t = s.split(None, 6)
    if t and t[0] == ":con":
        t = t[3:]
    return (t[1] != "0", int(t[2], 16)) if t and t[0] == ":opt" else (False, 1)


def plug_of(s):
    """(mock plugin, leak plugin) of a scenario line"""
    t = s.split(None, 9)
    if t and t[0] == ":con":
        t = t[3:]
    if t and t[0] == ":opt":
        t = t[3:]
    return (t[1] != "0", t[2] != "0") if t and t[0] == ":plug" else (False, False)


def parse_stmt(t, i):
    k = t[i][1:]
    if k in ("f", "x"):
        return (k, unb(t[i + 1]), int(t[i + 2], 16), unb(t[i + 3]))
    if k == "k":
        return ("k", int(t[i + 1], 16), int(t[i + 2], 16), t[i + 3] != "0", unb(t[i + 4]), int(t[i + 5], 16), unb(t[i + 6]))
    if k == "e":
        return ("e", t[i + 1] != "0", unb(t[i + 2]))
    if k in ("m", "u", "p"):
        return (k, unb(t[i + 1]))
    return (k, int(t[i + 1], 16))


def parse_scn(s):
    t = s.split()
    for pre in (":con", ":opt", ":plug"):
        if t and t[0] == pre:
            t = t[3:]
    dur = int(t[0], 16); nf = int(t[1], 16)
    filters = [unb(x) for x in t[2:2 + nf]]
    n = int(t[2 + nf], 16); i = 3 + nf
    tests = []
    for _ in range(n):
        g, nm, f, l, ign, m = unb(t[i]), unb(t[i + 1]), unb(t[i + 2]), int(t[i + 3], 16), t[i + 4] != "0", int(t[i + 5], 16)
        i += 6
        body = []
        for _ in range(m):
            st = parse_stmt(t, i)
            body.append(st); i += NTOK[st[0]]
        tests.append((g, nm, f, l, ign, body))
    return dur, filters, tests


# ---- what a test does (independent of the Coq model: written from the behaviour of UtestShell / Utest / the plugins)
def split_test(t):
    """-> (separate-process code, [pre, setup, body, teardown, post] statement lists)"""
    sep, cur, st = 0, 2, [[], [], [], [], []]
    for x in t[5]:
        if x[0] == "S":
            cur = x[1] if 0 <= x[1] <= 4 else 2
        elif x[0] == "sep":
            sep = x[1]
        else:
            st[cur].append(x)
    return sep, st


def fail_want(t, x):
    """(file, line, ('=', text)) demanded of the testFailed message of a scripted failure statement"""
    if x[0] in ("f", "x"):
        return (x[1], x[2], ("=", x[3]))
    kind, file, line, msg = x[1], x[4], x[5], x[6]
    if kind in (2, 6):
        return (t[2], t[3], ("=", msg))
    if kind == 3:
        return (file, line, ("=", b"no message"))
    return (file, line, ("=", msg))


def stage_want(t, failed, ss):
    """failures of one of setup / body / teardown -> (wants, expected calls left, leaked, ran to its end)"""
    ws, pending, leaked = [], [], False
    for x in ss:
        k = x[0]
        if k in ("f", "x", "k"):
            ws.append(fail_want(t, x)); failed = True
            if k == "x" or (k == "k" and x[3]):
                return ws, pending, leaked, False
        elif k == "e":
            ws.append((t[2], t[3], ("has", [x[2]] if x[1] else [])))
            return ws, pending, leaked, False
        elif k == "m":
            pending.append(x[1])
        elif k == "u":
            if not failed:
                ws.append((t[2], t[3], ("has", [x[1]])))
                return ws, pending, leaked, False
        elif k == "l":
            leaked = True
    return ws, pending, leaked, True


def test_want(t, plug):
    """(failures demanded of a test that is run, entries into its body)"""
    sep, st = split_test(t)
    if sep:
        return ([] if sep == 1 else [(t[2], t[3], ("has", []))]), 0
    lib = lambda l: (t[2], t[3], ("has", l))
    pre = [fail_want(t, x) for x in st[0] if x[0] in ("f", "x", "k")]
    su, p1, l1, c1 = stage_want(t, False, st[1])
    bo, p2, l2, c2 = stage_want(t, bool(su), st[2]) if c1 else ([], [], False, False)
    td, p3, l3, c3 = stage_want(t, bool(su or bo), st[3])
    po = [fail_want(t, x) for x in st[4] if x[0] in ("f", "x", "k")]
    pending = p1 + p2 + p3
    out = pre + su + bo + td + po
    if plug[0] and not (su or bo or td) and pending:
        out.append(lib(pending))
    if plug[1] and (l1 or l2 or l3) and not out:
        out.append(lib([]))
    return out, (1 if c1 else 0)


def want_text(w):
    return w[2][1] if w[2][0] == "=" else b" ".join(w[2][1])


def selected(filters, t):
    return not filters or t[1] in filters


LINES = [0, 1, 9, 10, 99, 100, 12345, 2147483647, 4294967296, 18446744073709551615]


def gen_tests(rng, special=True, big=False):
    tx = (lambda m=12: text(rng, m)) if special else (lambda m=12: plain(rng))
    ngroups = rng.choice([0, 1, 1, 2, 2, 3, 4, 5, 6] if not big else [7, 8, 9, 10])
    tests = []
    prev = None
    names = []
    for _ in range(ngroups):
        if names and rng.random() < 0.25:
            g = rng.choice(names)            # an earlier group name again (not adjacent unless it is the previous one)
        else:
            g = tx(8)
        if g == prev:
            g = g + b"x"
        prev = g
        names.append(g)
        tfile = tx(10)
        allign = rng.random() < 0.1
        for _ in range(rng.randrange(1, 9 if not big else 14) if rng.random() < 0.7 else 1):
            name = tx(10)
            if tests and rng.random() < 0.1:
                name = tests[-1][1]          # the same test name twice in a row
            f = tfile if rng.random() < 0.7 else tx(10)
            line = rng.choice(LINES + [rng.randrange(1, 100000)])
            if allign or rng.random() < 0.15:
                tests.append((g, name, f, line, True, [("f", f, 1, tx())] if rng.random() < 0.2 else []))
                continue
            body = []
            for _ in range(rng.choice([0, 0, 1, 1, 2, 3, 5])):
                c = rng.random()
                ff = f if rng.random() < 0.5 else tx(10)
                ll = rng.choice([0, 7, 10, line, line + 1 if line < LINES[-1] else line, max(0, line - 1), 4294967, 18446744073709551615, rng.randrange(1, 5000)])
                body.append(("f" if c < 0.7 else "x", ff, ll, tx(20)))
            tests.append((g, name, f, line, False, body))
    return tests


def gen_run(rng, special=True, big=False):
    dur = rng.choice([0, 0, 1, 5, 9, 10, 42, 1000, 123456789, 4294967295, 4294967296, rng.randrange(0, 1 << 40)])
    tests = gen_tests(rng, special, big)
    filters = []
    if tests and rng.random() < 0.25:
        names = sorted(set(t[1] for t in tests))
        c = rng.random()
        if c < 0.15:
            filters = [b"no such test"]                       # nothing runs: every suite is empty
        else:
            filters = rng.sample(names, rng.randrange(1, min(len(names), 4) + 1))
            if rng.random() < 0.2:
                filters.append(filters[0][:-1] if filters[0] else b"x")   # a filter that is only a prefix of a name (strict: no match)
            if rng.random() < 0.15:
                filters.append(filters[0])                   # the same filter twice
    return ser(dur, tests, filters)


BODIES = [[], [("f", None, 5, b"boom")], [("x", None, 6, b"stop"), ("f", None, 7, b"unreachable")],
          [("f", None, 5, b"one"), ("f", b"helper.cpp", 2, b"two")]]


def _mk(g, n, ign, body, line=10):
    return (g, n, b"a.cpp", line, ign, [(k, b"a.cpp" if f is None else f, l, m) for (k, f, l, m) in body])


def ri_grid():
    """the small patterns of ignored tests (I) and normal tests (N), passing / failing, in first position and later, alone and in
    several groups, each with run-ignored off / on and one / two passes"""
    I = lambda g, n, b=0: _mk(g, n, True, BODIES[b])
    N = lambda g, n, b=0: _mk(g, n, False, BODIES[b])
    pats = [[I(b"G", b"i")], [I(b"G", b"i", 1)], [I(b"G", b"i", 2)], [I(b"G", b"i", 3)],
            [I(b"G", b"i"), N(b"G", b"n")], [N(b"G", b"n"), I(b"G", b"i")], [N(b"G", b"n", 1), I(b"G", b"i", 1)],
            [I(b"G", b"i", 1), N(b"G", b"n", 1)], [N(b"G", b"n"), I(b"G", b"i", 1), N(b"G", b"m")],
            [I(b"G", b"i"), I(b"G", b"j", 1)], [I(b"G", b"i", 1), I(b"G", b"j")],
            [I(b"G", b"i")] + [N(b"H", b"n")], [N(b"G", b"n"), I(b"H", b"i", 1)], [I(b"G", b"i", 1), I(b"H", b"j", 2)],
            [N(b"G", b"n"), N(b"G", b"m", 1), I(b"H", b"i"), N(b"K", b"k"), I(b"K", b"j", 1)],
            [I(b"G", b"t"), N(b"G", b"t")], [N(b"", b"n"), I(b"", b""), I(b"G'", b"i]", 1)]]
    out = []
    for pat in pats:
        for opts in ((True, 1), (False, 1), (True, 2), (False, 2)):
            out.append(ser(3, pat, (), opts))
    out.append(ser(3, pats[8], [b"i"], (True, 1)))        # only the ignored test is selected
    out.append(ser(3, pats[8], [b"n", b"m"], (True, 2)))  # the ignored test is filtered out
    out.append(ser(3, pats[14], [b"i", b"k"], (True, 1)))
    out.append(ser(0, [], (), (True, 2)))
    out.append(ser(0, pats[0], (), (True, 0)))            # no pass at all
    return out


def gen_ri(rng, big=False):
    """random runs aimed at the run-ignored switch: many ignored tests with bodies"""
    tx = (lambda m=8: text(rng, m)) if rng.random() < 0.3 else (lambda m=8: plain(rng, 4))
    tests = []
    gnames = []
    for _ in range(rng.choice([1, 1, 2, 2, 3] if not big else [3, 4, 6])):
        g = tx()
        while g in gnames[-1:]:
            g += b"x"
        gnames.append(g)
        f = tx()
        allign = rng.random() < 0.2
        for _ in range(rng.choice([1, 1, 2, 2, 3, 4] if not big else [3, 5, 8])):
            line = rng.choice([1, 10, 100, rng.randrange(1, 5000)])
            body = []
            for _ in range(rng.choice([0, 0, 1, 1, 2, 3])):
                body.append(("f" if rng.random() < 0.7 else "x", f if rng.random() < 0.6 else tx(), rng.choice([0, line, line + 1, max(0, line - 1), rng.randrange(1, 5000)]), tx(12)))
            tests.append((g, tx(), f, line, allign or rng.random() < 0.55, body))
    filters = []
    if tests and rng.random() < 0.2:
        names = sorted(set(t[1] for t in tests))
        filters = rng.sample(names, rng.randrange(1, min(len(names), 3) + 1))
    opts = (rng.random() < 0.7, rng.choice([1, 1, 1, 2, 2, 3] if big else [1, 1, 2]))
    return ser(rng.choice([0, 1, 42]), tests, filters, opts)


LONG_LENS = [0, 1, 2, 31, 32, 33, 62, 63, 64, 65, 100, 126, 127, 128, 129, 150, 180, 190, 200, 210, 220, 224, 225, 226, 230, 240, 250, 254, 255, 256,
             257, 258, 300, 383, 384, 385, 500, 510, 511, 512, 513, 514, 600, 767, 768, 769, 1000, 1022, 1023, 1024, 1025, 1026, 1500, 2000, 2047,
             2048, 2049, 3000, 4000, 4095, 4096, 4097, 4999, 5000]
PLAIN = b"abcdefghijklmnopqrstuvwxyzABCXYZ0123456789_.:/ -#%"


def long_text(rng, n, style=None):
    """n characters. plain: none needs escaping; dense: every one does; edges: the characters within 3 of every multiple of 64 of
    (offset + shift) mostly need escaping (shift = length of whatever precedes the value in its line, unknown to the generator:
    random); mixed: a tenth need escaping anywhere"""
    style = style or rng.choice(["plain", "dense", "edges", "edges", "edges", "mixed", "mixed"])
    if style == "dense":
        return bytes(rng.choices(SPECIAL, k=n))
    out = bytearray(rng.choices(PLAIN, k=n))
    if style == "plain" or n == 0:
        return bytes(out)
    if style == "mixed":
        where = rng.sample(range(n), (n + 9) // 10)
    else:
        shift = rng.randrange(0, 64)
        where = [b + d for b in range(-shift, n + 3, 64) for d in (-3, -2, -1, 0, 1, 2) if 0 <= b + d < n and rng.random() < 0.75]
        where += rng.sample(range(n), n // 50)
    for i in where:
        out[i] = rng.choice(SPECIAL)
    return bytes(out)


def rand_con(rng, p_double=0.25, p_fd=0.3, p_v=0.1, p_vv=0.2):
    c = rng.random()
    sink = 0 if c < p_double else (2 if c < p_double + p_fd else 1)
    c = rng.random()
    return (sink, 2 if c < p_vv else (1 if c < p_vv + p_v else 0))


def long_len(rng, cap=5000):
    c = rng.random()
    n = rng.choice(LONG_LENS) if c < 0.55 else (rng.randrange(150, 700) if c < 0.85 else rng.randrange(0, 5001))
    return min(n, cap)


def gen_long(rng, big=False):
    """few tests; one or two of the values (group name, test name, test's file name, failure's file name, failure message) are long
    (0..5000 characters, lengths at and next to the multiples of 64 / 128 / 256 / 512 / 1024, characters needing escaping around the
    multiples of 64 of the line offset); observed mostly on the console path"""
    tests = []
    cap = 5000 if big else 2600
    ngroups = rng.choice([1, 1, 1, 2])
    which = rng.sample(["group", "name", "tfile", "ffile", "msg", "msg", "name"], rng.choice([1, 1, 2]))
    L = lambda k, short: long_text(rng, long_len(rng, cap)) if k in which and rng.random() < 0.8 else short
    for gi in range(ngroups):
        g = L("group", plain(rng, 4) + bytes([65 + gi]))
        for _ in range(rng.choice([1, 1, 2, 3])):
            name = L("name", plain(rng, 5))
            tfile = L("tfile", plain(rng, 5) + b".cpp")
            line = rng.choice([1, 10, 100, 4242])
            ign = rng.random() < 0.12
            body = []
            for _ in range(rng.choice([0, 1, 1, 1, 2, 3])):
                ff = tfile if rng.random() < 0.5 else L("ffile", plain(rng, 5) + b".h")
                body.append(("f" if rng.random() < 0.75 else "x", ff, rng.choice([0, line, line + 1, max(0, line - 1), 99999]), L("msg", text(rng, 20))))
            tests.append((g, name, tfile, line, ign, body))
    opts = (rng.random() < 0.15, rng.choice([1, 1, 1, 2]))
    return ser(rng.choice([0, 7, 123456789]), tests, (), opts, rand_con(rng, 0.1, 0.3, 0.1, 0.3))


def gen_many(rng, big=False):
    """many messages in a row: many tests with medium names, tests with many failures, several groups"""
    tests = []
    ntests = rng.choice([20, 40, 60] if not big else [100, 200])
    gsize = rng.choice([1, 5, 20, 1000])
    width = rng.choice([3, 20, 60, 120])
    for i in range(ntests):
        g = b"G%d" % (i // gsize)
        name = long_text(rng, rng.randrange(0, width + 1), "mixed") + b"%d" % i
        body = [("f", b"f.cpp", 7, long_text(rng, rng.randrange(0, width + 1), "edges")) for _ in range(rng.choice([0, 0, 0, 1, 2, 25] if i % 7 == 0 else [0, 0, 1]))]
        tests.append((g, name, b"f.cpp", 5, rng.random() < 0.1, body))
    return ser(rng.choice([0, 3]), tests, (), (False, rng.choice([1, 1, 2])), rand_con(rng, 0.1, 0.3, 0.1, 0.3))


def long_grid():
    """every value position x the lengths at which a line of the stream crosses 256 / 512 / 1024 bytes, plain and fully escaped, quiet and
    very verbose, on the platform seam and on file descriptor 1"""
    out = []
    for n in (100, 200, 221, 224, 225, 226, 229, 230, 256, 480, 481, 482, 512, 1000, 1024, 5000):
        for style in ("plain", "dense"):
            v = (b"a" if style == "plain" else b"'|[]\r\n") * n
            v = v[:n]
            for field in range(5):
                w = [b"G", b"t", b"a.cpp", b"b.h", b"msg"]
                w[field] = v
                tests = [(w[0], w[1], w[2], 10, False, [("f", w[3], 12, w[4]), ("f", w[2], 12, b"second")]), (w[0], b"u", w[2], 20, False, [])]
                out.append(ser(1, tests, (), (False, 1), ((1, 0), (2, 0), (1, 2), (1, 1), (2, 2))[(n + field) % 5]))
    return out


def corpus_like():
    """each special character / fragment alone in each field, one field at a time"""
    out = []
    chars = [b"'", b"|", b"[", b"]", b"\r", b"\n", b"|n", b"']", b"\r\n", b"##teamcity[", b" ", b"\x80", b"\x01", b""]
    for ch in chars:
        for field in range(7):
            for tail in (False, True):
                v = [b"G", b"t", b"a.cpp", b"b.cpp", b"msg", b"H", b"u"]
                v[field] = (b"a" + ch if tail else b"a" + ch + b"b") if ch else b""
                tests = [(v[0], v[1], v[2], 10, False, [("f", v[2], 12, v[4]), ("f", v[3], 12, v[4]), ("f", v[2], 3, b"helper")]),
                         (v[0], v[6], v[2], 20, True, []),
                         (v[5], v[1], v[2], 30, False, [("x", v[3], 31, v[4]), ("f", v[2], 40, b"unreachable")]),
                         (v[5], b"t4", v[2], 40, False, [])]
                out.append(ser(7, tests))
                out.append(ser(0, tests[:1]))
    return out


# ------------------------------------------------------------------ a writer used ONLY to produce realistic inputs for the parser differential
def _w_esc(b):
    out = b""
    for c in b:
        out += {39: b"|'", 124: b"||", 91: b"|[", 93: b"|]", 10: b"|n", 13: b"|r"}.get(c, bytes([c]))
    return out


def _w_stream(rng, tests):
    out = b""
    for t in tests:
        kind = rng.choice([b"testStarted", b"testFinished", b"testSuiteStarted", b"testFailed", b"testIgnored", b"x-9", b"a"])
        out += b"##teamcity[" + kind
        for k in range(rng.choice([0, 1, 1, 2, 3])):
            out += b" " * rng.choice([1, 1, 1, 2]) + rng.choice([b"name", b"message", b"details", b"duration", b"k%d" % k, b"a-b"]) + b"='" + _w_esc(t[rng.randrange(0, 3)] + (t[5][0][3] if t[5] else b"")) + b"'"
        out += rng.choice([b"", b"", b" "]) + b"]\n"
        if rng.random() < 0.15:
            out += rng.choice([b"plain text\n", b"\n", b"OK (1 tests)\n", b"# not a message\n", b"##teamcity\n", b"#teamcity[a]\n"])
    return out


MUT_BYTES = b"'|[]\r\n =#-nrx0aZ"
RAW_FIXED = [b"", b"\n", b"##teamcity[a]", b"##teamcity[a]\n", b"##teamcity[a]x\n", b" ##teamcity[a]\n", b"x##teamcity[a]\n", b"##teamcity[]\n", b"##teamcity[a \n",
             b"##teamcity[a b='c']\n", b"##teamcity[a b='c' ]\n", b"##teamcity[a  b='c']\n", b"##teamcity[a b='c'd='e']\n", b"##teamcity[a b='c' b='d']\n",
             b"##teamcity[a b ='c']\n", b"##teamcity[a b= 'c']\n", b"##teamcity[a b=c]\n", b"##teamcity[a b='c]\n", b"##teamcity[a b='|']\n", b"##teamcity[a b='||']\n",
             b"##teamcity[a b='|q']\n", b"##teamcity[a b='|x']\n", b"##teamcity[a b='|0x00A7']\n", b"##teamcity[a b='[']\n", b"##teamcity[a b=']']\n", b"##teamcity[a b='\r']\n",
             b"##teamcity[a b='c']\r\n", b"##teamcity[a 'v']\n", b"##teamcity[1a b='c']\n", b"##teamcity[a- b='c']\n", b"##teamcity[-a b='c']\n", b"##teamcity[a 1b='c']\n",
             b"##teamcity[a b-1='c']\n", b"##teamcity[a b='c']##teamcity[d]\n", b"##teamcity[a b='\n']\n", b"##teamcity[a b='|n|r|'|||[|]']\n", b"##teamcity[a b='\x00\xff']\n",
             b"text\n##teamcity[a]\ntext", b"##teamcity[a]\n\n\n##teamcity[b]", b"##teamcity[a b='']\n", b"##teamcity[a\tb='c']\n", b"##teamcity[a b=''']\n",
             b"##Teamcity[a]\n", b"##teamcity [a]\n", b"# #teamcity[a]\n", b"##teamcity[a]]\n", b"##teamcity[[a]\n", b"##teamcity[a] \n"]


PREFIXES = [b"-- after runAllPostTestAction: ", b"----------  before body: ", b"text ", b".", b"#", b"##teamcity", b"x##teamcity[a]", b"##teamcity[", b"' ", b"]"]
RAWV_FIXED = [b"x##teamcity[a]\n", b"x##teamcity[a]", b"-- t: ##teamcity[a b='c']\n", b"##teamcity[a]##teamcity[b]\n", b"x##teamcity[a]y\n", b"##teamcity##teamcity[a]\n",
              b"#\n##teamcity[a]\n", b"a##teamcity[b c='##teamcity|[']\n", b"a##teamcity[b c='##teamcity[']\n", b"\n-- x: \n-- y: ##teamcity[a]\n\n-- z: ", b"##teamcity[##teamcity[a]\n"]


def gen_raw(rng, anywhere=False):
    base = _w_stream(rng, gen_tests(rng) or [(b"g", b"n", b"f", 1, False, [])])
    if len(base) > 600:
        base = base[:base.rfind(b"\n", 0, 600) + 1]
    if anywhere:
        base = b"".join((rng.choice(PREFIXES) if l and rng.random() < 0.5 else b"") + l for l in base.splitlines(True))
    b = bytearray(base)
    for _ in range(rng.choice([0, 1, 1, 1, 2, 3])):
        if not b:
            break
        k = rng.randrange(len(b))
        op = rng.random()
        if op < 0.35:
            del b[k]
        elif op < 0.7:
            b.insert(k, rng.choice(MUT_BYTES))
        elif op < 0.9:
            b[k] = rng.choice(MUT_BYTES)
        else:
            j = rng.randrange(len(b))
            b[k], b[j] = b[j], b[k]
    return (":rawv " if anywhere else ":raw ") + tb(bytes(b))


# ------------------------------------------------------------------ failures that do not come from check macros
def K(kind, copies, stop, f, l, m):
    return ("k", kind, copies, bool(stop), f, l, m)


def x_grid():
    """the small patterns, each in a test whose name and group need escaping (so that a formatted name would differ from the bare one
    in more than the macro) and in a plainly named one: every constructor kind x copies x addFailure / failWith x setup / body /
    teardown; every kind from the plugin's pre / post action; std / unknown exception in each stage, before and after other failures;
    setup left early (body skipped, teardown still run); unmet expectation alone / after a failure of the test / after a failure of
    a plugin action; unexpected call first / after a failure; leak alone / with another failure / with the mock failure; the three
    separate-process endings; ignored tests with such stages with and without -ri; two passes; name filters"""
    out = []
    names = [(b"G", b"t"), (b"G|'x", b"t[1]'s\n")]
    cons = [(0, 0), (1, 0), (2, 0), (1, 2), (2, 2), (0, 1)]
    n = [0]
    def add(stmts, plug=(False, False), ign=False, opts=(False, 1), filters=(), extra=()):
        for g, nm in names:
            t = (g, nm, b"a.cpp", 10, ign, list(stmts))
            tests = [(g, b"before", b"a.cpp", 5, False, [])] + [t] + list(extra)
            out.append(ser(1, tests, list(filters), opts, cons[n[0] % len(cons)], plug))
            n[0] += 1
    for kind in (2, 3, 4, 5, 6):
        for copies in (0, 1, 3):
            for stop in (0, 1):
                for stage in (1, 2, 3):
                    add([("S", stage), K(kind, copies, stop, b"h.cpp", 3, b"m'1"), ("f", b"a.cpp", 12, b"after")])
        for stage in (0, 4):
            add([("S", stage), K(kind, 0, 0, b"h.cpp", 3, b"plug]in"), K(kind, 2, 0, b"a.cpp", 30, b"again")])
        add([("S", 0), K(kind, 1, 0, b"p.cpp", 1, b"pre"), ("S", 2), K(kind, 0, 0, b"b.cpp", 11, b"body"), ("S", 4), K(kind, 0, 0, b"q.cpp", 2, b"post")], (True, True))
    for std in (1, 0):
        for stage in (1, 2, 3):
            add([("S", stage), ("e", std, b"what's [up]|")])
            add([("S", stage), ("f", b"a.cpp", 12, b"first"), ("e", std, b"w\r\n"), ("f", b"a.cpp", 13, b"unreachable")], (True, True))
        add([("S", 1), ("e", std, b"s"), ("S", 2), ("f", b"a.cpp", 12, b"skipped body"), ("S", 3), ("e", 1 - std, b"t")])
        add([("S", 0), K(2, 0, 0, b"", 0, b"pre"), ("S", 2), ("e", std, b"b"), ("S", 4), K(2, 0, 0, b"", 0, b"post")], (True, True))
    add([("S", 1), ("x", b"a.cpp", 11, b"setup fails"), ("S", 2), ("e", 1, b"never"), ("S", 3), K(2, 0, 0, b"", 0, b"teardown runs")])
    for w in (b"%s", b"100%", b"%d%% of %s", b"%5$s|%x"):           # texts the library pastes into its own: never a format
        add([("e", 1, w)]); add([("S", 3), ("e", 1, w)], (True, True)); add([("m", b"f" + w)], (True, False)); add([("u", b"g" + w)], (True, False))
        add([("S", 4), K(2, 0, 0, b"", 0, w)]); add([K(6, 1, 1, b"", 0, w)])
    M = (True, False); L = (False, True); ML = (True, True)
    add([("m", b"foo")], M); add([("m", b"fo'o"), ("m", b"b[a]r")], ML); add([("S", 1), ("m", b"s"), ("S", 3), ("m", b"t")], M)
    add([("m", b"foo"), ("f", b"a.cpp", 12, b"failed")], M)                       # not reported: the test has failed
    add([("S", 0), K(2, 0, 0, b"", 0, b"pre"), ("S", 2), ("m", b"foo")], ML)      # reported: the plugin's failure does not count as the test's
    add([("m", b"foo"), ("S", 4), K(6, 0, 0, b"", 0, b"post")], M)
    add([("m", b"foo"), ("S", 3), ("e", 0, b"")], M)
    add([("u", b"bar")], M); add([("u", b"b|ar"), ("f", b"a.cpp", 12, b"unreachable")], ML); add([("f", b"a.cpp", 12, b"x"), ("u", b"bar"), ("f", b"a.cpp", 13, b"reached")], M)
    add([("S", 1), ("u", b"s"), ("S", 2), ("u", b"b"), ("S", 3), ("u", b"t")], M)
    add([("m", b"foo"), ("u", b"bar")], M)
    add([("l", 16)], L); add([("l", 1), ("l", 300)], ML); add([("S", 1), ("l", 8), ("S", 2), ("e", 1, b"x")], L); add([("l", 16), ("m", b"foo")], ML)
    add([("l", 16), ("S", 4), K(2, 0, 0, b"", 0, b"post")], L); add([("l", 16)], M); add([("S", 3), ("l", 4)], L)
    for code in (1, 2, 3):
        add([("sep", code)]); add([("sep", code), ("f", b"a.cpp", 12, b"in the child"), ("S", 0), K(2, 0, 0, b"", 0, b"child too")], ML)
    st = [("S", 0), K(2, 0, 0, b"", 0, b"pre"), ("S", 2), ("e", 1, b"w"), ("S", 3), K(6, 1, 0, b"", 0, b"td")]
    for opts in ((True, 1), (False, 1), (True, 2), (False, 2)):
        add(st, ML, True, opts); add(st, ML, False, opts); add([("sep", 2)], (False, False), True, opts)
    add(st, ML, False, (False, 1), [b"t", b"t[1]'s\n"]); add(st, ML, False, (False, 1), [b"before"])
    add(st, M, False, (False, 2), (), [(b"H", b"t", b"h.cpp", 1, False, [("e", 0, b"")]), (b"H", b"u'", b"h.cpp", 2, True, [("e", 0, b"")])])
    return out


def gen_x(rng, big=False):
    """random runs of tests with stages: failure objects of every constructor kind, exceptions, the own plugin's pre / post failures,
    unmet / unexpected mock calls, leaks, separate processes; half of the runs with names / paths / texts over the special alphabet"""
    special = rng.random() < 0.5
    tx = (lambda m=8: text(rng, m)) if special else (lambda m=8: plain(rng, 5))
    plug = (rng.random() < 0.55, rng.random() < 0.5)
    tests = []
    gnames = []
    for gi in range(rng.choice([1, 1, 2, 3] if not big else [3, 5])):
        g = tx()
        while g in gnames[-1:]:
            g += b"x"
        gnames.append(g)
        tfile = tx()
        for ti in range(rng.choice([1, 1, 2, 3] if not big else [2, 4, 6])):
            name = tx()
            line = rng.choice([1, 10, 100, rng.randrange(1, 5000)])
            ign = rng.random() < 0.15
            stmts = []
            c = rng.random()
            if c < 0.12:
                stmts.append(("sep", rng.choice([1, 2, 2, 3])))
            if c < 0.04 or c > 0.12:
                used = set()
                for stage in rng.sample(range(5), rng.choice([1, 1, 2, 2, 3, 5])):
                    ss = []
                    for _ in range(rng.choice([1, 1, 1, 2, 3])):
                        k = rng.random()
                        ff = tfile if rng.random() < 0.5 else tx()
                        ll = rng.choice([0, line, line + 1, max(0, line - 1), rng.randrange(1, 5000)])
                        if stage in (0, 4):
                            ss.append(K(rng.choice([2, 2, 3, 4, 5, 6]), rng.choice([0, 0, 1, 2, 5]), 0, ff, ll, tx(12)))
                        elif k < 0.30:
                            ss.append(K(rng.choice([2, 2, 3, 4, 5, 6, 6]), rng.choice([0, 0, 1, 2, 5]), rng.random() < 0.25, ff, ll, tx(12)))
                        elif k < 0.42:
                            ss.append((rng.choice(["f", "f", "x"]), ff, ll, tx(12)))
                        elif k < 0.65:
                            ss.append(("e", rng.random() < 0.6, tx(12)))
                        elif k < 0.80 and plug[0]:
                            nm = b"e" + tx(6)
                            if nm not in used:
                                used.add(nm); ss.append(("m", nm))
                        elif k < 0.88 and plug[0]:
                            nm = b"u" + tx(6)
                            if nm not in used:
                                used.add(nm); ss.append(("u", nm))
                        elif k < 0.97:
                            ss.append(("l", rng.choice([1, 8, 16, 100, 4096])))
                    if ss:
                        stmts += [("S", stage)] + ss
            tests.append((g, name, tfile, line, ign, stmts))
    filters = []
    if tests and rng.random() < 0.15:
        names = sorted(set(t[1] for t in tests))
        filters = rng.sample(names, rng.randrange(1, min(len(names), 3) + 1))
    opts = (rng.random() < 0.25, rng.choice([1, 1, 1, 2]))
    return ser(rng.choice([0, 3]), tests, filters, opts, rand_con(rng, 0.2, 0.3, 0.05, 0.25), plug)


CONS = [(0, 0), (1, 0), (2, 0), (1, 2), (1, 0), (2, 2), (1, 1), (0, 2), (1, 0), (2, 1)]


def generate(tier, rng):
    quick = tier == "quick"
    out = [with_con(x, CONS[k % len(CONS)]) for k, x in enumerate(corpus_like())]
    out += [":raw " + tb(x) for x in RAW_FIXED] + [":rawv " + tb(x) for x in RAW_FIXED + RAWV_FIXED]
    n = 400 if quick else 22000
    for k in range(n):
        out.append(with_con(gen_run(rng, special=(k % 10 != 0), big=(not quick and k % 50 == 0)), rand_con(rng)))
    for k in range(250 if quick else 12000):
        out.append(gen_raw(rng))
    for k in range(120 if quick else 4000):
        out.append(gen_raw(rng, anywhere=True))
    out += [with_con(x, CONS[(k + 3) % len(CONS)]) for k, x in enumerate(ri_grid())]
    for k in range(120 if quick else 5000):
        out.append(with_con(gen_ri(rng, big=(not quick and k % 40 == 0)), rand_con(rng)))
    out += long_grid()
    for k in range(170 if quick else 2500):
        out.append(gen_long(rng, big=(not quick and k % 4 == 0)))
    for k in range(12 if quick else 300):
        out.append(gen_many(rng, big=(not quick and k % 20 == 0)))
    out += x_grid()
    for k in range(350 if quick else 12000):
        out.append(gen_x(rng, big=(not quick and k % 25 == 0)))
    return out


def stmt_texts(st):
    """(paths, texts) of a statement"""
    k = st[0]
    if k in ("f", "x"):
        return [st[1]], [st[3]]
    if k == "k":
        return [st[4]], [st[6]]
    if k == "e":
        return [], [st[2]]
    if k in ("m", "u"):
        return [], [st[1]]
    return [], []


def _texts(s):
    dur, filters, tests = parse_scn(s)
    names = [x for t in tests for x in (t[0], t[1], t[2])] + [x for t in tests for st in t[5] for x in stmt_texts(st)[0]]
    msgs = [x for t in tests for st in t[5] for x in stmt_texts(st)[1]]
    return tests, names, msgs


def is_x(t):
    """the test uses something beyond addFailure(FailFailure) / fail() in its body"""
    return any(st[0] not in ("f", "x") for st in t[5])


def _has(bs, chars=SPECIAL):
    return any(c in chars for b in bs for c in b)


def nontrivial(s):
    if is_raw(s):
        return True
    tests, names, msgs = _texts(s)
    return (_has(names) or _has(msgs) or len(segments(tests)) > 1 or any(t[4] for t in tests) or any(t[5] for t in tests))


KIND_NAMES = {2: "TestFailure(test, text)", 3: "TestFailure(test, file, line)", 4: "TestFailure(test, file, line, text)",
              5: "derived class on the 3-argument constructor", 6: "derived class on the 2-argument constructor"}
STAGE_NAMES = ["plugin pre-action", "setup", "body", "teardown", "plugin post-action"]


def classify_x(s, tests, lab):
    """labels of the failures that do not come from check macros (only statements that are reached are labelled)"""
    ri = opts_of(s)[0]
    plug = plug_of(s)
    filters = parse_scn(s)[1]
    if plug[0]: lab.append("MockSupportPlugin installed")
    if plug[1]: lab.append("MemoryLeakWarningPlugin installed")
    for t in tests:
        if not is_x(t):
            continue
        lab.append("test with stages / plugins / exceptions / constructor kinds")
        runs = (not t[4] or ri) and selected(filters, t)
        if not runs:
            lab.append("such a test, not run (ignored / filtered out)")
            continue
        sep, st = split_test(t)
        special_name = _has([t[1]]) or _has([t[0]])
        if sep:
            lab.append("separate process: " + {1: "child exits with 0", 2: "child exits with 1", 3: "child killed by a signal"}.get(sep, "?"))
            if t[4]: lab.append("separate process: ignored test run under -ri")
            if special_name and sep > 1: lab.append("short constructor in a test whose name / group has a special character")
            continue
        failed = False          # UtestShell::hasFailed_
        setup_done = True
        for si in range(5):
            if si == 2 and not setup_done:
                lab.append("setup left early: body skipped")
                continue
            for x in st[si]:
                k = x[0]
                leaves = False
                if k in ("f", "x"):
                    if si != 2: lab.append("FailFailure / fail() in " + STAGE_NAMES[si])
                    leaves = k == "x" and si in (1, 2, 3)
                    failed = failed or si in (1, 2, 3)
                elif k == "k":
                    lab.append("constructor: " + KIND_NAMES.get(x[1], "?"))
                    lab.append("failure object in " + STAGE_NAMES[si])
                    if x[2]: lab.append("failure object copied (%s)" % ("once" if x[2] == 1 else "several times"))
                    if x[1] in (2, 6) and special_name: lab.append("short constructor in a test whose name / group has a special character")
                    if x[1] in (2, 6) and t[4]: lab.append("short constructor in an ignored test run under -ri")
                    if x[1] in (2, 6) and filters: lab.append("short constructor in a test selected by a name filter")
                    leaves = bool(x[3]) and si in (1, 2, 3)
                    if leaves: lab.append("failWith leaves the stage")
                    failed = failed or si in (1, 2, 3)
                elif k == "e" and si in (1, 2, 3):
                    lab.append("exception (%s) in %s" % ("std::exception" if x[1] else "unknown type", STAGE_NAMES[si]))
                    if special_name: lab.append("short constructor in a test whose name / group has a special character")
                    if t[4]: lab.append("short constructor in an ignored test run under -ri")
                    if filters: lab.append("short constructor in a test selected by a name filter")
                    if x[1] and _has([x[2]]): lab.append("what() with a special character")
                    leaves = True
                    failed = True
                elif k == "u" and si in (1, 2, 3):
                    lab.append("unexpected mock call " + ("ignored (test has failed)" if failed else "reported"))
                    if not failed:
                        leaves = True
                        failed = True
                if leaves:
                    if si == 1: setup_done = False
                    break
        ws, ex = test_want(t, plug)
        nlib = sum(1 for w in ws if w[2][0] == "has")
        if nlib: lab.append("failure whose text the library composes")
        su, p1, l1, c1 = stage_want(t, False, st[1])
        bo, p2, l2, c2 = stage_want(t, bool(su), st[2]) if c1 else ([], [], False, False)
        td, p3, l3, c3 = stage_want(t, bool(su or bo), st[3])
        own = [x for x in st[0] + st[4] if x[0] in ("f", "x", "k")]
        if p1 + p2 + p3:
            if not plug[0]: lab.append("mock expectation without the plugin")
            elif su or bo or td: lab.append("unmet mock expectation not reported (test has failed)")
            else:
                lab.append("unmet mock expectation reported by MockSupportPlugin")
                if own: lab.append("unmet mock expectation reported although a plugin action reported a failure")
        if l1 or l2 or l3:
            if not plug[1]: lab.append("leak without the plugin")
            elif len(ws) == 1 and ws[0][2] == ("has", []): lab.append("leak reported by MemoryLeakWarningPlugin")
            else: lab.append("leak not reported (another failure in the test)")
        if nlib and len(ws) - nlib: lab.append("library-made and scripted failures in one test")
    return lab


def _lines_of(s):
    """the service-message lines the run should produce (classification only; written with the Python writer of the parser differential)"""
    dur, filters, tests = parse_scn(s)
    ri, passes = opts_of(s)
    plug = plug_of(s)
    out = []
    for g in segments(tests):
        out.append(b"##teamcity[testSuiteStarted name='" + _w_esc(g[0][0]) + b"']")
        for t in g:
            if not selected(filters, t):
                continue
            out.append(b"##teamcity[testStarted name='" + _w_esc(t[1]) + b"']")
            if not t[4] or ri:
                for w in test_want(t, plug)[0]:
                    outside = w[0] != t[2] or w[1] < t[3]
                    out.append(b"##teamcity[testFailed name='" + _w_esc(t[1]) + b"' message='" + ((b"TEST failed (" + _w_esc(t[2]) + b":%d): " % t[3]) if outside else b"")
                               + _w_esc(w[0]) + b":%d' details='" % w[1] + _w_esc(want_text(w)) + b"']")
            out.append(b"##teamcity[testFinished name='" + _w_esc(t[1]) + b"' duration='%d']" % dur)
        out.append(b"##teamcity[testSuiteFinished name='" + _w_esc(g[0][0]) + b"']")
    return out


SINKS = ["printBuffer overridden (test double)", "platform seam (PlatformSpecificFPuts/Flush)", "file descriptor 1"]


def classify(s):
    if is_raw(s):
        anyw = s.startswith(":rawv")
        try:
            decode_stream(unb(s.split()[1]), anywhere=anyw)
            return ["raw stream%s: accepted by the independent decoder" % (" (message-anywhere reading)" if anyw else "")]
        except ValueError:
            return ["raw stream%s: rejected by the independent decoder" % (" (message-anywhere reading)" if anyw else "")]
    tests, names, msgs = _texts(s)
    segs = segments(tests)
    sink, verb = con_of(s)
    lab0 = ["sink=" + SINKS[min(sink, 2)], "verbosity=%d" % verb]
    lab = lab0
    longest = max([len(b) for b in names + msgs] + [0])
    lab.append("longest value: " + ("0-63" if longest < 64 else "64-255" if longest < 256 else "256-1023" if longest < 1024 else "1024-5000"))
    lines = _lines_of(s)
    ll = max([len(l) + 1 for l in lines] + [0])
    lab.append("longest message line: " + ("<=255 bytes" if ll <= 255 else "256-511" if ll < 512 else "512-1023" if ll < 1024 else "1024-4095" if ll < 4096 else ">=4096"))
    for step in (64, 256, 1024):
        if any(124 in l[k - 2:k + 2] for l in lines for k in range(step, len(l) + 1, step)):
            lab.append("escape pair within 2 bytes of a multiple of %d of the line offset" % step)
    if any(len(l) + 1 in (255, 256, 257, 511, 512, 513, 1023, 1024, 1025) for l in lines):
        lab.append("message line of exactly 255-257 / 511-513 / 1023-1025 bytes")
    nmsg = len(lines) * opts_of(s)[1]
    lab.append("messages in the run: " + ("0-9" if nmsg < 10 else "10-49" if nmsg < 50 else "50-199" if nmsg < 200 else "200+"))
    lab += ["groups=%d" % min(6, len(segs)), "tests=%s" % ("0" if not tests else "1" if len(tests) == 1 else "2-5" if len(tests) <= 5 else "6-15" if len(tests) <= 15 else "16+")]
    if any(t[4] for t in tests): lab.append("ignored test")
    if any(all(t[4] for t in g) for g in segs): lab.append("all-ignored group")
    if any(t[4] and test_want(t, plug_of(s))[0] for t in tests): lab.append("ignored test with a body that would fail")
    ri0 = opts_of(s)[0]
    plug0 = plug_of(s)
    runs = lambda t: not t[4] or ri0
    W = {id(t): test_want(t, plug0)[0] for t in tests}
    nf = [len(W[id(t)]) for t in tests if runs(t)]
    if any(x == 1 for x in nf): lab.append("test failing once")
    if any(x > 1 for x in nf): lab.append("test failing several times")
    if any(st[0] == "x" for t in tests for st in t[5]): lab.append("fail() terminates test")
    if any(w[0] != t[2] for t in tests if runs(t) for w in W[id(t)]): lab.append("failure outside the test's file")
    if any(w[0] == t[2] and w[1] < t[3] for t in tests if runs(t) for w in W[id(t)]): lab.append("failure above the test's line (helper)")
    if _has(names): lab.append("special char in a name/path")
    if _has(msgs): lab.append("special char in a message")
    if _has([t[2] for t in tests if runs(t) and any(w[0] != t[2] or w[1] < t[3] for w in W[id(t)])]): lab.append("special char in the test path of an outside failure")
    classify_x(s, tests, lab)
    if any(b.endswith(b"|") for b in names + msgs): lab.append("text ending in |")
    if any(t[0] == b"" for t in tests): lab.append("empty group name")
    if any(t[1] == b"" for t in tests): lab.append("empty test name")
    gn = [g[0][0] for g in segs]
    if len(set(gn)) < len(gn): lab.append("group name repeated non-adjacently")
    if any(c >= 0x80 or c < 0x20 and c not in (10, 13) for b in names + msgs for c in b): lab.append("byte outside printable ASCII")
    ri, passes = opts_of(s)
    lab.append("run-ignored on" if ri else "run-ignored off")
    lab.append("passes=%d" % passes)
    if ri:
        ig = [t for t in tests if t[4]]
        if ig: lab.append("run-ignored: ignored test is run")
        if any(not W[id(t)] for t in ig): lab.append("run-ignored: ignored test passes")
        if any(W[id(t)] for t in ig): lab.append("run-ignored: ignored test fails")
        if tests and tests[0][4]: lab.append("run-ignored: ignored test in first position")
        if any(t[4] for t in tests[1:]): lab.append("run-ignored: ignored test in a later position")
        if ig and any(not t[4] for t in tests): lab.append("run-ignored: ignored and normal tests mixed")
    filters = parse_scn(s)[1]
    if filters:
        lab.append("name filters")
        if any(not any(selected(filters, t) for t in g) for g in segs): lab.append("group with no selected test (empty suite)")
        if any(selected(filters, t) for t in tests) and not all(selected(filters, t) for t in tests): lab.append("some tests filtered out")
    return list(dict.fromkeys(lab))


# ------------------------------------------------------------------ independent judge: a decoder written from the TeamCity documentation
# "##teamcity[messageName name1='value1' name2='value2']": one message per line; names are identifiers; in values | escapes
# ' | [ ] and |n |r are LF CR.  Whole-message regular expression (a different technique from the Coq state machine).
IDENT = rb"[A-Za-z][A-Za-z0-9-]*"
VALUE = rb"(?:[^'|\[\]\r\n]|\|['|\[\]nr])*"
MESSAGE = re.compile(rb"(" + IDENT + rb")((?: +" + IDENT + rb"='" + VALUE + rb"')*) *\]", re.S)
ATTR = re.compile(rb" +(" + IDENT + rb")='(" + VALUE + rb")'", re.S)
UNESC = {b"|'": b"'", b"||": b"|", b"|[": b"[", b"|]": b"]", b"|n": b"\n", b"|r": b"\r"}


def decode_stream(data, anywhere=False):
    """-> [(name, [(key, value)])]; raises ValueError when the stream is not a sequence of well-formed messages and plain lines.
    anywhere (very verbose streams): a message is recognised wherever the marker first occurs in a line (text may precede it); it
    must still end the line"""
    msgs = []
    for line in data.split(b"\n"):
        pos = line.find(b"##teamcity[")
        if pos < 0:
            continue
        if pos != 0 and not anywhere:
            raise ValueError("marker in the middle of a line")
        m = MESSAGE.fullmatch(line[pos + 11:])
        if not m:
            raise ValueError("malformed message: %r" % line[:80])
        attrs = [(a.group(1), re.sub(rb"\|.", lambda x: UNESC[x.group(0)], a.group(2), flags=re.S)) for a in ATTR.finditer(m.group(2))]
        if len(set(k for k, _ in attrs)) != len(attrs):
            raise ValueError("duplicate attribute")
        msgs.append((m.group(1), attrs))
    return msgs


def segments(tests):
    segs = []
    for t in tests:
        if segs and segs[-1][0][0] == t[0]:
            segs[-1].append(t)
        else:
            segs.append([t])
    return segs


def judge(s, obs):
    """None or text of what is wrong with the observation of this run; an observation that cannot even be read is wrong"""
    try:
        return judge_obs(s, obs)
    except (IndexError, ValueError, KeyError):
        return "observation cannot be read"


def judge_obs(s, obs):
    """None or text of what is wrong with the observation of this run (the property, stated over the decoded messages and the
    observed executions of test bodies)"""
    dur, filters, tests = parse_scn(s)
    ri, passes = opts_of(s)
    ot = obs.split()
    try:
        msgs = decode_stream(unb(ot[0]), anywhere=(con_of(s)[1] == 2))
    except ValueError as e:
        return "stream does not decode (%s)" % str(e)[:60]
    plug = plug_of(s)
    try:
        ne = int(ot[1], 16)
        execs = [int(x, 16) for x in ot[2:2 + ne]]
        if len(execs) != ne:
            raise ValueError
    except (ValueError, IndexError):
        return "observation without execution counts"
    msgs = [(n, dict(a)) for n, a in msgs]
    # balance, from the messages alone
    suite = test = None
    for n, a in msgs:
        nm = a.get(b"name")
        if nm is None:
            return "message without name"
        if n == b"testSuiteStarted":
            if suite is not None or test is not None: return "suite started inside an open suite/test"
            suite = nm
        elif n == b"testSuiteFinished":
            if suite is None or test is not None or suite != nm: return "suite finish does not match the open suite"
            suite = None
        elif n == b"testStarted":
            if suite is None or test is not None: return "test started outside a suite or inside a test"
            test = nm
        elif n == b"testFinished":
            if test != nm or test is None: return "test finish does not match the open test"
            test = None
        elif n in (b"testIgnored", b"testFailed"):
            if test != nm or test is None: return "%s does not name the open test" % n.decode()
        else:
            return "unexpected message kind"
    if suite is not None or test is not None:
        return "suite or test left open at the end"
    # the ignored flag against the executions: walk the test brackets in order (one per selected test per pass)
    slots = [(p, i) for p in range(passes) for i, t in enumerate(tests) if selected(filters, t)]
    if len(execs) != passes * len(tests):
        return "number of execution counts differs from passes x tests"
    brackets = []
    for n, a in msgs:
        if n == b"testStarted":
            brackets.append([False, 0])
        elif n == b"testIgnored":
            brackets[-1][0] = True
        elif n == b"testFailed":
            brackets[-1][1] += 1
    if len(brackets) == len(slots):
        for (p, i), (flagged, nfail) in zip(slots, brackets):
            ran = execs[p * len(tests) + i]
            not_run = tests[i][4] and not ri
            if flagged and ran:
                return "test flagged testIgnored although its body was executed"
            if flagged and nfail:
                return "test flagged testIgnored has a testFailed message"
            if flagged and not not_run:
                return "test flagged testIgnored although it is run"
            if not flagged and not_run:
                return "ignored test that is not run lacks the testIgnored flag"
            want_exec = test_want(tests[i], plug)[1]
            if not flagged and ran != want_exec:
                return "body of a test that is not flagged was executed %d times (the test demands %d)" % (ran, want_exec)
    for p in range(passes):
        for i, t in enumerate(tests):
            if not selected(filters, t) and execs[p * len(tests) + i]:
                return "body of a test that is not selected was executed"
    # faithfulness against the scenario
    exp = []
    for _ in range(passes):
        for g in segments(tests):
            exp.append((b"testSuiteStarted", g[0][0], None, None))
            for t in g:
                if not selected(filters, t):
                    continue
                exp.append((b"testStarted", t[1], None, None))
                if t[4] and not ri:
                    exp.append((b"testIgnored", t[1], None, None))
                else:
                    for w in test_want(t, plug)[0]:
                        exp.append((b"testFailed", t[1], t, w))
                exp.append((b"testFinished", t[1], None, None))
            exp.append((b"testSuiteFinished", g[0][0], None, None))
    if [n for n, a in msgs] == [e[0] for e in exp]:
        # same kinds in the same order: say which name is wrong (a testFailed with a foreign name is caught by the balance above)
        for (n, a), e in zip(msgs, exp):
            if a[b"name"] != e[1]:
                return "%s names another text than the test / group of the run" % n.decode()
    if [(n, a[b"name"]) for n, a in msgs] != [(e[0], e[1]) for e in exp]:
        return "message sequence / names differ from the run"
    for (n, a), e in zip(msgs, exp):
        if e[3] is not None:
            t, w = e[2], e[3]
            det = a.get(b"details")
            if det is None:
                return "testFailed without details"
            if w[2][0] == "=" and det != w[2][1]:
                return "details value is not the failure text"
            if w[2][0] == "has" and not all(x in det for x in w[2][1]):
                return "details value of a library-made failure lacks the scenario's text (what() / call name)"
            loc = a.get(b"message")
            if loc is None or not loc.endswith(w[0] + b":" + str(w[1]).encode()):
                return "message value does not end with the failure location"
            if (w[0] != t[2] or w[1] < t[3]) and (t[2] + b":" + str(t[3]).encode()) not in loc:
                return "message value lacks the test location"
    return None


def extra_oracle(s, obs, flavour):
    if is_raw(s):
        return None
    w = judge(s, obs)
    return ("independent judge (Python decoder): " + w) if w else None


def project(obs, flavour):
    """only what the property constrains exactly: the decoded message list (kinds, and the name / details values whatever the
    attribute order) and the execution counts of the test bodies.  The wording of the location value (message=...) is constrained only through spec / the judge (it must end with
    the failure's file:line and carry the test's file:line for outside failures); duration, other attributes and text outside
    messages are dropped."""
    t = obs.split()
    try:
        if t and t[0] == ":parsed":
            if t[1] == "0":
                return "RAW REJECT"
            i = 3; out = []
            for _ in range(int(t[2], 16)):
                nm = unb(t[i]); k = int(t[i + 1], 16); i += 2
                out.append((nm, [(unb(t[i + 2 * j]), unb(t[i + 2 * j + 1])) for j in range(k)])); i += 2 * k
            return "RAW " + repr(out)
        if t and t[0] in (":raw", ":rawv"):
            try:
                return "RAW " + repr(decode_stream(unb(t[1]), anywhere=(t[0] == ":rawv")))
            except ValueError:
                return "RAW REJECT"
        try:
            msgs = decode_stream(unb(t[0]))
        except ValueError:
            msgs = decode_stream(unb(t[0]), anywhere=True)      # a very verbose stream (the judges know the verbosity; here only the messages are compared)
        ne = int(t[1], 16)
        execs, rest = t[2:2 + ne], t[2 + ne:]
        marks = set(int(x, 16) for x in rest[1:]) if rest else set()     # failures whose text the library composed: wording not compared
        out, k = [], 0
        for n, a in msgs:
            keep = sorted((key, v) for key, v in a if key in (b"name", b"details"))
            if n == b"testFailed":
                if k in marks:
                    keep = [(key, b"*" if key == b"details" else v) for key, v in keep]
                k += 1
            out.append((n, keep))
        return repr(out) + " executed=" + " ".join(execs) + " library-made=" + " ".join("%x" % m for m in sorted(marks))
    except ValueError:
        return "REJECT"
    except Exception:
        return obs


def signature(s, obs):
    if obs.startswith("!"):
        return "crash " + obs[:60]
    if is_raw(s):
        return "raw"
    w = judge(s, obs) or "coq spec only"
    w = re.sub(r"\(.*\)", "", w).strip()
    tests, names, msgs = _texts(s)
    where = []
    if _has(names): where.append("name/path")
    if any(t[0] == b"" for t in tests): where.append("empty group")
    if opts_of(s)[0]: where.append("run-ignored")
    if any(is_x(t) for t in tests): where.append("stages/plugins/constructors")
    sink, verb = con_of(s)
    if sink and max([len(l) + 1 for l in _lines_of(s)] + [0]) > 255: where.append("console path, long line")
    return "%s [%s]" % (w, ",".join(where) or "-")


def shrink(s):
    if is_raw(s):
        return
    dur, filters, tests = parse_scn(s)
    ri, passes = opts_of(s)
    con = con_of(s)
    plug = plug_of(s)
    S = lambda d, ts, fs=(): ser(d, ts, fs, (ri, passes), con, plug)
    if con[1]:
        yield ser(dur, tests, filters, (ri, passes), (con[0], 0), plug)
    if con[0] == 2:
        yield ser(dur, tests, filters, (ri, passes), (1, con[1]), plug)
    if con[0]:
        yield ser(dur, tests, filters, (ri, passes), (0, con[1]), plug)     # still failing below the test double: the writer itself is at fault
    if passes > 1:
        yield ser(dur, tests, filters, (ri, 1), con, plug)
    if ri:
        yield ser(dur, tests, filters, (False, passes), con, plug)
    if plug[0] and plug[1]:
        yield ser(dur, tests, filters, (ri, passes), con, (True, False))
        yield ser(dur, tests, filters, (ri, passes), con, (False, True))
    if plug[1] and not plug[0]:
        yield ser(dur, tests, filters, (ri, passes), con, (False, False))
    if plug[0] and not any(st[0] in ("m", "u") for t in tests for st in t[5]):
        yield ser(dur, tests, filters, (ri, passes), con, (False, plug[1]))
    if dur:
        yield S(0, tests, filters)
    if filters:
        yield S(dur, tests, [])
        for i in range(len(filters)):
            if len(filters) > 1:
                yield S(dur, tests, filters[:i] + filters[i + 1:])
    for i in range(len(tests)):
        if len(tests) > 1:
            yield S(dur, tests[:i] + tests[i + 1:], filters)
    W = lambda i, t2: S(dur, tests[:i] + [t2] + tests[i + 1:], filters)
    for i, t in enumerate(tests):
        g, n, f, l, ign, body = t
        for j in range(len(body)):
            if body[j][0] == "S" and j + 1 < len(body) and body[j + 1][0] != "S":
                # dropping the marker alone moves its statements to the stage before: only into setup / body / teardown
                before = [x[1] for x in body[:j] if x[0] == "S"]
                if (before[-1] if before else 2) not in (1, 2, 3):
                    continue
            yield W(i, (g, n, f, l, ign, body[:j] + body[j + 1:]))
        for j in range(len(body) - 1):
            if body[j][0] == "S" and (j + 2 >= len(body) or body[j + 2][0] == "S"):
                yield W(i, (g, n, f, l, ign, body[:j] + body[j + 2:]))       # the marker together with its only statement
        for j, st in enumerate(body):
            if st[0] == "k":
                if st[2]:
                    yield W(i, (g, n, f, l, ign, body[:j] + [("k", st[1], 0) + st[3:]] + body[j + 1:]))
                if st[3]:
                    yield W(i, (g, n, f, l, ign, body[:j] + [st[:3] + (False,) + st[4:]] + body[j + 1:]))
    def shorter(b):
        if len(b) > 1:
            yield b[:len(b) // 2]
            yield b[len(b) // 2:]
        if len(b) > 24:
            # a long value: simplest content first, then cut geometrically smaller pieces off either end (finds the length at
            # which the failure appears in a logarithmic number of steps)
            if b != b"a" * len(b):
                yield b"a" * len(b)
            k = len(b) // 4
            while k >= 1:
                yield b[:len(b) - k]
                yield b[k:]
                k //= 2
        elif len(b) > 0:
            for k in range(len(b)):
                yield b[:k] + b[k + 1:]
    for i, x in enumerate(filters):
        for c in shorter(x):
            if all(t[1] != x for t in tests):          # a filter that selects nothing may become any other text that selects nothing
                if all(t[1] != c for t in tests):
                    yield S(dur, tests, filters[:i] + [c] + filters[i + 1:])
    # positions of the path / line / text inside a statement, by kind
    PATH = {"f": 1, "x": 1, "k": 4}
    LINE = {"f": 2, "x": 2, "k": 5}
    TEXT = {"f": 3, "x": 3, "k": 6, "e": 2, "m": 1, "u": 1}
    def put(st, pos, v):
        return st[:pos] + (v,) + st[pos + 1:]
    for i, t in enumerate(tests):
        g, n, f, l, ign, body = t
        for fld in range(3):
            for c in shorter(t[fld]):
                if fld == 0:
                    # keep the group structure: rename every test of this group name
                    yield S(dur, [((c,) + x[1:]) if x[0] == g else x for x in tests], filters)
                else:
                    tt = list(t); tt[fld] = c
                    if fld == 1 and n in filters:
                        # keep the test selected: shorten the filter too
                        yield S(dur, tests[:i] + [tuple(tt)] + tests[i + 1:], [c if x == n else x for x in filters])
                    if fld == 2 and any(st[0] in PATH and st[PATH[st[0]]] == f for st in body):
                        # keep "failure in the test's own file": shorten the path in the statements too
                        tt[5] = [put(st, PATH[st[0]], c) if st[0] in PATH and st[PATH[st[0]]] == f else st for st in body]
                        yield S(dur, tests[:i] + [tuple(tt)] + tests[i + 1:], filters)
                        tt = list(t); tt[fld] = c
                    yield S(dur, tests[:i] + [tuple(tt)] + tests[i + 1:], filters)
        if l > 1:
            if any(st[0] in LINE and st[LINE[st[0]]] < l for st in body):
                # keep "failure above the test's line": those failures move to line 0
                yield W(i, (g, n, f, 1, ign, [put(st, LINE[st[0]], 0) if st[0] in LINE and st[LINE[st[0]]] < l else st for st in body]))
            yield W(i, (g, n, f, 1, ign, body))
        for j, st in enumerate(body):
            for pos in [d[st[0]] for d in (PATH, TEXT) if st[0] in d]:
                for c in shorter(st[pos]):
                    if st[0] in ("m", "u") and any(o[0] in ("m", "u") and o is not st and o[1] == c for o in body):
                        continue                # call names stay distinct
                    yield W(i, (g, n, f, l, ign, body[:j] + [put(st, pos, c)] + body[j + 1:]))
            if st[0] in LINE and st[LINE[st[0]]] > 1:
                yield W(i, (g, n, f, l, ign, body[:j] + [put(st, LINE[st[0]], 1)] + body[j + 1:]))
            if st[0] == "l" and st[1] > 1:
                yield W(i, (g, n, f, l, ign, body[:j] + [("l", 1)] + body[j + 1:]))


LEVEL_TEXT = ("Machine-checked (Coq) theorems over an executable model of TeamCityTestOutput (currtest_, currGroup_, groupOpen_, printEscaped, the pieces "
              "of printFailure) driven by the callback order of TestRegistry::runAllTests: decoding printEscaped's output by the TeamCity rules returns the "
              "original text and the escaped text has no unescaped ' [ ] CR LF, for all byte strings; a service-message parser written in Coq (strict: raw "
              "special characters, unknown escapes, duplicate attributes, text after ], marker inside a line are rejected) run on the stream of any run - any "
              "groups / pass / fail / ignore pattern, with and without the registry-wide run-ignored switch, any number of passes, any byte strings as names, "
              "paths and messages, followed by any summary text - returns exactly "
              "messages_of(run); messages_of is balanced (suite and test brackets paired by name, ignored / failed messages name the open test) and faithful "
              "(testIgnored iff the test is ignored and not run, a flagged test's body not executed and without testFailed, every other selected test's body "
              "executed once, one testFailed per failure in order with text and locations decoded to the originals); the run options are applied to a shell "
              "before anything is reported about it, so under run-ignored the observation equals that of the registry with the ignored markers removed; "
              "the two pre-repair behaviours (D15) are refuted. The stream is modelled as the pieces handed to printBuffer (one per literal / number, one per "
              "character of an escaped value) sent through ConsoleTestOutput::printBuffer (a write and a flush per piece): what reaches standard output is the "
              "concatenation of the pieces, ANY chunking / buffering that preserves that concatenation gives the same observation (flush points free), a line "
              "buffer of any capacity that keeps every character does, the one that forgets the character which finds the buffer full (255 usable bytes) is "
              "refuted with a 230-character test name; -v adds nothing, the -vv progress texts add only text (read message-anywhere the stream gives the "
              "same messages; the message-anywhere reading agrees with the strict one wherever the strict one accepts). "
              "FAILURES NOT PRODUCED BY CHECK MACROS: the failure object is modelled with its seven members and four public constructors (plus derived classes "
              "on the short ones, any number of copies): whatever constructor built it, the object names the test by its bare name and carries the test's place, "
              "printFailure prints what it reads of the object, so every testFailed message names the open test; a model of the runner's stages (plugin pre-actions, "
              "setup, body unless setup was left early, teardown, plugin post-actions, MockSupportPlugin unless the test has failed, the leak plugin unless anything "
              "was reported; exceptions; a test run in a separate process) produces, for every test, exactly the failures a declarative reading of the scenario "
              "demands, in order; the stream of every run of the extended scenario language parses back to balanced, faithful messages (C20_run_meets_spec); the "
              "two-argument constructor storing the formatted name (red-team change C20-1 of round 5) is refuted by a test whose body throws and is "
              "indistinguishable on runs failing through the long constructors; every scenario of the earlier language, embedded, is the same run. "
              "Tied to the code by a differential run of the extracted model against a real TeamCityTestOutput - observed below a printBuffer override, at the "
              "PlatformSpecificFPuts / PlatformSpecificFlush seam under the real console path, and on a redirected file descriptor 1 - driven by a real "
              "TestRegistry::runAllTests over scripted UtestShell / IgnoredUtestShell shells that count the executions of their bodies, whose setup / body / teardown "
              "build failure objects through every public constructor, throw, use mock() and leak, with the harness' own plugin, the real MockSupportPlugin and a real "
              "MemoryLeakWarningPlugin installed and the library's separate-process path run over scripted fork / waitpid seams, "
              "judged by the extracted spec and independently by a regular-expression decoder written from the TeamCity documentation; the two decoders are "
              "also compared on mutated streams.")
LEVEL_NOTE = ("Trusted: Coq kernel, extraction, harness, generators, the Python decoder. Modelled not verified: the C++ itself; StringFrom(size_t) is "
              "modelled as decimal digits; the clock is scripted by the harness; fputs / fflush / the kernel below file descriptor 1 are exercised, not modelled; "
              "the wording and places of the -vv progress texts are mirrored for the build with exceptions but not judged (text outside messages is dropped "
              "from the comparison). Not covered: text printed by test bodies (copied raw into the stream), the summary / 'Test run i of n' text, the "
              "TeamCity escapes |x |l |p |0xNNNN and the single-value message form (never written; both decoders reject them), group / non-strict filters, "
              "shuffling, reversing, a real child process under -p, -e (rethrown exceptions end the stream by design), throwing plugin actions, fulfilled mock "
              "expectations, the C-interface failures of the longjmp build, other TestOutput classes. The TestFailure constructors are modelled and observed, not "
              "translated from source; the wording of library-made failure texts is not compared.")
TECHNIQUE = "Coq proof over hand-written executable model (writer + service-message parser round trip) + extracted-model/implementation correspondence check with an independent decoder as second judge"
READY = True
