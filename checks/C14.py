"""C14 -- diagnostics are safe to build, bounded, and say what happened.
Two scenario families.
  :buf <plen> <nops> op*      a private MemoryLeakDetector driven through a history; plen = length of "%p" (harness arena: a)
      op ::= :clr                                                   startChecking (clears the text buffer)
           | :mis <kind> <afl> <aline> <asize> <anl> <ffl> <fline> <fnl>   misuse report: kind 0 non-allocated, 1 type mismatch, 2 corruption;
                                                                    file name lengths, line numbers, size, allocator name lengths
           | :rep <ngroups> (<count> <size> <flen> <line> <anl> <malloc?>)*  report() over count identical leaks per group
      observation per op:  c|m <strnlen> <canary> <filled> <limit>   |   r <strnlen> <canary> <total|~> <notice> <complete entries> <filled> <limit>
  :fail <kind> operands... <text>   one *Failure constructor
      :ce :se :sn :eq :co <expected|~> <actual|~> <text>   CheckEqual / StringEqual / NoCase / Equals(const char*) / Contains
      :be <expected|~> <actual|~> <size> <text>            BinaryEqual
      :le :ul :ll :ull :sb <z> <z> <text>                  the integer classes
      :de b b b t | :bi v v m n t | :cmp s s t | :chk s s t | :ff t | :fu s t   built only for memory safety
      observation:  <parsed "difference starts at position"|~> <message bytes>"""
from vlib import tz, tb
ID = "C14"
SEARCH_CAP = 4000        # search mode (a broken tie / correspondence): the thorough generator holds histories with 10^5 leaks, whose model evaluation takes minutes each
FLAVOURS = ["asan"]
HARNESS_SRCS = ["harness/C14.cpp"]
CRASH_IS_VIOLATION = True
PER_TIMEOUT = 30.0
PLEN = 10
RULE = ("buffer histories: sweeps of one file-name length across the report limit and the buffer end (exact fit, +-1), 0-60 accumulated misuse "
        "messages then reports (limit lowered below the fill position), report after report without clearing, reports with 0..131072 leaks "
        "(total digits 1-6, sizes around the 16-byte dump line), line numbers >= 2^31, malloc-named allocators; failure messages: every "
        "*Failure class, operands equal / equal only in printed form / one empty / NULL / first difference at every index 0-40 / case-only "
        "differences / control bytes and bytes >= 0x80 / long strings. non-trivial = a history with at least one report or misuse message, or any failure construction")
ASSUMPTIONS = ["'%p' of a leaked block prints 10 characters (the harness allocates leaked blocks from an arena mapped at 0x10000000; checked per scenario)",
               "at most INT_MAX leaks per report; file and allocator names shorter than 2^32; operands of string checks contain no NUL",
               "vsnprintf returns the full formatted length and stores min(length, size-1) characters plus a terminator (C99)"]

# ------------------------------------------------------------------------------------------------ buffer family
def leakg(count, size, fl, line, anl, m):
    return "%x %x %x %x %x %x" % (count, size, fl, line, 6 if m else anl, 1 if m else 0)


def rep(groups):
    return ":rep %x %s" % (len(groups), " ".join(groups)) if groups else ":rep 0"


def mis(kind, afl, aline, asize, anl, ffl, fline, fnl):
    if kind == 0:
        afl = aline = asize = anl = 0
    return ":mis %x %x %x %x %x %x %x %x" % (kind, afl, aline, asize, anl, ffl, fline, fnl)


def buf(ops):
    return ":buf %x %x %s" % (PLEN, len(ops), " ".join(ops))


LINES = [0, 1, 9, 10, 99, 12345, (1 << 31) - 1, 1 << 31, (1 << 31) + 5, (1 << 32) - 1, 1 << 32, (1 << 32) + 123456, (1 << 63), (1 << 64) - 1]
SIZES = [0, 1, 7, 8, 9, 15, 16, 17, 31, 32, 33, 100, 255, 256, 257, 300]


def rnd_line(rng):
    return rng.choice(LINES) if rng.random() < 0.5 else rng.randrange(1, 100000)


def rnd_mis(rng, big=False):
    k = rng.randrange(3)
    fl = rng.randrange(1, 301) if not big else rng.randrange(300, 4300)
    return mis(k, rng.randrange(1, 301), rnd_line(rng), rng.choice(SIZES), rng.randrange(1, 40), fl, rnd_line(rng), rng.randrange(1, 40))


def rnd_rep(rng, maxcount):
    groups = []
    for _ in range(rng.choice([0, 1, 1, 1, 2, 3])):
        count = rng.choice([0, 1, 1, 2, 3, 5, 9, 10, 11, 30, 99, 100, 101, 1000, maxcount])
        count = min(count, maxcount)
        groups.append(leakg(count, rng.choice(SIZES), rng.randrange(1, 501), rnd_line(rng), rng.randrange(1, 40), rng.random() < 0.2))
    return rep(groups)


def gen_buf(tier, rng):
    out = []
    # one leak whose file name length sweeps the entry across the report limit (limit = 3720; entry ~ flen + 110 + header 22)
    for fl in range(3560, 3640):
        out.append(buf([rep([leakg(1, 0, fl, 7, 5, False)])]))
    for fl in range(3480, 3530, 3):         # the same with one dump line after the entry
        out.append(buf([rep([leakg(1, 16, fl, 7, 5, True)])]))
    # one misuse message whose free-file name sweeps the message across the end of the buffer
    for fl in range(3925, 3985):
        out.append(buf([mis(0, 0, 0, 0, 0, fl, 12, 4)]))
    # misuse messages up to just below / above the report limit, then a report (D13 shape), then again
    for k in (0, 1, 5, 20, 21, 22, 23, 24, 25, 26, 27, 30, 40, 60):
        ops = [mis(0, 0, 0, 0, 0, 20 + (i % 7), 100 + i, 4) for i in range(k)]
        out.append(buf(ops + [rep([leakg(3, 16, 10, 3, 5, False)])]))
        out.append(buf(ops + [rep([]), mis(1, 10, 1, 4, 5, 10, 2, 4), rep([leakg(1, 0, 5, 1, 5, True)])]))
    for fl in range(3560, 3760, 4):         # one long misuse message leaves the fill position around the report limit, then a report
        out.append(buf([mis(2, 9, 5, 3, 6, fl, 5, 4), rep([leakg(2, 1, 8, 9, 4, False)])]))
        out.append(buf([mis(2, 9, 5, 3, 6, fl, 5, 4), rep([])]))
    # report after report without clearing; a report with no leaks leaves the lowered limit behind
    out.append(buf([rep([leakg(64, 256, 32, 1, 6, True)]), rep([])]))
    out.append(buf([rep([leakg(64, 256, 32, 1, 6, True)]), rep([leakg(1, 0, 1, 1, 1, False)]), ":clr", rep([leakg(2, 3, 1, 1, 1, False)])]))
    out.append(buf([rep([]), rep([]), mis(0, 0, 0, 0, 0, 4000, 1, 1), ":clr", mis(0, 0, 0, 0, 0, 4000, 1, 1)]))
    # totals with 1..6 digits on a cleared buffer, with and without the malloc note
    for n in (1, 9, 10, 35, 36, 37, 99, 100, 999, 1000, 9999, 10000, 99999 if tier == "thorough" else 12000, 131072 if tier == "thorough" else 20000):
        out.append(buf([rep([leakg(n, 0, 3, 1, 3, False)])]))
        out.append(buf([":clr", rep([leakg(n, 0, 3, 1, 3, True)])]))
    # leak sizes around the dump line on a cleared buffer, count chosen so that the report is cut inside a dump
    for size in SIZES:
        for count in (1, 4, 12, 40):
            out.append(buf([rep([leakg(count, size, 12, 77, 7, size % 2 == 1)])]))
    n = 220 if tier == "quick" else 9000
    for i in range(n):
        ops = []
        shape = rng.random()
        if shape < 0.35:                    # accumulated misuse messages, then reports
            for _ in range(rng.choice([0, 1, 3, 10, 20, 24, 25, 26, 30, 45, 60])):
                ops.append(rnd_mis(rng))
            ops.append(rnd_rep(rng, 3000))
            if rng.random() < 0.5:
                ops.append(rnd_rep(rng, 100))
        else:
            for _ in range(rng.randrange(1, 9)):
                c = rng.random()
                if c < 0.2:
                    ops.append(":clr")
                elif c < 0.55:
                    ops.append(rnd_mis(rng, big=rng.random() < 0.15))
                else:
                    ops.append(rnd_rep(rng, 3000 if rng.random() < 0.2 else 120))
        out.append(buf(ops))
    return out


# ------------------------------------------------------------------------------------------------ failure family
TEXTS = [b"", b"msg", b"LONGS_EQUAL(1, 2) failed", b"a\nb"]


def fail(kind, *toks):
    return ":fail :%s %s" % (kind, " ".join(toks))


def gen_fail(tier, rng):
    out = []
    base = bytes(range(97, 123)) + b"ABCDEFGHIJKLMNO"          # 41 distinct bytes
    special = [b"", b"1", b"a", b"A", b"a\n", b"a\\n", b"\x01", b"\\x01", b"\x7f", b"\\x7F", b"\x80", b"\xff\xfe", b"\\xFF", b"\t\r\n\a\b\v\f",
               b"<>", b"> <", b"difference starts at position 7 at: <", b"hello world", b"HELLO WORLD", b"Hello", b"hellp", b"(null)",
               b" " * 25, b"x" * 9 + b"\n", b"x" * 10 + b"\n", b"x" * 11 + b"\x02"]
    for k in ("ce", "se", "sn"):
        for e in special:
            for a in special:
                out.append(fail(k, tb(e), tb(a), tb(TEXTS[(len(e) + len(a)) % 4])))
        for i in range(0, 41):                                  # first difference at every index; one operand a prefix of the other
            a = bytearray(base)
            a[i] = 0x5f if k != "sn" else a[i] ^ 0x01
            out.append(fail(k, tb(base), tb(bytes(a)), tb(b"")))
            out.append(fail(k, tb(base[:i]), tb(base), tb(b"")))
            out.append(fail(k, tb(base), tb(base[:i]), tb(b"m")))
            c = bytearray(base)
            c[i] = 0x0a                                         # the difference is a control byte: printable forms shift
            out.append(fail(k, tb(bytes(c)), tb(base), tb(b"")))
            d = bytearray(base)
            d[i] ^= 0x20                                        # case-only difference
            out.append(fail(k, tb(base), tb(bytes(d)), tb(b"")))
    for k in ("se", "sn", "eq"):
        for e, a in ((None, None), (None, b"abc"), (b"abc", None), (None, b""), (b"", None)):
            out.append(fail(k, tb(e), tb(a), tb(b"")))
    for e in special:
        out.append(fail("eq", tb(e), tb(special[(len(e) * 7) % len(special)]), tb(b"msg")))
        out.append(fail("co", tb(e), tb(special[(len(e) * 5 + 1) % len(special)]), tb(b"")))
    for size in (0, 1, 2, 3, 7, 16, 40):
        b0 = bytes((i * 29 + 3) & 0xff for i in range(size))
        out.append(fail("be", tb(b0), tb(b0), "%x" % size, tb(b"")))
        out.append(fail("be", "~", tb(b0), "%x" % size, tb(b"")))
        out.append(fail("be", tb(b0), "~", "%x" % size, tb(b"t")))
        for i in range(size):
            b1 = bytearray(b0)
            b1[i] ^= 0x80
            out.append(fail("be", tb(b0), tb(bytes(b1)), "%x" % size, tb(b"")))
    ints = [0, 1, -1, 9, 10, -10, 127, -128, 255, (1 << 31) - 1, -(1 << 31), (1 << 63) - 1, -(1 << 63)]
    for e in ints:
        for a in (ints[(ints.index(e) + 1) % len(ints)], e):
            out.append(fail("le", tz(e), tz(a), tb(b"LONGS_EQUAL(a, b) failed")))
            out.append(fail("ll", tz(e), tz(a), tb(b"")))
            if -128 <= e <= 127 and -128 <= a <= 127:
                out.append(fail("sb", tz(e), tz(a), tb(b"")))
            if e >= 0 and a >= 0:
                out.append(fail("ul", tz(e), tz(a), tb(b"")))
                out.append(fail("ull", tz(e * 2 + 1), tz(a * 2 + 1), tb(b"")))
    for d in (0x3ff0000000000000, 0x7ff8000000000000, 0x7ff0000000000000, 0xfff0000000000000, 0x1, 0x7fefffffffffffff):
        out.append(fail("de", "%x" % d, "3ff0000000000000", "%x" % (d ^ 0x10), tb(b"")))
    for bc in (0, 1, 2, 4, 8, 9):
        out.append(fail("bi", "a5a5", "5a5a", "ff0f", "%x" % bc, tb(b"")))
    out.append(fail("cmp", tb(b"CHECK_COMPARE"), tb(b"1 < 0"), tb(b"")))
    out.append(fail("chk", tb(b"CHECK"), tb(b"false"), tb(b"why")))
    out.append(fail("ff", tb(b"failed %s %n")))
    out.append(fail("fu", tb(b"fork"), tb(b"")))
    alphabet = [bytes([c]) for c in (1, 7, 9, 10, 13, 27, 31, 32, 60, 62, 65, 90, 92, 97, 110, 120, 122, 126, 127, 128, 200, 255)]
    n = 600 if tier == "quick" else 40000

    def rstr(maxlen):
        return b"".join(rng.choice(alphabet) for _ in range(rng.randrange(0, maxlen)))
    for i in range(n):
        k = rng.choice(["ce", "se", "sn", "ce", "se", "sn", "eq", "co"])
        e = rstr(rng.choice([3, 8, 30, 60]))
        c = rng.random()
        if c < 0.25:
            a = e
        elif c < 0.6 and e:
            j = rng.randrange(len(e))
            a = e[:j] + rng.choice(alphabet) + e[j + 1:]
            if rng.random() < 0.3:
                a = e[:j]
        elif c < 0.7:                                            # printed forms coincide, operands differ
            a = e.replace(b"\n", b"\\n") if b"\n" in e else e + b"\\x01"
            e = e if b"\n" in e else e + b"\x01"
        else:
            a = rstr(30)
        out.append(fail(k, tb(e), tb(a), tb(rng.choice(TEXTS))))
    for size in ([2000, 10240] if tier == "quick" else [2000, 4096, 10240, 24576]):      # the extracted model is quadratic in the text length: 24 KiB = ~75 s per scenario
        big = bytes(rng.choice(b"abcdefghijklmnopqrstuvwxyz \n\x01") for _ in range(size))
        out.append(fail("se", tb(big), tb(big[:-1] + b"#"), tb(b"")))
        out.append(fail("ce", tb(big), tb(big), tb(b"")))
        out.append(fail("sn", tb(big), tb(big.upper()), tb(b"")))
        out.append(fail("be", tb(big[:512]), tb(big[:511] + b"#"), "200", tb(b"")))
    return out


def generate(tier, rng):
    return gen_buf(tier, rng) + gen_fail(tier, rng)


def nontrivial(s):
    return s.startswith(":fail") or ":rep" in s or ":mis" in s


def classify(s):
    t = s.split()
    if t[0] == ":fail":
        labels = ["fail" + t[1]]
        if t[1] in (":ce", ":se", ":sn", ":be") and t[2] == t[3]:
            labels.append("fail:equal-operands")
        if "~" in t[2:4]:
            labels.append("fail:NULL-operand")
        return labels
    nm, nr, nc = t.count(":mis"), t.count(":rep"), t.count(":clr")
    labels = ["buf:ops<=%d" % (1 if len(t) < 14 else 10 if nm + nr + nc <= 10 else 100)]
    if nm and nr:
        labels.append("buf:misuse-then-report")
    if nr >= 2:
        labels.append("buf:several-reports")
    if nc:
        labels.append("buf:clear")
    return labels


def signature(s, o):
    t = s.split()
    if t[0] == ":fail":
        return "fail%s %s" % (t[1], "crash " + o[7:120] if o.startswith("!") else "spec")
    if o.startswith("!"):
        return "buf crash " + o[7:120]
    ot = o.split()
    over = any(ot[i] in ("c", "m", "r") and (int(ot[i + 1], 16) >= 4096 or ot[i + 2] == "0") for i in range(len(ot) - 2))
    return "buf overflow" if over else "buf report"


def _ops(t):
    """split the tokens of a :buf scenario into ops (lists of tokens)"""
    ops, i = [], 3
    while i < len(t):
        if t[i] == ":clr":
            ops.append(t[i:i + 1]); i += 1
        elif t[i] == ":mis":
            ops.append(t[i:i + 9]); i += 9
        else:
            n = int(t[i + 1], 16)
            ops.append(t[i:i + 2 + 6 * n]); i += 2 + 6 * n
    return ops


def shrink(s):
    t = s.split()
    if t[0] == ":fail":
        for i in range(2, len(t)):
            if t[i].startswith("$") and len(t[i]) > 1:
                body = t[i][1:]
                for cut in (len(body) // 2 // 2 * 2, 2):
                    if 0 < cut <= len(body):
                        yield " ".join(t[:i] + ["$" + body[cut:]] + t[i + 1:])
                        yield " ".join(t[:i] + ["$" + body[:-cut]] + t[i + 1:])
        return
    ops = _ops(t)
    for k in range(len(ops)):
        rest = ops[:k] + ops[k + 1:]
        if rest:
            yield ":buf %s %x %s" % (t[1], len(rest), " ".join(" ".join(o) for o in rest))
    for k, o in enumerate(ops):
        for j in range(1, len(o)):
            if o[0] == ":rep" and j == 1:
                continue
            if o[0] == ":rep" and (j - 2) % 6 in (4, 5):
                continue
            if o[0] == ":mis" and j == 1:
                continue
            v = int(o[j], 16)
            for nv in (v // 2, v - 1):
                if 0 <= nv < v:
                    o2 = o[:j] + ["%x" % nv] + o[j + 1:]
                    new = ops[:k] + [o2] + ops[k + 1:]
                    yield ":buf %s %x %s" % (t[1], len(new), " ".join(" ".join(x) for x in new))


def project(o, flavour):
    """compared between model and implementation: buffer family without the number of complete entries (it depends on the order in
    which the detector's hash table lists the leaks; the property only bounds it); failure family: the reported position only."""
    t = o.split()
    if not t or t[0].startswith("!") or t[0] == "bad":
        return o
    if t[0] in ("c", "m", "r"):
        out, i = [], 0
        while i < len(t):
            if t[i] == "r":
                out += t[i:i + 5] + t[i + 6:i + 8]; i += 8
            else:
                out += t[i:i + 5]; i += 5
        return " ".join(out)
    return t[0]


LEVEL_TEXT = ("Machine-checked (Coq) theorems over an executable model of (a) SimpleStringBuffer/MemoryLeakOutputStringBuffer as a state machine over "
              "formatted lengths that records the greatest index written and the first NUL: for EVERY history of startChecking/misuse reports/leak "
              "reports all written indices are < 4096 and the text ends at the fill position; a report begun on a cleared buffer states the true total "
              "and carries the complete 'too many' notice whenever an entry was cut or dropped (constants and format strings regenerated from the "
              "source); (b) the first-difference scans of the *Failure constructors as bounds-checked loops over operands and printable forms: "
              "position = least differing index, no read beyond the terminator, marker window inside the padded text, both operands shown escaped. "
              "Tied to the code by a differential run against a private MemoryLeakDetector (canary hook, ASan) and every *Failure class.")
LEVEL_NOTE = ("Partial in the sense of DESIGN 6: the model is bounds-checked so the LOGIC of memory safety is proved; the real accesses are seen only by "
              "ASan and the canary hook. Trusted: Coq kernel, extraction, tools/gen/C14.py (string lengths, format conversions), the harness parsers. "
              "Modelled not verified: vsnprintf by its C99 contract, '%p' length as scenario input, message wording outside the quoted marker, "
              "doubles/bits/exception failure classes only for crash-freedom.")
TECHNIQUE = "Coq proof over hand-written executable model + extracted-model/implementation correspondence check (differential; ASan + canary hook)"
READY = True
